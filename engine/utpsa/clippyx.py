"""Cross-reference for E8 (thorough tier only): clippy's restriction lints indexing_slicing / unwrap_used / expect_used /
panic / unreachable over the lib.  A site clippy reports inside a datagram-reachable function that the panic census did
not collect is an *engine gap* (the census cannot be trusted) and fails the check.  clippy decides nothing by itself."""
import json
import os
import subprocess

from . import extract

LINTS = ["indexing_slicing", "unwrap_used", "expect_used", "panic", "unreachable", "unimplemented", "todo"]


def run_clippy(repo):
    env = dict(os.environ)
    env["CARGO_TARGET_DIR"] = os.path.join(extract.CACHE, "target-clippy" + ("" if os.path.abspath(repo) == "/repo" else "-scratch"))
    env["CARGO_NET_OFFLINE"] = "true"
    cmd = ["cargo", "+nightly", "clippy", "--offline", "--lib", "--message-format=json", "--"]
    for l in LINTS:
        cmd += ["-W", "clippy::" + l]
    # clippy's own freshness cache replays diagnostics, which is what we want here
    r = subprocess.run(cmd, cwd=repo, env=env, stdout=subprocess.PIPE, stderr=subprocess.DEVNULL, text=True)
    sites = []
    for line in r.stdout.split("\n"):
        try:
            m = json.loads(line)
        except ValueError:
            continue
        if m.get("reason") != "compiler-message":
            continue
        msg = m["message"]
        code = (msg.get("code") or {}).get("code", "")
        if not code.startswith("clippy::") or code.split("::")[1] not in LINTS:
            continue
        sp = [s for s in msg["spans"] if s["is_primary"]]
        if not sp:
            continue
        s = sp[0]
        while s.get("expansion"):  # outermost call site, like the fact base's source_callsite()
            s = s["expansion"]["span"]
        sites.append((code.split("::")[1], s["file_name"], s["line_start"]))
    return r.returncode, sites


def body_at(facts, file, line):
    """innermost local body containing file:line"""
    best = None
    for n in facts.body_names:
        jb = facts.j["bodies"][n]
        loc = jb["loc"]
        if loc[0] == file and loc[1] <= line <= (jb.get("end_line") or loc[1]):
            span = (jb.get("end_line") or loc[1]) - loc[1]
            if best is None or span <= best[0]:
                best = (span, n)
    return best[1] if best else None


def gaps(facts, repo, reachable, collected_lines):
    """collected_lines: set of (file, line) of every site the census looked at"""
    rc, sites = run_clippy(repo)
    out = []
    inscope = 0
    for lint, file, line in sites:
        b = body_at(facts, file, line)
        if b is None or b not in reachable:
            continue
        inscope += 1
        if (file, line) not in collected_lines:
            out.append((lint, file, line, b))
    return len(sites), inscope, out
