"""Predicate bits for E3: sign/zero-ness (and false/true) of bare locals, used to prune infeasible
branches such as `if n > 0 { wake }` after `n += 1`, or `if !registered { return }`.

Abstract value per tracked local: 'Z' (== 0 / false), 'P' (> 0 / true), 'NZ' (!= 0, signed only);
absent = unknown.  Sound pruning only: an edge is removed only when the abstract value contradicts it.
Arithmetic overflow is a panic in the analysed (debug) profile, i.e. not a normal path.
"""
from .facts import Stmt, Term
from .events import local_update


def _unsigned(ty):
    return ty in ("usize", "u8", "u16", "u32", "u64", "u128", "bool")


class ZeroTracker:
    def __init__(self, body):
        self.body = body
        self._cache = {}
        self.tracked = set()
        for b in body.blocks:
            if b.cleanup:
                continue
            t = b.term
            if t.kind == "switch":
                info = self._cond_info(t)
                # only user-named locals: tracing/log macros branch on scores of unnamed temporaries
                if info and body.local_name(info[0]) and not t.is_tracing:
                    self.tracked.add(info[0])
                else:
                    self._cache[t.bb] = None

    # ---- condition shape: (local, test) with test in gt0 / ne0 / eq0 / le0 (meaning: cond true <=> L test)
    def _cond_info(self, term):
        key = term.bb
        if key in self._cache:
            return self._cache[key]
        r = self._cond_info0(term)
        self._cache[key] = r
        return r

    def _cond_info0(self, term):
        body = self.body
        op = term.op
        neg = False
        NEG = {"gt0": "le0", "le0": "gt0", "ne0": "eq0", "eq0": "ne0"}
        for _ in range(6):
            if op.place is None or not op.place.is_local:
                return None
            l = op.place.local
            d = body.unique_def(l)
            if d is None:
                if len(body.all_defs(l)) >= 1 and body.local_ty(l) == "bool":
                    return (l, "eq0" if neg else "ne0")
                return None
            if isinstance(d, Stmt):
                rv = d.rv
                if rv.kind == "use" and rv.ops[0].place is not None and rv.ops[0].place.is_local:
                    op = rv.ops[0]
                    continue
                if rv.kind == "un" and rv.op == "Not":
                    neg = not neg
                    op = rv.ops[0]
                    continue
                if rv.kind == "bin" and rv.op in ("Gt", "Ne", "Eq", "Lt", "Ge", "Le"):
                    a, b = rv.ops

                    def loc(o):
                        if o.place is not None and o.place.is_local:
                            dd = body.unique_def(o.place.local)
                            if isinstance(dd, Stmt) and dd.rv.kind == "use" and dd.rv.ops[0].place is not None and dd.rv.ops[0].place.is_local:
                                return dd.rv.ops[0].place.local
                            return o.place.local
                        return None

                    def zero(o):
                        return o.kind == "const" and o.scalar == 0

                    test = None
                    l2 = None
                    if zero(b) and loc(a) is not None:
                        l2 = loc(a)
                        test = {"Gt": "gt0", "Ne": "ne0", "Eq": "eq0", "Le": "le0"}.get(rv.op)
                    elif zero(a) and loc(b) is not None:
                        l2 = loc(b)
                        test = {"Lt": "gt0", "Ne": "ne0", "Eq": "eq0", "Ge": "le0"}.get(rv.op)
                    if test is None:
                        return None
                    if _unsigned(body.local_ty(l2)):
                        # for unsigned: >0 <=> !=0, <=0 <=> ==0
                        test = {"gt0": "gt0", "ne0": "gt0", "eq0": "eq0", "le0": "eq0"}[test]
                    if neg:
                        test = NEG[test]
                        if _unsigned(body.local_ty(l2)):
                            test = {"gt0": "gt0", "ne0": "gt0", "eq0": "eq0", "le0": "eq0"}[test]
                    return (l2, test)
                return None
            return None
        return None

    # ---- transfer
    def step(self, it, z):
        """z: frozenset of (local, 'Z'|'P'|'NZ'); returns new frozenset or None if unchanged"""
        body = self.body
        if isinstance(it, Stmt) and it.place.is_local and it.place.local in self.tracked:
            l = it.place.local
            cur = dict(z)
            old = cur.get(l)
            new = None
            rv = it.rv
            lu = local_update(body, it)
            if rv.kind == "use" and rv.ops[0].kind == "const" and isinstance(rv.ops[0].scalar, int):
                v = rv.ops[0].scalar
                new = "Z" if v == 0 else ("P" if v > 0 else "NZ")
            elif lu is not None and lu[1] == "+=":
                amt = lu[2]
                pos_const = amt.kind == "const" and isinstance(amt.scalar, int) and amt.scalar > 0
                if pos_const and old in ("Z", "P"):
                    new = "P"
                elif old == "P" and amt.place is not None and _unsigned(body.local_ty(l)):
                    new = "P"  # positive + unsigned amount stays positive
                else:
                    new = None
            if new is None:
                cur.pop(l, None)
            else:
                cur[l] = new
            nz = frozenset(cur.items())
            return nz if nz != z else None
        if isinstance(it, Term) and it.kind == "call" and it.dest is not None and it.dest.is_local and it.dest.local in self.tracked:
            cur = dict(z)
            if it.dest.local in cur:
                cur.pop(it.dest.local)
                return frozenset(cur.items())
        return None

    def edge(self, term, tgt, label, z):
        """returns False if the edge is infeasible under z, else the (possibly refined) z"""
        if term.kind != "switch" or label is None:
            return z
        info = self._cond_info(term)
        if info is None:
            return z
        l, test = info
        if label[0] == "val":
            cond_true = label[1] != 0
        else:
            if 0 in label[1]:
                cond_true = True
            elif 1 in label[1]:
                cond_true = False
            else:
                return z
        if not cond_true:
            test = {"gt0": "le0", "le0": "gt0", "ne0": "eq0", "eq0": "ne0"}[test]
        cur = dict(z)
        old = cur.get(l)
        # does `old` contradict `test`?
        contradict = {
            "gt0": ("Z",),
            "le0": ("P",),
            "ne0": ("Z",),
            "eq0": ("P", "NZ"),
        }[test]
        if old in contradict:
            return False
        refine = {"gt0": "P", "eq0": "Z", "ne0": "NZ" if old is None else old, "le0": old}[test]
        if test == "le0" and _unsigned(self.body.local_ty(l)):
            refine = "Z"
        if refine is None:
            cur.pop(l, None)
        else:
            cur[l] = refine
        return frozenset(cur.items())
