"""E5 BOUND: conservative upper-bound tags.

ub(body, x) returns the set of leaves L such that (value of x) <= (value of L) is guaranteed by the
shape of the computation, or TOP (every bound holds: the constant 0 of an unsigned type, or "no value").
Leaves: ('field','Owner.f'), ('param', idx|name), ('const', n), ('call', callee), ('upvar', name),
        ('len', 'Owner.f') for `container.len()`, ('clamped', lo, hi) sanitiser tags.
Rules: min -> union; max / several reaching definitions -> intersection; a - b, a.saturating_sub(b), a % b,
a / b, a >> k, a & b, narrowing/equal-width unsigned casts keep ub(a); everything else only itself.
Local callees get a return-value summary (parameters substituted by the caller's arguments);
closures passed to unwrap_or_else/unwrap_or/map_or contribute the intersection with the payload.
"""
from .facts import Stmt, Term, Operand, Place
from .prov import trace, place_fields, short_callee
from .events import ADD_OPS, SUB_OPS

TOP = None  # all bounds hold


def _union(a, b):
    if a is TOP or b is TOP:
        return TOP
    return a | b


def _inter(a, b):
    if a is TOP:
        return b
    if b is TOP:
        return a
    return a & b


KEEP_FIRST = (
    "usize::saturating_sub", "u16::saturating_sub", "u32::saturating_sub", "u64::saturating_sub", "u8::saturating_sub",
    "core::num::saturating_sub", "num::saturating_sub",
    "usize::checked_sub", "u64::checked_sub", "u32::checked_sub", "u16::checked_sub",
    "usize::wrapping_rem", "std::num::NonZero::get", "std::convert::Into::into", "std::convert::From::from",
    "std::clone::Clone::clone", "std::option::Option::unwrap", "std::option::Option::expect", "std::result::Result::unwrap",
    "std::convert::TryInto::try_into", "std::convert::TryFrom::try_from",
)


class Bounds:
    def __init__(self, facts, field_invariants=None):
        self.facts = facts
        self.inv = field_invariants or {}  # 'Owner.f' -> set(leaves) assumed (and separately checked) invariant
        self.memo = {}
        self.summ = {}
        self.stack = set()

    # ------------------------------------------------------------------ public
    def ub(self, body, x, depth=0):
        if depth > 24:
            return frozenset()
        if isinstance(x, Operand):
            if x.kind == "const":
                return self._const(x)
            place = x.place
        else:
            place = x
        f, _, upvar_root = place_fields(body, place)
        # a projection that reads memory (field of something) is a leaf, unless it is a tuple field of a local
        t = trace(body, place, through_casts=False)
        return self._from_trace(body, t, depth)

    def _const(self, op):
        v = op.scalar
        if isinstance(v, int):
            if v == 0:
                return TOP
            return frozenset([("const", v)])
        if op.const_item:
            return frozenset([("constitem", op.const_item)])
        return frozenset()

    def _leaf_field(self, fname):
        s = {("field", fname)}
        inv = self.inv.get(fname)
        if inv:
            s |= set(inv)
        return frozenset(s)

    def _from_trace(self, body, t, depth):
        k = t.kind
        flds = [f for f in t.fields]
        # `.0` of a WithOverflow result / tuple temp is not a memory read
        if flds and all(f.startswith("tuple.") for f in flds) and k == "rv":
            st = t.root[1]
            rv = st.rv
            if rv.kind == "bin" and flds == ["tuple.0"]:
                return self._bin(body, rv, depth)
            return frozenset()
        real = [f for f in flds if not f.startswith("Option::") and not f.startswith("Result::") and not f.startswith("ControlFlow::")]
        if real:
            return self._leaf_field(real[-1])
        if k == "const":
            return self._const(t.root[1])
        if k == "param":
            return frozenset([("param", t.root[1])])
        if k == "upvar":
            return frozenset([("upvar", t.root[1])])
        if k == "rv":
            st = t.root[1]
            rv = st.rv
            if rv.kind == "bin":
                return self._bin(body, rv, depth)
            if rv.kind == "cast":
                frm, to = rv.j.get("from", ""), rv.j.get("ty", "")
                a = rv.ops[0]
                if rv.j.get("ck") == "IntToInt" and frm[:1] == "u" and to[:1] == "u":
                    return self.ub(body, a, depth + 1)  # truncation only lowers an unsigned value
                if rv.j.get("ck") == "IntToInt" and frm[:1] == "i" and to[:1] == "u":
                    return frozenset()  # negative -> huge
                if rv.j.get("ck") in ("IntToFloat", "FloatToInt", "FloatToFloat"):
                    return self.ub(body, a, depth + 1)  # monotone conversions (saturating for float->int)
                return frozenset()
            if rv.kind == "agg":
                if rv.j["ak"] == "adt" and rv.j.get("variant") in ("Some", "Ok") and rv.ops:
                    return self.ub(body, rv.ops[0], depth + 1)
                if rv.j["ak"] == "adt" and rv.j.get("variant") == "None":
                    return TOP
                return frozenset()
            if rv.kind == "use":
                return self.ub(body, rv.ops[0], depth + 1)
            if rv.kind == "un" and rv.op == "PtrMetadata":
                from .panics import container_key
                ck = container_key(trace(body, rv.ops[0]))
                if ck is not None:
                    return frozenset([("len", ck)])
            return frozenset()
        if k == "call":
            return self._call(body, t.root[1], depth)
        if k == "multi":
            return self._multi(body, t, depth)
        return frozenset()

    def _bin(self, body, rv, depth):
        op = rv.op
        a, b = rv.ops
        if op in SUB_OPS or op in ("Rem", "Div", "Shr", "ShrUnchecked"):
            return self.ub(body, a, depth + 1)
        if op == "BitAnd":
            return _union(self.ub(body, a, depth + 1), self.ub(body, b, depth + 1))
        if op in ("Mul", "MulWithOverflow") and rv.j.get("ty", "").startswith("f"):
            # f64 multiplication by a constant in [0, 1]
            for x, y in ((a, b), (b, a)):
                c = y.j.get("scalar") if y.kind == "const" else None
                if isinstance(c, dict) and "f" in c:
                    try:
                        v = float(c["f"])
                        if 0.0 <= v <= 1.0:
                            return self.ub(body, x, depth + 1)
                    except ValueError:
                        pass
        return frozenset()

    def _call(self, body, c, depth):
        callee = c.callee or ""
        res = c.resolved or ""
        args = c.args
        last = res.split("::")[-1]
        is_local = bool(c.j.get("res_local"))

        def arg(i):
            return self.ub(body, args[i], depth + 1)

        if not is_local:
            if last == "min" and len(args) == 2:
                return _union(arg(0), arg(1))
            if last == "max" and len(args) == 2:
                return _inter(arg(0), arg(1))
            if last == "clamp" and len(args) == 3:
                hi = arg(2)
                tag = ("clamped", trace(body, args[1]).describe(), trace(body, args[2]).describe())
                return _union(hi, frozenset([tag]))
            if last in ("saturating_sub", "checked_sub", "wrapping_rem", "get", "into", "from", "clone", "unwrap", "expect", "try_into", "try_from", "abs_diff") and args and (
                    res.startswith("core::num::") or res in KEEP_FIRST or callee in KEEP_FIRST or res.startswith("std::time::Duration::")):
                return arg(0)
            if last == "len" and args:
                from .panics import container_key
                ck = container_key(trace(body, args[0]))
                if ck is not None:
                    return frozenset([("len", ck)])
                return frozenset([("call", res)])
            if res in ("std::option::Option::unwrap_or_else", "std::option::Option::unwrap_or", "std::option::Option::map_or") and len(args) >= 2:
                return _inter(arg(0), self._fn_value(body, args[1], depth))
            return frozenset([("call", res)])
        if res != body.name:
            out = self._subst(body, c, self.summary(res), depth)
            if out is TOP:
                return TOP
            return out | {("call", res)}
        return frozenset([("call", res)])

    def _fn_value(self, body, op, depth):
        """ub of the value produced by a closure operand (or of a plain value for unwrap_or)"""
        t = trace(body, op)
        if t.kind == "rv" and t.root[1].rv.kind == "agg" and t.root[1].rv.j["ak"] == "closure":
            name = t.root[1].rv.j["closure"]
            return self.summary(name)
        return self.ub(body, op, depth + 1)

    def _subst(self, body, call, s, depth):
        if s is TOP:
            return TOP
        out = set()
        for leaf in s:
            if leaf[0] == "param" and isinstance(leaf[1], int):
                i = leaf[1] - 1
                if 0 <= i < len(call.args):
                    r = self.ub(body, call.args[i], depth + 1)
                    if r is TOP:
                        return TOP
                    out |= r
            else:
                out.add(leaf)
        return frozenset(out)

    def _multi(self, body, t, depth):
        l = t.root[1]
        key = (body.name, "multi", l)
        if key in self.memo:
            return self.memo[key]
        if key in self.stack:
            return TOP  # optimistic for the fixpoint: `L = L - x` preserves whatever L had
        self.stack.add(key)
        # `if a <= b { a } else { b }` is min(a, b) (and the mirror image max): same tags as the method form
        sel = _select_minmax(body, t)
        if sel is not None:
            kind, a, b = sel
            from .facts import Term as _Term
            ra = self._call(body, a, depth + 1) if isinstance(a, _Term) else self.ub(body, a, depth + 1)
            rb = self._call(body, b, depth + 1) if isinstance(b, _Term) else self.ub(body, b, depth + 1)
            acc = _union(ra, rb) if kind == "min" else _inter(ra, rb)
            self.stack.discard(key)
            if acc is TOP:
                acc = frozenset()
            self.memo[key] = acc
            return acc
        acc = TOP
        for d in t.root[3]:
            if isinstance(d, Stmt):
                rv = d.rv
                if rv.kind == "use":
                    r = self.ub(body, rv.ops[0], depth + 1)
                elif rv.kind == "bin":
                    r = self._bin(body, rv, depth)
                elif rv.kind == "cast":
                    r = self._from_trace(body, _fake_rv_trace(d), depth)
                elif rv.kind == "agg":
                    r = self._from_trace(body, _fake_rv_trace(d), depth)
                else:
                    r = frozenset()
            elif d.kind == "call":
                r = self._call(body, d, depth)
            else:
                r = frozenset()
            acc = _inter(acc, r)
        self.stack.discard(key)
        if acc is TOP:
            acc = frozenset()
        self.memo[key] = acc
        return acc

    def summary(self, fname):
        """ub of the return value of a local fn / closure, in terms of its own params ('param', idx) and fields"""
        if fname in self.summ:
            return self.summ[fname]
        self.summ[fname] = frozenset()  # recursion guard
        b = self.facts.body(fname)
        if b is None:
            return frozenset()
        acc = TOP
        n = 0
        for it in b.items():
            pl = None
            if isinstance(it, Stmt) and it.place.local == 0 and it.place.is_local:
                n += 1
                rv = it.rv
                if rv.kind == "use":
                    r = self.ub(b, rv.ops[0])
                elif rv.kind == "bin":
                    r = self._bin(b, rv, 0)
                else:
                    r = self._from_trace(b, _fake_rv_trace(it), 0)
                acc = _inter(acc, r)
            elif isinstance(it, Term) and it.kind == "call" and it.dest is not None and it.dest.local == 0 and it.dest.is_local:
                n += 1
                acc = _inter(acc, self._call(b, it, 0))
        if n == 0 or acc is TOP:
            acc = frozenset() if n == 0 else TOP
        self.summ[fname] = acc
        return acc


PURE_SUFFIXES = ("::len", "NonZero::get", "::capacity", "::is_empty", "::as_ref", "Deref::deref", "::as_slices", "::occupied_len", "::vacant_len")


def vkey(body, x, depth=0):
    """structural identity of a value: like Trace.key(), but two evaluations of the same pure call on the same arguments
    (`payload.len()` written twice, `max_size.get()` in the test and in the branch) are the same value"""
    from .facts import Term as _Term
    from .prov import TRANSPARENT
    if isinstance(x, _Term):
        c = x
        if (c.callee in TRANSPARENT or c.resolved in TRANSPARENT) and c.args:
            return vkey(body, c.args[0], depth + 1)  # the provenance trace looks through these: so must the key
    else:
        t = trace(body, x)
        if t.kind == "rv" and depth <= 4 and isinstance(t.root[1], Stmt) and t.root[1].rv.kind == "bin" and t.fields in ([], ["tuple.0"]):
            # the same arithmetic on the same (structurally identical) operands, evaluated twice: `cap * 2` in the test and in the branch
            rv = t.root[1].rv
            ks = tuple(vkey(body, o, depth + 1) for o in rv.ops)
            if all(k[0] in ("param", "pure", "const", "bin", "upvar") for k in ks):
                return ("bin", rv.op.replace("WithOverflow", "").replace("Unchecked", ""), ks)
        if t.kind != "call" or t.fields or depth > 4:
            return t.key()
        c = t.root[1]
    r = c.resolved or c.callee or ""
    if any(r.endswith(sfx) for sfx in PURE_SUFFIXES) and c.args:
        return ("pure", r, tuple(vkey(body, a, depth + 1) for a in c.args))
    return ("call", (c.bb, c.idx), ())


def _select_minmax(body, t):
    """`if a <= b { a } else { b }` (any spelling of the comparison, either branch order, operands re-evaluated if pure) as
    ("min"|"max", value a, value b); a value is an Operand, or the defining call Term"""
    from .flow import controlling_edges, switch_cond, ordering
    from .facts import Term as _Term
    defs = list(t.root[3])
    if len(defs) != 2:
        return None
    vals = []
    for d in defs:
        if isinstance(d, Stmt) and d.rv.kind in ("use", "cast"):
            vals.append(d.rv.ops[0])
        elif isinstance(d, _Term) and d.kind == "call" and any((d.resolved or "").endswith(sfx) for sfx in PURE_SUFFIXES):
            vals.append(d)
        else:
            return None
    d1, d2 = defs
    v1, v2 = vals
    k1, k2 = vkey(body, v1), vkey(body, v2)

    def conds(bb):
        out = {}
        for term, tgt, lab in controlling_edges(body, bb):
            c, neg = switch_cond(body, term)
            truth = (lab[1] != 0) if lab[0] == "val" else (0 in lab[1])
            out[(term.bb, term.idx)] = (c, (not truth) if neg else truth)
        return out
    c1, c2 = conds(d1.bb), conds(d2.bb)
    for k in c1:
        if k in c2 and c1[k][1] != c2[k][1]:
            o = ordering(c1[k][0], c1[k][1])
            if o is None:
                continue
            lo, hi = vkey(body, o[0]), vkey(body, o[1])
            if {lo, hi} != {k1, k2}:
                continue
            return ("min" if k1 == lo else "max", v1, v2)
    return None


class _T:
    def __init__(self, st):
        self.root = ("rv", st)
        self.fields = []
        self.kind = "rv"


def _fake_rv_trace(st):
    return _T(st)


def fmt(s):
    if s is TOP:
        return "TOP"
    out = []
    for leaf in sorted(s, key=str):
        if leaf[0] == "call":
            out.append("call:" + short_callee(leaf[1]))
        elif leaf[0] == "clamped":
            out.append("clamped[%s,%s]" % (leaf[1], leaf[2]))
        else:
            out.append("%s:%s" % (leaf[0], leaf[1]))
    return "{" + ", ".join(out) + "}"
