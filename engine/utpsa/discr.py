"""E7 discriminant dataflow: which enum variants are still possible for a scrutinee along a path.

State component: frozenset of (key, frozenset(variant names)); absent key = all variants possible.
Keys: a *place* ((local, fields)) for snapshot copies such as the `(self.state, hdr.get_type())` tuple, or a
*pure getter* key (callee, receiver description) so that two calls of `hdr.get_type()` on the same,
never-modified header are recognised as the same value.
"""
from .facts import Stmt, Term, Place
from .prov import trace
from .flow import switch_cond, enum_variant_values

PURE_GETTERS = ("raw::UtpHeader::get_type",)


def discr_key(body, place, pure_getters=PURE_GETTERS):
    t = trace(body, place)
    if t.kind == "call" and not t.fields and (t.root[1].resolved in pure_getters or t.root[1].callee in pure_getters):
        c = t.root[1]
        return ("get", c.resolved, trace(body, c.args[0]).describe())
    return ("place", place.local, tuple(place.fields))


class DiscrTracker:
    def __init__(self, body, enums=None, pure_getters=PURE_GETTERS):
        self.body = body
        self.enums = enums  # set of enum paths to track (None = all local enums)
        self.pure = pure_getters
        self._cache = {}

    def info(self, term):
        """(key, enum_path, {value: variant}) for a switch on a tracked discriminant, else None"""
        if term.bb in self._cache:
            return self._cache[term.bb]
        r = None
        if term.kind == "switch":
            c, neg = switch_cond(self.body, term)
            if c.kind == "discr" and (self.enums is None or c.enum in self.enums):
                vals = enum_variant_values(self.body.facts, c.enum)
                if vals:
                    r = (discr_key(self.body, c.place, self.pure), c.enum, vals)
        self._cache[term.bb] = r
        return r

    def edge(self, term, tgt, label, d):
        """refine; returns False when the edge is infeasible"""
        inf = self.info(term)
        if inf is None or label is None:
            return d
        key, enum, vals = inf
        allv = frozenset(vals.values())
        cur = dict(d)
        poss = cur.get(key, allv)
        if label[0] == "val":
            v = vals.get(label[1])
            take = frozenset([v]) if v is not None else frozenset()
        else:
            take = frozenset(n for val, n in vals.items() if val not in label[1])
        new = poss & take
        if not new:
            return False
        if new == allv:
            cur.pop(key, None)
        else:
            cur[key] = new
        return frozenset(cur.items())

    def possible(self, d, key, enum):
        vals = enum_variant_values(self.body.facts, enum)
        return dict(d).get(key, frozenset(vals.values()))


def bool_fn_variant_table(body):
    """for `fn pred(&self) -> bool` over an enum: {True: variants for which it returns true, False: ...}.
    Computed by the same dataflow (exact for match/matches! bodies)."""
    from .flow import typestate
    dt = DiscrTracker(body)
    keys = set()

    def step(it, s):
        d, ret = s
        if isinstance(it, Stmt) and it.place.local == 0 and it.place.is_local and it.rv.kind == "use" and it.rv.ops[0].kind == "const":
            return (d, it.rv.ops[0].scalar)
        return None

    def edge(term, tgt, label, s):
        d, ret = s
        r = dt.edge(term, tgt, label, d)
        if r is False:
            return []
        inf = dt.info(term)
        if inf:
            keys.add((inf[0], inf[1]))
        return [(r, ret)]
    res = typestate(body, [(frozenset(), None)], step, edge)
    if len(keys) != 1:
        return None
    key, enum = list(keys)[0]
    out = {True: set(), False: set()}
    for bb, states in res.exits.items():
        for d, ret in states:
            if ret is None:
                return None
            out[bool(ret)] |= set(dt.possible(d, key, enum))
    if out[True] & out[False]:
        return None
    return out


def fn_variant_classes(body):
    """for `fn f(&self) -> bool | Option<_>` over an enum: {return class ('true','false','Some','None'): variants}.
    None if the function does not branch on exactly one enum scrutinee."""
    from .flow import typestate
    dt = DiscrTracker(body)
    keys = set()

    def cls_of(it):
        if isinstance(it, Stmt) and it.place.local == 0 and it.place.is_local:
            rv = it.rv
            if rv.kind == "use" and rv.ops[0].kind == "const" and rv.ops[0].scalar in (0, 1):
                return "true" if rv.ops[0].scalar else "false"
            if rv.kind == "agg" and rv.j.get("variant") in ("Some", "None"):
                return rv.j["variant"]
            return "?"
        return None

    def step(it, s):
        d, ret = s
        c = cls_of(it)
        if c is not None:
            return (d, c)
        return None

    def edge(term, tgt, label, s):
        d, ret = s
        r = dt.edge(term, tgt, label, d)
        if r is False:
            return []
        inf = dt.info(term)
        if inf:
            keys.add((inf[0], inf[1]))
        return [(r, ret)]
    res = typestate(body, [(frozenset(), None)], step, edge)
    if len(keys) != 1:
        return None
    key, enum = list(keys)[0]
    out = {}
    for bb, states in res.exits.items():
        for d, ret in states:
            if ret is None or ret == "?":
                return None
            out.setdefault(ret, set()).update(dt.possible(d, key, enum))
    return out
