"""Fact extraction from /repo's *current working tree* with caching keyed by content hash."""
import fcntl
import glob
import hashlib
import os
import shutil
import subprocess
import sys
import time

VERIF = os.path.dirname(os.path.dirname(os.path.dirname(os.path.abspath(__file__))))
DRIVER_DIR = os.path.join(VERIF, "engine", "driver")
DRIVER_BIN = os.path.join(DRIVER_DIR, "target", "release", "utp-facts")
CACHE = os.environ.get("UTPSA_CACHE", os.path.join(VERIF, ".cache"))


class BuildFailed(Exception):
    pass


def _sha_tree(repo):
    h = hashlib.sha256()
    files = []
    for root, dirs, fs in os.walk(os.path.join(repo, "src")):
        dirs.sort()
        for f in sorted(fs):
            files.append(os.path.join(root, f))
    for f in ("Cargo.toml", "Cargo.lock", "build.rs"):
        p = os.path.join(repo, f)
        if os.path.exists(p):
            files.append(p)
    for p in files:
        h.update(os.path.relpath(p, repo).encode())
        h.update(b"\0")
        with open(p, "rb") as fh:
            h.update(fh.read())
        h.update(b"\0")
    return h


def ensure_driver():
    src = os.path.join(DRIVER_DIR, "src", "main.rs")
    if os.path.exists(DRIVER_BIN) and os.path.getmtime(DRIVER_BIN) >= os.path.getmtime(src):
        return
    env = dict(os.environ)
    env["CARGO_NET_OFFLINE"] = "true"
    r = subprocess.run(["cargo", "build", "--release", "--offline"], cwd=DRIVER_DIR, env=env, stdout=subprocess.PIPE, stderr=subprocess.STDOUT, text=True)
    if r.returncode != 0 or not os.path.exists(DRIVER_BIN):
        sys.stderr.write(r.stdout)
        raise BuildFailed("driver build failed")


def _sysroot():
    return subprocess.run(["rustc", "+nightly", "--print", "sysroot"], stdout=subprocess.PIPE, text=True, check=True).stdout.strip()


def facts_path(repo="/repo", features="", verbose=False):
    """returns (path_to_facts_json, sha, was_cached, seconds)"""
    t0 = time.time()
    os.makedirs(CACHE, exist_ok=True)
    fname = features.replace(",", "+") or "default"
    is_repo = os.path.abspath(repo) == "/repo"
    slot = os.environ.get("UTPSA_TARGET_SLOT")
    if is_repo:
        tkey = "repo"
    elif slot:
        tkey = "slot" + slot
    else:
        tkey = hashlib.sha256(os.path.abspath(repo).encode()).hexdigest()[:8]
    facts_dir = os.path.join(CACHE, "facts" if is_repo else "facts-scratch")
    os.makedirs(facts_dir, exist_ok=True)
    lock_path = os.path.join(CACHE, "extract-%s-%s.lock" % (tkey, fname))
    with open(lock_path, "w") as lock:
        fcntl.flock(lock, fcntl.LOCK_EX)
        ensure_driver()
        h = _sha_tree(repo)
        with open(DRIVER_BIN, "rb") as fh:
            h.update(hashlib.sha256(fh.read()).digest())
        h.update(features.encode())
        h.update(os.path.abspath(repo).encode())
        sha = h.hexdigest()[:20]
        out = os.path.join(facts_dir, "%s-%s.json" % (fname, sha))
        if os.path.exists(out) and os.path.getsize(out) > 1000:
            return out, sha, True, time.time() - t0
        # keep the cache small: drop older fact files of this configuration
        if is_repo:
            old = sorted(glob.glob(os.path.join(facts_dir, "%s-*.json" % fname)), key=os.path.getmtime)
            for p in old[:-3]:
                try:
                    os.unlink(p)
                except OSError:
                    pass
        else:
            # scratch copies are analysed by concurrent processes: never delete a fresh file of another worker
            for p in glob.glob(os.path.join(facts_dir, "*.json")):
                try:
                    if time.time() - os.path.getmtime(p) > 1800:
                        os.unlink(p)
                except OSError:
                    pass
        target = os.path.join(CACHE, "target-%s-%s" % (tkey, fname))
        if not os.path.isdir(target):
            # warm start: registry dependencies' metadata is identical whatever the member's path
            warm = os.path.join(CACHE, "target-repo-%s" % fname)
            if tkey != "repo" and os.path.isdir(warm):
                shutil.copytree(warm, target, symlinks=True)
            else:
                os.makedirs(target, exist_ok=True)
        # cargo's freshness cache would skip the wrapper: force the member to be rebuilt
        for p in glob.glob(os.path.join(target, "debug", ".fingerprint", "librqbit-utp-*")):
            shutil.rmtree(p, ignore_errors=True)
        env = dict(os.environ)
        sysroot = _sysroot()
        env["LD_LIBRARY_PATH"] = os.path.join(sysroot, "lib") + (":" + env["LD_LIBRARY_PATH"] if env.get("LD_LIBRARY_PATH") else "")
        env["RUSTFLAGS"] = "-Zmir-opt-level=0 -Awarnings"
        env["RUSTC_WORKSPACE_WRAPPER"] = DRIVER_BIN
        env["CARGO_TARGET_DIR"] = target
        env["CARGO_NET_OFFLINE"] = "true"
        env["UTPSA_OUT"] = out
        env.pop("RUSTC_WRAPPER", None)
        cmd = ["cargo", "+nightly", "check", "--offline", "--lib", "--quiet"]
        if features:
            cmd += ["--features", features]
        r = subprocess.run(cmd, cwd=repo, env=env, stdout=subprocess.PIPE, stderr=subprocess.STDOUT, text=True)
        if r.returncode != 0:
            tail = "\n".join(r.stdout.strip().split("\n")[-40:])
            raise BuildFailed("cargo check failed for features=%r:\n%s" % (features, tail))
        if not os.path.exists(out):
            raise BuildFailed("driver produced no fact file (wrapper skipped?) for features=%r\n%s" % (features, r.stdout[-2000:]))
        return out, sha, False, time.time() - t0
