"""Lock-order analysis (an E3 instance): which lock may be acquired while which other lock is held.

Locks are identified by the field that stores them (UserTx.locked, UserTx.producer, ...): field-sensitive,
object-insensitive, which is exact for this crate (one UserTx / UserRxShared per connection).  Guard live range: from the
lock()/read()/write() call to the Drop of the local that holds the guard (moves of the guard are followed) or an explicit
mem::drop.  Calls made while a lock is held contribute the callee's (transitive) acquisitions, including closures passed in."""
from .facts import Stmt, Term
from .prov import trace
from .flow import typestate

LOCK_FNS = ("parking_lot::lock_api::Mutex::lock", "parking_lot::lock_api::RwLock::read", "parking_lot::lock_api::RwLock::write",
            "std::sync::Mutex::lock", "std::sync::RwLock::read", "std::sync::RwLock::write")


def lock_call(body, it):
    if isinstance(it, Term) and it.kind == "call" and (it.resolved in LOCK_FNS or it.callee in LOCK_FNS) and it.args:
        f = trace(body, it.args[0]).last_field
        if f:
            return f, it.resolved.split("::")[-1]
    return None


class LockGraph:
    def __init__(self, facts):
        self.facts = facts
        self.acq_memo = {}
        self.edges = {}  # (held, acquired) -> (body name, where)
        self.nlock_sites = 0

    def acquires(self, fname, stack=()):
        """lock fields a function may acquire (transitively)"""
        if fname in self.acq_memo:
            return self.acq_memo[fname]
        if fname in stack:
            return set()
        b = self.facts.body(fname)
        out = set()
        if b is not None:
            for it in b.items():
                lc = lock_call(b, it)
                if lc:
                    out.add(lc[0])
                elif isinstance(it, Term) and it.kind == "call" and it.j.get("res_local") and it.resolved != fname:
                    out |= self.acquires(it.resolved, stack + (fname,))
                elif isinstance(it, Stmt) and it.rv.kind == "agg" and it.rv.j.get("ak") in ("closure", "coroutine"):
                    out |= self.acquires(it.rv.j["closure"], stack + (fname,))
        self.acq_memo[fname] = out
        return out

    def analyse(self, b):
        g = self

        def step(it, s):
            held = set(s)
            ch = False
            lc = lock_call(b, it)
            if lc:
                g.nlock_sites += 1
                for (f, holder) in held:
                    g.edges.setdefault((f, lc[0]), (b.name, it.where()))
                if it.dest is not None and it.dest.is_local:
                    held.add((lc[0], it.dest.local))
                    ch = True
            elif isinstance(it, Stmt) and it.rv.kind == "use" and it.rv.ops[0].kind == "move" and it.rv.ops[0].place is not None and it.rv.ops[0].place.is_local and it.place.is_local:
                src = it.rv.ops[0].place.local
                for (f, holder) in list(held):
                    if holder == src:
                        held.discard((f, holder))
                        held.add((f, it.place.local))
                        ch = True
            elif isinstance(it, Term) and it.kind == "drop" and it.place is not None and it.place.is_local:
                for (f, holder) in list(held):
                    if holder == it.place.local:
                        held.discard((f, holder))
                        ch = True
            elif isinstance(it, Term) and it.kind == "call":
                if (it.resolved or "") in ("std::mem::drop", "core::mem::drop") and it.args and it.args[0].place is not None and it.args[0].place.is_local:
                    for (f, holder) in list(held):
                        if holder == it.args[0].place.local:
                            held.discard((f, holder))
                            ch = True
                elif held and it.j.get("res_local"):
                    acq = set(g.acquires(it.resolved))
                    for a in it.args:
                        t = trace(b, a)
                        if t.kind == "rv" and t.root[1].rv.kind == "agg" and t.root[1].rv.j.get("ak") == "closure":
                            acq |= g.acquires(t.root[1].rv.j["closure"])
                    for (f, holder) in held:
                        for a in acq:
                            g.edges.setdefault((f, a), (b.name, it.where() + " via " + it.resolved.split("::")[-1]))
            return frozenset(held) if ch else None
        typestate(b, [frozenset()], step)

    def cycles(self):
        adj = {}
        for (a, c) in self.edges:
            adj.setdefault(a, set()).add(c)
        out = []
        for (a, c) in self.edges:
            if a == c:
                out.append([a, a])
        # DFS for longer cycles
        def dfs(start, node, path, seen):
            for n in adj.get(node, ()):
                if n == start and len(path) > 1:
                    out.append(path + [start])
                elif n not in seen and n != start:
                    dfs(start, n, path + [n], seen | {n})
        for s in sorted(adj):
            dfs(s, s, [s], {s})
        # dedupe rotations
        uniq = {}
        for cyc in out:
            key = tuple(sorted(set(cyc)))
            uniq.setdefault(key, cyc)
        return list(uniq.values())
