"""E3 instances for wake-up discipline.

check_wake: "event => Option::take on the waker field, and Waker::wake on its Some branch, before the
selected exits".  State = (owed, w, zbits, exitcls), w in none/taken/some/woken/nobody.
check_registered: "no Poll::Pending exit without a registered waker".
"""
from .facts import Stmt, Term, Place
from .prov import trace
from .flow import typestate, switch_cond, enum_variant_values, classify
from .events import call_matches, call_on_field, written_field
from .preds import ZeroTracker


def variant_of_edge(body, term, label):
    """for a switch on a discriminant: (cond, variant name taken on this edge or None)"""
    if term.kind != "switch" or label is None:
        return None, None
    c, neg = switch_cond(body, term)
    if c.kind != "discr":
        return None, None
    vals = enum_variant_values(body.facts, c.enum)
    if vals is None:
        return c, None
    if label[0] == "val":
        return c, vals.get(label[1])
    rest = [n for v, n in vals.items() if v not in label[1]]
    if len(rest) == 1:
        return c, rest[0]
    return c, None


def ret_class_of(body, it):
    """classification if `it` assigns the return place, else None"""
    if isinstance(it, Stmt) and it.place.local == 0 and it.place.is_local:
        rv = it.rv
        if rv.kind == "use":
            return classify(body, rv.ops[0])
        if rv.kind == "agg" and rv.j["ak"] == "adt":
            name = rv.j["variant"] if rv.j.get("is_enum") else rv.j["adt"].split("::")[-1]
            if rv.ops and rv.j.get("is_enum"):
                return "%s(%s)" % (name, ",".join(classify(body, o) for o in rv.ops))
            return name
        return "?"
    if isinstance(it, Term) and it.kind == "call" and it.dest is not None and it.dest.local == 0 and it.dest.is_local:
        if it.callee == "std::ops::FromResidual::from_residual":
            return "Residual"
        return "call"
    return None


def is_take_on(body, it, field):
    return isinstance(it, Term) and call_on_field(body, it, ("Option::take",), field)


def is_wake_of(body, it, field):
    """Waker::wake(x) / wake_by_ref(x) where x comes from Option::take on `field` or from `field` itself"""
    if not (isinstance(it, Term) and call_matches(it, ("Waker::wake", "Waker::wake_by_ref"))):
        return False
    t = trace(body, it.args[0])
    if t.kind == "call" and call_on_field(body, t.root[1], ("Option::take",), field):
        return True
    if t.has_field(field):
        return True
    return False


class WakeSummaries:
    def __init__(self, facts):
        self.facts = facts
        self.memo = {}

    def may_take(self, fname, field, depth=2):
        """cheap prefilter: does the function (or a local callee, to `depth`) call Option::take on the field?"""
        key = ("may", fname, field, depth)
        if key in self.memo:
            return self.memo[key]
        self.memo[key] = False
        body = self.facts.body(fname)
        r = False
        if body is not None:
            for t in body.calls():
                if is_take_on(body, t, field):
                    r = True
                    break
            if not r and depth > 0:
                for t in body.calls():
                    if t.j.get("res_local") and t.resolved != fname and self.may_take(t.resolved, field, depth - 1):
                        r = True
                        break
        self.memo[key] = r
        return r

    def always_wakes(self, fname, field):
        key = (fname, field)
        if key in self.memo:
            return self.memo[key]
        self.memo[key] = False  # recursion guard
        if not self.may_take(fname, field):
            return False
        body = self.facts.body(fname)
        if body is None:
            return False
        res, _ = _run(body, field, lambda b, it: False, None, True, self)
        ok = True
        n = 0
        for bb, states in res.exits.items():
            for (owed, w, z, cls) in states:
                n += 1
                if owed and w not in ("woken", "nobody"):
                    ok = False
        self.memo[key] = ok and n > 0
        return self.memo[key]


def _reaches(body, a, b):
    if a.bb == b.bb and b.idx > a.idx:
        return True
    return any(b.bb in body.reachable(n) for n in body.succ(a.bb))


def STALE_OK(body, it, field):
    """is a state change that FOLLOWS the take of `field`'s waker still safe?  Yes when it happens under the very lock guard through which the
    waker was taken (the waiter checks and registers under that lock, so it cannot run in between): either the change is a plain store through
    a guard of the same structure, or every take that reaches it went through a guard that is still alive (not dropped) at the change."""
    if isinstance(it, Stmt) and it.place.proj:
        from .prov import place_fields
        f, _, _ = place_fields(body, it.place)
        owner = field.rsplit(".", 1)[0]
        if f and f[-1].rsplit(".", 1)[0] == owner:
            return True
    takes = [t for t in body.calls() if is_take_on(body, t, field) and _reaches(body, t, it)]
    if not takes:
        return False
    for tk in takes:
        src = trace(body, tk.args[0])
        g = None
        for st in src.steps:  # the provenance walk looks through lock()/write(): the guard is the destination of that step
            if isinstance(st, Term) and st.kind == "call" and st.dest is not None and st.dest.is_local and "Guard" in (body.local_ty(st.dest.local) or ""):
                g = st.dest.local
        if g is None:
            return False
        for blk in body.blocks:
            d = blk.term
            if not blk.cleanup and d.kind == "drop" and d.j.get("pl", {}).get("l") == g and _reaches(body, tk, d) and _reaches(body, d, it):
                return False
    return True


def _run(body, field, event, edge_event, init_owed, summaries):
    zt = ZeroTracker(body)
    nev = [0]

    def step(it, s):
        owed, w, z, cls = s
        changed = False
        c = ret_class_of(body, it)
        if c is not None and c != cls:
            cls = c
            changed = True
        nz = zt.step(it, z)
        if nz is not None:
            z = nz
            changed = True
        if event(body, it):
            nev[0] += 1
            owed = True
            if w in ("woken", "nobody"):
                w = "none"
            elif w in ("taken", "some"):
                # the slot was emptied BEFORE the state change: a waiter that checks the old state in between re-registers into the
                # emptied slot and the wake below goes to the old waker only (lost wake-up) - unless both happen under the waiter's lock
                w = "stale" if not STALE_OK(body, it, field) else w
            changed = True
        if is_take_on(body, it, field):
            w = "taken"
            changed = True
        elif is_wake_of(body, it, field):
            if w != "stale":
                w = "woken"
                changed = True
        elif isinstance(it, Term) and it.kind == "call" and it.j.get("res_local") and summaries is not None:
            callee = it.resolved
            if callee != body.name and summaries.always_wakes(callee, field):
                w = "woken"
                changed = True
        return (owed, w, z, cls) if changed else None

    def edge(term, tgt, label, s):
        owed, w, z, cls = s
        r = zt.edge(term, tgt, label, z)
        if r is False:
            return []
        z = r
        if term.kind == "switch":
            c, var = variant_of_edge(body, term, label)
            if c is not None and var is not None:
                t = c.trace
                if t.kind == "call" and not t.fields and call_on_field(body, t.root[1], ("Option::take",), field) and w != "stale":
                    if var == "None":
                        w = "nobody"
                    elif var == "Some":
                        w = "some"
            if edge_event is not None and edge_event(body, term, tgt, label):
                nev[0] += 1
                owed = True
                if w in ("woken", "nobody"):
                    w = "none"
                elif w in ("taken", "some"):
                    w = "stale"
        return [(owed, w, z, cls)]

    init = [(bool(init_owed), "none", frozenset(), None)]
    res = typestate(body, init, step, edge)
    return res, nev[0]


def check_wake(R, body, instance, field, event=None, edge_event=None, init_owed=False, exit_filter=None, summaries=None, what="event"):
    """returns number of events seen.  exit_filter(cls) -> True for the exits that are checked."""
    ev = event or (lambda b, it: False)
    res, nev = _run(body, field, ev, edge_event, init_owed, summaries)
    if nev == 0 and not init_owed:
        return 0
    bad = {}
    nexits = 0
    for bb, states in res.exits.items():
        for s in states:
            owed, w, z, cls = s
            if exit_filter is not None and not exit_filter(cls):
                continue
            nexits += 1
            if owed and w not in ("woken", "nobody"):
                bad.setdefault((cls, w), (bb, s))
    if not bad:
        R.ok(instance, body.name, "%s => take+wake(%s) on all %d checked exit states" % (what, field, nexits))
    for (cls, w), (bb, s) in sorted(bad.items(), key=str):
        why = {"none": "no-wake", "taken": "taken-not-woken", "some": "some-branch-without-wake", "stale": "waker-taken-before-the-change"}[w]
        R.fail([body.name, what, "%s(%s)" % (why, field), "exit=%s" % cls],
               "%s: after %s an exit (%s) is reachable without waking %s (%s) - the counterpart task may sleep forever" % (body.name, what, cls, field, why),
               where=body.where(), witness=res.witness_lines(bb, s), instance=instance)
    return max(nev, 1)


def check_registered(R, body, instance, own_fields, extra_ok=None):
    """every exit whose value is Poll::Pending must be preceded on all paths by
    update_optional_waker(<own field>, cx) or cx.waker().wake_by_ref().
    extra_ok(body, it) -> True for additional registering items."""
    zt = ZeroTracker(body)

    def registers(it):
        if not isinstance(it, Term) or it.kind != "call":
            return False
        if call_matches(it, ("utils::update_optional_waker",)):
            t = trace(body, it.args[0])
            return t.last_field in own_fields
        if call_matches(it, ("Waker::wake_by_ref",)):
            t = trace(body, it.args[0])
            return t.kind == "call" and call_matches(t.root[1], ("Context::waker",))
        if extra_ok is not None and extra_ok(body, it):
            return True
        return False

    def step(it, s):
        reg, z, cls = s
        changed = False
        c = ret_class_of(body, it)
        if c is not None and c != cls:
            cls = c
            changed = True
        nz = zt.step(it, z)
        if nz is not None:
            z = nz
            changed = True
        if registers(it) and not reg:
            reg = True
            changed = True
        return (reg, z, cls) if changed else None

    def edge(term, tgt, label, s):
        reg, z, cls = s
        r = zt.edge(term, tgt, label, z)
        if r is False:
            return []
        return [(reg, r, cls)]

    res = typestate(body, [(False, frozenset(), None)], step, edge)
    n = 0
    bad = None
    for bb, states in res.exits.items():
        for s in states:
            reg, z, cls = s
            if cls == "Pending":
                n += 1
                if not reg and bad is None:
                    bad = (bb, s)
    if bad is None:
        R.ok(instance, body.name, "all %d Pending exit states have a registered waker" % n)
    else:
        bb, s = bad
        R.fail([body.name, "Pending-without-registered-waker", "fields=" + ",".join(sorted(own_fields))],
               "%s: a Poll::Pending exit is reachable on a path that neither registers %s nor self-wakes - the task is never polled again" % (body.name, "/".join(sorted(own_fields))),
               where=body.where(), witness=res.witness_lines(bb, s), instance=instance)
    return n
