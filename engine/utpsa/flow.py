"""E2 (guard dominance / must-pass-through) and E3 (typestate over the powerset of automaton states).

No path enumeration anywhere: E2 is reachability after edge/block removal, E3 is a worklist
dataflow over (block, state) pairs with a parent map for one witness path.
"""
from collections import deque
from .facts import Stmt, Term, Operand, Place
from .prov import trace, short_callee


# ---------------------------------------------------------------------------------- E3
class TSResult:
    def __init__(self, body):
        self.body = body
        self.exits = {}  # (bb) -> set(states) at Return terminators
        self.parent = {}  # (bb, state_at_entry) -> (pred_bb, pred_state_at_entry) | None
        self.at_exit_entry = {}  # (ret_bb, final_state) -> (bb, entry_state)
        self.seen_points = {}  # point -> set(states before item)  (only if record=True)

    def all_exit_states(self):
        out = set()
        for s in self.exits.values():
            out |= s
        return out

    def witness(self, ret_bb, final_state):
        """block sequence (with entry states) leading to ret_bb with final_state"""
        key = self.at_exit_entry.get((ret_bb, final_state))
        path = []
        while key is not None:
            path.append(key)
            key = self.parent.get(key)
        path.reverse()
        return path

    def witness_lines(self, ret_bb, final_state, maxn=14):
        body = self.body
        out = []
        last = None
        prev_state = None
        for bb, st in self.witness(ret_bb, final_state):
            t = body.blocks[bb].term
            items = list(body.blocks[bb].items())
            it = items[0]
            if it.is_tracing:
                continue
            w = it.where()
            if w != last or st != prev_state:
                out.append("bb%d %s  state=%s  | %s" % (bb, w, fmt_state(st), body.src_line(it.loc)[:90]))
                last = w
                prev_state = st
        if len(out) > maxn:
            out = out[: maxn // 2] + ["..."] + out[-maxn // 2:]
        return out


def fmt_state(s):
    if isinstance(s, tuple):
        return "(" + ",".join(fmt_state(x) for x in s) + ")"
    if isinstance(s, frozenset):
        return "{" + ",".join(sorted(fmt_state(x) for x in s)) + "}"
    return str(s)


def typestate(body, init, step, edge=None, cut_edges=(), on_cut=None, record=False, start_bb=0, stop_blocks=()):
    """Forward dataflow over the powerset lattice of states.

    init: iterable of states at function entry.
    step(item, state) -> None (unchanged) | state | list of states.
    edge(term, target, label, state) -> None (unchanged) | iterable of states ([] prunes the edge).
    cut_edges: {(src,tgt)} edges at which the state is passed to on_cut(state, src, tgt) which
               returns the states to continue with (used for per-iteration balancing at back edges).
    """
    res = TSResult(body)
    work = deque()
    seen = set()
    # A body into which a new helper was expanded (engine/utpsa/inline.py) contains joins that the source never had: the helper's
    # `return Err(..)` and `Ok(..)` meet before the caller's `?` looks at the result.  In such bodies every user state is paired with what is
    # known about the variant held by Result / Option / ControlFlow locals, and switch edges that contradict it are pruned, so that the walk
    # follows the same paths as in the un-extracted code.  Bodies of the reviewed tree are walked exactly as before.
    vt = _VariantFacts(body) if _has_splice(body) else None
    for s in init:
        key = (start_bb, (s, frozenset()) if vt else s)
        seen.add(key)
        res.parent[key] = None
        work.append(key)
    stop_blocks = set(stop_blocks)
    while work:
        key = work.popleft()
        bb, s0 = key
        blk = body.blocks[bb]
        states = {s0}
        for it in blk.items():
            if record:
                res.seen_points.setdefault(it.point, set()).update({x[0] for x in states} if vt else states)
            nxt = set()
            for s in states:
                us, fx = (s if vt else (s, None))
                r = step(it, us)
                if vt:
                    fx = vt.step(it, fx)
                if r is None:
                    nxt.add((us, fx) if vt else us)
                elif isinstance(r, list):
                    nxt.update(((x, fx) if vt else x) for x in r)
                else:
                    nxt.add((r, fx) if vt else r)
            states = nxt
            if not states:
                break
        if not states:
            continue
        t = blk.term
        if t.kind == "return" or bb in stop_blocks:
            res.exits.setdefault(bb, set()).update({x[0] for x in states} if vt else states)
            for s in states:
                res.at_exit_entry.setdefault((bb, s[0] if vt else s), key)
            continue
        for tgt, label in body.edges(bb):
            if body.blocks[tgt].cleanup:
                continue
            for s in states:
                us, fx = (s if vt else (s, None))
                if vt and not vt.feasible(t, label, fx):
                    continue
                outs = None
                if edge is not None:
                    outs = edge(t, tgt, label, us)
                if outs is None:
                    outs = [us]
                for s2 in outs:
                    if (bb, tgt) in cut_edges and on_cut is not None:
                        conts = on_cut(s2, bb, tgt)
                    else:
                        conts = [s2]
                    for s3 in conts:
                        k2 = (tgt, (s3, fx) if vt else s3)
                        if k2 not in seen:
                            seen.add(k2)
                            res.parent[k2] = key
                            work.append(k2)
    return res


def _has_splice(body):
    c = getattr(body, "_has_splice", None)
    if c is None:
        c = any(getattr(st, "j", {}).get("inl") for blk in body.blocks if not blk.cleanup for st in blk.stmts)
        try:
            body._has_splice = c
        except AttributeError:
            pass
    return c


class _VariantFacts:
    """which variant a Result / Option / ControlFlow local holds, learned from aggregates, moves, `?` (Try::branch / from_residual)"""
    DISCR = {"Ok": 0, "Err": 1, "None": 0, "Some": 1, "Continue": 0, "Break": 1}

    def __init__(self, body):
        self.body = body

    def step(self, it, fx):
        d = dict(fx)
        if isinstance(it, Stmt):
            pl = it.place
            if pl is None or pl.proj:
                return fx
            l = pl.local
            rv = it.rv
            new = None
            if rv.kind == "agg" and rv.j.get("ak") == "adt" and rv.j.get("variant") in self.DISCR and rv.j.get("adt", "").split("::")[-1] in ("Result", "Option", "ControlFlow"):
                new = rv.j["variant"]
            elif rv.kind == "use" and rv.ops and rv.ops[0].place is not None and rv.ops[0].place.is_local:
                new = d.get(rv.ops[0].place.local)
            elif rv.kind == "discr" and rv.place is not None and rv.place.is_local and d.get(rv.place.local) in self.DISCR:
                new = "=%d" % self.DISCR[d[rv.place.local]]
            if new is None:
                if l in d:
                    del d[l]
                else:
                    return fx
            else:
                d[l] = new
            return frozenset(d.items())
        if isinstance(it, Term) and it.kind == "call" and it.dest is not None and it.dest.is_local:
            l = it.dest.local
            r = it.resolved or it.callee or ""
            new = None
            if r.endswith(("Try>::branch", "Try::branch")) and it.args and it.args[0].place is not None and it.args[0].place.is_local:
                v = d.get(it.args[0].place.local)
                new = {"Ok": "Continue", "Some": "Continue", "Err": "Break", "None": "Break"}.get(v)
            elif "FromResidual" in r and r.endswith("from_residual"):
                ty = self.body.local_ty(l) or ""
                new = "Err" if "Result" in ty.split("<")[0] else ("None" if "Option" in ty.split("<")[0] else None)
            if new is None:
                if l in d:
                    del d[l]
                else:
                    return fx
            else:
                d[l] = new
            return frozenset(d.items())
        return fx

    def feasible(self, term, label, fx):
        if term.kind != "switch" or not fx:
            return True
        op = Operand(term.j["op"]) if "op" in term.j else None
        if op is None or op.place is None or not op.place.is_local:
            return True
        v = dict(fx).get(op.place.local)
        if not (isinstance(v, str) and v.startswith("=")):
            return True
        val = int(v[1:])
        if label is None:
            return True
        if label[0] == "val":
            return label[1] == val
        return val not in label[1]


# ---------------------------------------------------------------------------------- conditions
class Cond:
    """description of the value a SwitchInt branches on"""

    def __init__(self, kind, **kw):
        self.kind = kind
        self.__dict__.update(kw)

    def __repr__(self):
        d = {k: v for k, v in self.__dict__.items() if k != "kind"}
        return "Cond(%s %s)" % (self.kind, d)


def switch_cond(body, term):
    """Describe what a switch tests: returns (Cond, negated: bool).
    kinds: 'discr' (place trace, enum), 'call' (call term), 'field' (trace), 'bin' (stmt), 'const', 'other'."""
    assert term.kind == "switch"
    neg = False
    op = term.op
    for _ in range(8):
        if op.kind == "const":
            return Cond("const", value=op.scalar), neg
        t = trace(body, op, through_casts=False)
        if t.fields and t.kind in ("param", "upvar", "call", "multi", "undef"):
            return Cond("field", trace=t), neg
        if t.kind == "rv":
            st = t.root[1]
            rv = st.rv
            if rv.kind == "discr":
                return Cond("discr", place=rv.place, trace=trace(body, rv.place), enum=rv.j["enum"], stmt=st), neg
            if rv.kind == "un" and rv.op == "Not":
                neg = not neg
                op = rv.ops[0]
                continue
            if rv.kind == "bin":
                return Cond("bin", op=rv.op, a=rv.ops[0], b=rv.ops[1], stmt=st), neg
            return Cond("rv", stmt=st), neg
        if t.kind == "call":
            c = t.root[1]
            if c.callee == "std::ops::Not::not":
                neg = not neg
                op = c.args[0]
                continue
            return Cond("call", call=c), neg
        if t.kind in ("param", "upvar"):
            return Cond("var", trace=t), neg
        if t.kind == "multi":
            return Cond("multi", trace=t), neg
        return Cond("other", trace=t), neg
    return Cond("other", trace=None), neg


def bool_edges(body, bb):
    """for a switch on a bool-like operand: (false_target, true_target) or None"""
    t = body.blocks[bb].term
    if t.kind != "switch":
        return None
    tg = t.j["targets"]
    if len(tg) == 1 and tg[0][0] == 0:
        return (tg[0][1], t.j["otherwise"])
    if len(tg) == 1 and tg[0][0] == 1:
        return (t.j["otherwise"], tg[0][1])
    if len(tg) == 2 and {tg[0][0], tg[1][0]} == {0, 1}:
        d = dict((v, b) for v, b in tg)
        return (d[0], d[1])
    return None


def enum_variant_values(facts, enum_path):
    """discriminant value -> variant name for a local enum; well-known std enums are built in"""
    std = {
        "std::option::Option": {0: "None", 1: "Some"},
        "std::result::Result": {0: "Ok", 1: "Err"},
        "std::task::Poll": {0: "Ready", 1: "Pending"},
        "std::ops::ControlFlow": {0: "Continue", 1: "Break"},
        "std::cmp::Ordering": {-1: "Less", 0: "Equal", 1: "Greater", 255: "Less"},
        "std::collections::hash_map::Entry": {0: "Occupied", 1: "Vacant"},
    }
    if enum_path in std:
        return std[enum_path]
    adt = facts.adts.get(enum_path)
    if adt and adt["kind"] == "enum":
        return {v["discr"]: v["name"] for v in adt["variants"]}
    return None


def switch_variant_edges(body, bb):
    """for a switch on a discriminant: {variant_name: target}, plus 'otherwise' -> (target, remaining names)"""
    t = body.blocks[bb].term
    if t.kind != "switch":
        return None
    c, neg = switch_cond(body, t)
    if c.kind != "discr":
        return None
    vals = enum_variant_values(body.facts, c.enum)
    if vals is None:
        return None
    out = {}
    used = set()
    for v, tgt in t.j["targets"]:
        name = vals.get(v)
        if name is None:
            continue
        out[name] = tgt
        used.add(name)
    rest = [n for n in vals.values() if n not in used]
    return {"cond": c, "edges": out, "otherwise": (t.j["otherwise"], rest)}


# ---------------------------------------------------------------------------------- E2
def must_pass_edges(body, site_bbs, edges, start=0):
    """True iff every path from start to every block in site_bbs traverses one of `edges` {(src,tgt)}.
    returns (ok, offending_site_bbs)"""
    reach = body.reachable(start, removed_edges=edges)
    bad = [b for b in site_bbs if b in reach]
    return (not bad), bad


def must_pass_blocks(body, site_bbs, blocks, start=0):
    """every path from start to each site passes through one of `blocks` (must-pass-through)"""
    reach = body.reachable(start, removed_blocks=blocks)
    bad = [b for b in site_bbs if b in reach and b not in blocks]
    return (not bad), bad


def shortest_path(body, start, goal_bbs, removed_edges=(), removed_blocks=()):
    removed_edges = set(removed_edges)
    removed_blocks = set(removed_blocks)
    goal = set(goal_bbs)
    prev = {start: None}
    dq = deque([start])
    while dq:
        b = dq.popleft()
        if b in goal:
            path = []
            while b is not None:
                path.append(b)
                b = prev[b]
            return list(reversed(path))
        for s in body.succ(b):
            if s in prev or (b, s) in removed_edges or s in removed_blocks:
                continue
            prev[s] = b
            dq.append(s)
    return None


def path_lines(body, path, maxn=12):
    out = []
    last = None
    for bb in path or []:
        for it in body.blocks[bb].items():
            if it.is_tracing:
                continue
            w = it.where()
            if w != last:
                out.append("bb%d %s | %s" % (bb, w, body.src_line(it.loc)[:90]))
                last = w
            break
    if len(out) > maxn:
        out = out[: maxn // 2] + ["..."] + out[-maxn // 2:]
    return out


# ---------------------------------------------------------------------------------- values / exits
def classify(body, x, depth=0):
    """Nested constructor shape of a value, e.g. 'Ready(Ok(?))', 'Pending', 'Err(Error::X)', 'const:1'."""
    if depth > 6:
        return "?"
    t = trace(body, x, through_casts=False)
    if t.fields:
        return "?"
    k = t.kind
    if k == "const":
        c = t.root[1]
        if c.scalar is not None:
            return "const:%s" % (c.scalar,)
        if c.const_item:
            return "item:%s" % c.const_item
        return "const"
    if k == "rv":
        st = t.root[1]
        rv = st.rv
        if rv.kind == "agg" and rv.j["ak"] == "adt":
            name = rv.j["variant"] if rv.j.get("is_enum") else rv.j["adt"].split("::")[-1]
            if rv.j.get("is_enum") and rv.j["adt"].split("::")[-1] not in ("Option", "Result", "Poll"):
                name = "%s::%s" % (rv.j["adt"].split("::")[-1], rv.j["variant"])
            if rv.ops and rv.j.get("is_enum"):
                return "%s(%s)" % (name, ",".join(classify(body, o, depth + 1) for o in rv.ops))
            return name
        if rv.kind == "agg" and rv.j["ak"] == "tuple":
            return "(%s)" % ",".join(classify(body, o, depth + 1) for o in rv.ops)
        return "?"
    if k == "call":
        c = t.root[1]
        if c.callee == "std::ops::FromResidual::from_residual":
            return "Residual"
        return "call:%s" % short_callee(c.resolved)
    if k == "multi":
        vals = set()
        for d in t.root[3]:
            if isinstance(d, Stmt):
                if d.rv.kind == "use":
                    vals.add(classify(body, d.rv.ops[0], depth + 1))
                elif d.rv.kind == "agg":
                    # re-run through a fake trace: classify the aggregate directly
                    rv = d.rv
                    if rv.j["ak"] == "adt":
                        name = rv.j["variant"] if rv.j.get("is_enum") else rv.j["adt"].split("::")[-1]
                        if rv.ops and rv.j.get("is_enum"):
                            vals.add("%s(%s)" % (name, ",".join(classify(body, o, depth + 1) for o in rv.ops)))
                        else:
                            vals.add(name)
                    else:
                        vals.add("?")
                else:
                    vals.add("?")
            else:
                vals.add("call:%s" % short_callee(d.resolved) if d.kind == "call" else "?")
        return "{" + "|".join(sorted(vals)) + "}"
    return "?"


def ret_assignments(body):
    """all items assigning _0 (whole), with the classification of the value"""
    out = []
    for it in body.items():
        if isinstance(it, Stmt) and it.place.local == 0 and it.place.is_local:
            rv = it.rv
            if rv.kind == "use":
                cls = classify(body, rv.ops[0])
            elif rv.kind == "agg" and rv.j["ak"] == "adt":
                name = rv.j["variant"] if rv.j.get("is_enum") else rv.j["adt"].split("::")[-1]
                if rv.ops and rv.j.get("is_enum"):
                    cls = "%s(%s)" % (name, ",".join(classify(body, o) for o in rv.ops))
                else:
                    cls = name
            else:
                cls = "?"
            out.append((it, cls))
        elif isinstance(it, Term) and it.kind == "call" and it.dest.local == 0 and it.dest.is_local:
            if it.callee == "std::ops::FromResidual::from_residual":
                out.append((it, "Residual"))
            else:
                out.append((it, "call:%s" % short_callee(it.resolved)))
    return out


# ---------------------------------------------------------------------------------- controlling conditions
def controlling_edges(body, bb, start=0):
    """switch edges every path from `start` to `bb` must traverse: list of (switch_term, target, label)"""
    dom = body.dominators()
    out = []
    for d in sorted(dom.get(bb, ())):
        t = body.blocks[d].term
        if t.kind != "switch" or d == bb:
            continue
        for tgt, label in body.edges(d):
            reach = body.reachable(start, removed_edges={(d, tgt)})
            if bb not in reach:
                # several labels may share a target; only report when this edge is the single way
                same = [l for tg, l in body.edges(d) if tg == tgt]
                if len(same) == 1:
                    out.append((t, tgt, label))
    return out


def describe_cond(body, term, label):
    """human/keyable description of a controlling edge: e.g. 'call:Segments::is_empty=true', 'field:ThisPoll.transport_pending=true',
    'discr:Option(call:our_fin_if_unacked)=None'"""
    c, neg = switch_cond(body, term)
    be = bool_edges(body, term.bb)

    def pol():
        if label[0] == "val":
            v = label[1] != 0
        else:
            v = 0 in label[1]
        return (not v) if neg else v

    if c.kind == "call":
        nm, v = short_callee(c.call.resolved), pol()
        # one spelling per predicate pair: x.is_some() == !x.is_none(), r.is_ok() == !r.is_err()
        for a_, b_ in (("Option::is_some", "Option::is_none"), ("Result::is_ok", "Result::is_err")):
            if nm == a_:
                nm, v = b_, not v
        return "call:%s=%s" % (nm, "true" if v else "false")
    if c.kind == "field":
        return "field:%s=%s" % (c.trace.last_field, "true" if pol() else "false")
    if c.kind == "discr":
        vals = enum_variant_values(body.facts, c.enum) or {}
        if label[0] == "val":
            var = vals.get(label[1], str(label[1]))
        else:
            rest = [n for v, n in vals.items() if v not in label[1]]
            var = "|".join(rest)
        return "discr:%s=%s" % (c.trace.describe(), var)
    if c.kind == "bin":
        ta = trace(body, c.a)
        tb = trace(body, c.b)
        return "bin:%s(%s,%s)=%s" % (c.op, ta.describe(), tb.describe(), "true" if pol() else "false")
    if c.kind in ("var", "multi"):
        return "var:%s=%s" % (c.trace.describe(), "true" if pol() else "false")
    return "other"


def ordering(c, truth):
    """normalise "the integer comparison `c` evaluates to `truth`" to (lo, hi, strict): lo < hi if strict else lo <= hi.
    Any way of writing the same test (operands swapped, negated operator, else-branch) gives the same triple."""
    if c.kind != "bin" or c.op not in ("Lt", "Le", "Gt", "Ge"):
        return None
    a, b = c.a, c.b
    lo, hi, strict = {"Lt": (a, b, True), "Le": (a, b, False), "Gt": (b, a, True), "Ge": (b, a, False)}[c.op]
    if truth:
        return lo, hi, strict
    return hi, lo, not strict
