"""Rule registry and the per-run recording object handed to every rule."""

RULES = []


class RuleAbort(Exception):
    pass


class RuleDef:
    def __init__(self, rid, props, engines, title, text, fn, tier="quick"):
        self.id = rid
        self.props = props
        self.engines = engines
        self.title = title
        self.text = text
        self.fn = fn
        self.tier = tier


def rule(rid, props, engines, title, text, tier="quick"):
    def deco(fn):
        RULES.append(RuleDef(rid, props, engines, title, text, fn, tier))
        return fn

    return deco


class Violation:
    def __init__(self, rule_id, key, msg, where=None, witness=None, details=None, kind="violation"):
        self.rule_id = rule_id
        self.key = key
        self.msg = msg
        self.where = where
        self.witness = witness or []
        self.details = details or {}
        self.kind = kind

    def to_json(self):
        return {
            "rule": self.rule_id,
            "key": self.key,
            "kind": self.kind,
            "message": self.msg,
            "where": self.where,
            "witness": self.witness,
            "details": self.details,
        }


class Run:
    """what a rule function receives"""

    def __init__(self, ruledef, facts, config):
        self.rule = ruledef
        self.facts = facts
        self.config = config
        self.obligations = []  # dicts: site, verdict, detail
        self.violations = []
        self.notes = []
        self.instances = set()  # distinct rule instances that matched >=1 site

    # ---- anchors (fail closed)
    def body(self, name):
        b = self.facts.body(name)
        if b is None:
            self.anchor_missing("fn " + name)
            raise RuleAbort()
        return b

    def opt_body(self, name):
        return self.facts.body(name)

    def anchor_missing(self, what):
        self.violations.append(
            Violation(self.rule.id, "%s|anchor-missing|%s" % (self.rule.id, what), "anchor not found: %s (renamed or removed?) - the rule cannot decide and fails closed" % what, kind="anchor-missing")
        )

    def require(self, cond, what):
        if not cond:
            self.anchor_missing(what)
            raise RuleAbort()

    # ---- recording
    def ok(self, instance, site, detail="", verdict="holds"):
        self.instances.add(instance)
        self.obligations.append({"rule": self.rule.id, "instance": instance, "site": site, "verdict": verdict, "detail": detail})

    def fail(self, key_parts, msg, where=None, witness=None, instance=None, site=None, **details):
        key = "|".join([self.rule.id] + [str(k) for k in key_parts])
        if instance:
            self.instances.add(instance)
        self.obligations.append({"rule": self.rule.id, "instance": instance or key_parts[0], "site": site or where or "", "verdict": "VIOLATED", "detail": msg})
        self.violations.append(Violation(self.rule.id, key, msg, where, witness, details))

    def floor(self, what, count, expected):
        """anti-vacuity: the rule must have matched at least the number of sites counted by hand"""
        if count < expected:
            self.violations.append(
                Violation(
                    self.rule.id,
                    "%s|floor|%s" % (self.rule.id, what),
                    "rule matched %d site(s) for %s, fewer than the %d confirmed by hand on the pinned tree - anchors drifted, failing closed" % (count, what, expected),
                    kind="floor",
                )
            )
            return False
        return True

    def note(self, s):
        self.notes.append(s)
