"""Inlining of *new* private helper functions into their callers, on the fact base, before any rule runs.

Why: every rule is anchored in functions that exist on the reviewed tree (engine/pinned_fns.json, regenerated with
bin/gen-pinned).  `extract method` moves a block of an anchored function into a fresh private fn; the behaviour is the same but
an intraprocedural rule would see the site in a function it does not know, without the guards that surround the call.  A
function whose name is not in the pinned list is therefore analysed the way the compiler's inliner would present it: its MIR is
spliced into each call site (parameters become locals assigned from the arguments, `return` becomes an assignment to the call's
destination and a jump to the call's successor), up to MAX_ROUNDS levels, and the stand-alone body of a non-public helper is
dropped once every call of it has been expanded.  The same treatment means a defect hidden in a new helper is analysed in the
context of its caller.

Not inlined (left as ordinary bodies): public fns, trait methods, async fns (their body is a coroutine), closures, recursive
fns, fns that are referenced other than by a direct call (fn pointers).
"""
import copy
import json
import os

MAX_ROUNDS = 3
MAX_BLOCKS = 400
PINNED = os.path.join(os.path.dirname(os.path.dirname(os.path.abspath(__file__))), "pinned_fns.json")


def load_pinned(config="default"):
    """{function name: signature} of the reviewed tree for one feature configuration"""
    try:
        with open(PINNED) as f:
            return json.load(f)["configs"][config]
    except (OSError, ValueError, KeyError):
        return None


def signature(jb):
    """what must coincide for a function to be considered `the same function under a new name`"""
    n = jb["arg_count"]
    return [jb.get("kind"), jb.get("self_adt"), jb.get("trait"), [l["ty"] for l in jb["locals"][1:1 + n]], jb["locals"][0]["ty"]]


def _module(name):
    return name.rsplit("::", 1)[0]


def _rename_everywhere(j, old, new):
    bodies = j["bodies"]
    ren = {}
    for n in list(bodies):
        if n == old or n.startswith(old + "::{"):
            ren[n] = new + n[len(old):]
    for a, b in ren.items():
        bodies[b] = bodies.pop(a)
        bodies[b]["renamed_from"] = a

    def fix(x):
        if isinstance(x, dict):
            for k, v in list(x.items()):
                if isinstance(v, str) and k in ("fn", "res", "closure", "parent") and v in ren:
                    x[k] = ren[v]
                elif isinstance(v, str) and k == "fna" and v == old:
                    x[k] = new
                else:
                    fix(v)
        elif isinstance(x, list):
            for v in x:
                fix(v)
    for jb in bodies.values():
        if jb.get("parent") in ren:
            jb["parent"] = ren[jb["parent"]]
        fix(jb["blocks"])
    if isinstance(j.get("fns"), dict) and old in j["fns"]:
        j["fns"][new] = j["fns"].pop(old)
    for im in j.get("impls", []):
        if old in im.get("items", []):
            im["items"] = [new if i == old else i for i in im["items"]]


def alias_renamed(j, pinned):
    """A reviewed function that has disappeared while exactly one new function with the same signature appeared in the same
    module / impl is that function under a new name: analyse it under the reviewed name (rules are anchored in names).
    Returns {reviewed name: current name}."""
    bodies = j["bodies"]
    missing = [m for m in pinned if m not in bodies]
    new = [n for n, jb in bodies.items() if jb.get("kind") in ("fn", "method") and n not in pinned]
    out = {}
    if not missing or not new:
        return out
    claims = {}
    for m in missing:
        cands = [n for n in new if _module(n) == _module(m) and signature(bodies[n]) == pinned[m]]
        if not cands:
            # moved to another module / file under the same name
            cands = [n for n in new if n.rsplit("::", 1)[-1] == m.rsplit("::", 1)[-1] and signature(bodies[n]) == pinned[m]]
        if len(cands) == 1:
            claims.setdefault(cands[0], []).append(m)
    for n, ms in claims.items():
        if len(ms) == 1:
            out[ms[0]] = n
    for m, n in out.items():
        _rename_everywhere(j, n, m)
    if out:
        j["renamed_functions"] = out
    return out


def _is_place(d):
    return isinstance(d, dict) and "l" in d and "p" in d and isinstance(d.get("p"), list)


def _renumber(x, off):
    """add `off` to every local index in a JSON fragment (places and index projections), in place"""
    if isinstance(x, dict):
        if _is_place(x):
            x["l"] += off
            for p in x["p"]:
                if isinstance(p, list) and p and p[0] == "i":
                    p[1] += off
            return
        for v in x.values():
            _renumber(v, off)
    elif isinstance(x, list):
        for v in x:
            _renumber(v, off)


def _retarget(term, off):
    for k in ("target", "otherwise", "imaginary"):
        if isinstance(term.get(k), int):
            term[k] += off
    if "targets" in term:
        term["targets"] = [[v, t + off] for v, t in term["targets"]]


def _returns_coroutine(jb):
    for b in jb["blocks"]:
        for s in b["stmts"]:
            rv = s.get("rv") or {}
            if rv.get("k") == "agg" and rv.get("ak") == "coroutine":
                return True
    return False


def _calls(jb):
    for bi, b in enumerate(jb["blocks"]):
        t = b["term"]
        if t["k"] == "call":
            yield bi, t


def _fn_refs(jb):
    """names of fns referenced as values (fn pointers / fn items passed as arguments)"""
    out = set()

    def walk(x):
        if isinstance(x, dict):
            if x.get("k") == "const" and "fn" in x:
                out.add(x["fn"])
            for v in x.values():
                walk(v)
        elif isinstance(x, list):
            for v in x:
                walk(v)
    for b in jb["blocks"]:
        for s in b["stmts"]:
            walk(s)
        t = b["term"]
        walk(t.get("args", []))
    return out


def inlineable(name, jb, pinned):
    if name in pinned:
        return False
    if jb.get("kind") not in ("fn", "method") or jb.get("trait") or jb.get("mir") not in (None, "promoted", "built", "optimized"):
        return False
    if jb.get("vis") == "Public":
        return False
    if len(jb["blocks"]) > MAX_BLOCKS or _returns_coroutine(jb):
        return False
    for _, t in _calls(jb):
        if (t.get("res") or t.get("fn")) == name:
            return False  # recursive
    return True


def _splice(caller, bi, callee, callee_name):
    """expand the call terminating block `bi` of `caller` (JSON) with a copy of `callee`"""
    call = caller["blocks"][bi]["term"]
    n_l = len(caller["locals"])
    n_b = len(caller["blocks"])
    argc = callee["arg_count"]
    for l in copy.deepcopy(callee["locals"]):
        l["inlined_from"] = callee_name
        caller["locals"].append(l)
    loc, exp = call["loc"], call.get("exp", [])
    # parameters := arguments
    for i in range(argc):
        if i < len(call.get("args", [])):
            caller["blocks"][bi]["stmts"].append({"k": "assign", "pl": {"l": n_l + 1 + i, "p": []}, "rv": {"k": "use", "a": copy.deepcopy(call["args"][i])}, "loc": loc, "exp": exp, "inl": "param"})
    dest = call.get("dest")
    target = call.get("target")
    for b in copy.deepcopy(callee["blocks"]):
        _renumber(b, n_l)
        t = b["term"]
        _retarget(t, n_b)
        if t["k"] == "return":
            if dest is not None:
                b["stmts"].append({"k": "assign", "pl": copy.deepcopy(dest), "rv": {"k": "use", "a": {"k": "move", "pl": {"l": n_l, "p": []}}}, "loc": t["loc"], "exp": t.get("exp", []), "inl": "ret"})
            if target is None:
                b["term"] = {"k": "unreachable", "loc": t["loc"], "exp": t.get("exp", [])}
            else:
                b["term"] = {"k": "goto", "target": target, "loc": t["loc"], "exp": t.get("exp", [])}
        caller["blocks"].append(b)
    caller["blocks"][bi]["term"] = {"k": "goto", "target": n_b, "loc": loc, "exp": exp, "inl_call": callee_name}
    caller.setdefault("inlined", []).append(callee_name)


def load_pinned_fields(config="default"):
    try:
        with open(PINNED) as f:
            return json.load(f)["fields"][config]
    except (OSError, ValueError, KeyError):
        return None


def adt_fields(adt):
    """[(variant, field name, type)] of an ADT record of the fact base"""
    return [[v["name"], f["name"], f["ty"]] for v in adt.get("variants", []) for f in v.get("fields", [])]


def alias_renamed_fields(j, pinned_fields):
    """A reviewed field that disappeared from an ADT while exactly one new field of the same type appeared in the same variant is
    that field under a new name (`drop_guard` -> `_drop_guard`): analyse it under the reviewed name.  Returns {adt: {reviewed: current}}."""
    out = {}
    for adt, old in pinned_fields.items():
        cur = j["adts"].get(adt)
        if cur is None:
            continue
        now = adt_fields(cur)
        old_s = {(v, n) for v, n, t in old}
        now_s = {(v, n) for v, n, t in now}
        gone = [(v, n, t) for v, n, t in old if (v, n) not in now_s]
        new = [(v, n, t) for v, n, t in now if (v, n) not in old_s]
        for v, n, t in gone:
            c = [x for x in new if x[0] == v and x[2] == t]
            g = [x for x in gone if x[0] == v and x[2] == t]
            if len(c) == 1 and len(g) == 1:
                out.setdefault(adt, {})[n] = c[0][1]
    if not out:
        return out
    back = {adt: {cur: old for old, cur in m.items()} for adt, m in out.items()}
    allnew = {cur: old for m in out.values() for old, cur in m.items()}

    def fix(x):
        if isinstance(x, dict):
            if x.get("ak") == "adt" and x.get("adt") in back and isinstance(x.get("fields"), list):
                x["fields"] = [back[x["adt"]].get(f, f) for f in x["fields"]]
            for v in x.values():
                fix(v)
        elif isinstance(x, list):
            if len(x) >= 3 and x[0] == "f" and isinstance(x[1], str):
                if x[1] in back and x[2] in back[x[1]]:
                    x[2] = back[x[1]][x[2]]
                elif x[1] == "upvar" and isinstance(x[2], str):
                    x[2] = ".".join(allnew.get(seg, seg) for seg in x[2].split("."))
                return
            for v in x:
                fix(v)
    for jb in j["bodies"].values():
        fix(jb["blocks"])
        if "upvars" in jb:
            jb["upvars"] = [".".join(allnew.get(seg, seg) for seg in u.split(".")) for u in jb["upvars"]]
    for adt, m in back.items():
        for v in j["adts"][adt].get("variants", []):
            for f in v.get("fields", []):
                if f["name"] in m:
                    f["name"] = m[f["name"]]
    j["renamed_fields"] = out
    return out


def _forward_local_refs(jb):
    """After a helper that took `&mut local` parameters was expanded into its caller, the helper's `*param` accesses are accesses to that local.
    For every local R with exactly one definition that is (a chain of moves / reborrows of) `&[mut] L` with L a bare local, rewrite each place
    `(*R).proj` to `L.proj`.  R is assigned once, so `*R` denotes L wherever it is used (the MIR pass ReferencePropagation does the same)."""
    ndefs = {}
    defstmt = {}
    for b in jb["blocks"]:
        for st in b["stmts"]:
            pl = st.get("pl")
            if st.get("k") == "assign" and _is_place(pl) and not pl["p"]:
                ndefs[pl["l"]] = ndefs.get(pl["l"], 0) + 1
                defstmt[pl["l"]] = st
        t = b.get("term") or {}
        d = t.get("dest")
        if _is_place(d) and not d["p"]:
            ndefs[d["l"]] = ndefs.get(d["l"], 0) + 1
            defstmt.pop(d["l"], None)
    nargs = jb.get("arg_count", 0)

    def target(r, depth=0):
        if depth > 8 or ndefs.get(r) != 1 or r not in defstmt or 1 <= r <= nargs:
            return None
        rv = defstmt[r].get("rv") or {}
        if rv.get("k") == "ref" and _is_place(rv.get("pl")):
            pl = rv["pl"]
            if not pl["p"]:
                return pl["l"]
            if pl["p"] == ["*"]:
                return target(pl["l"], depth + 1)
            return None
        if rv.get("k") == "use" and isinstance(rv.get("a"), dict) and _is_place(rv["a"].get("pl")) and not rv["a"]["pl"]["p"]:
            return target(rv["a"]["pl"]["l"], depth + 1)
        return None
    cache = {}
    n = 0

    def fix(x):
        nonlocal n
        if isinstance(x, dict):
            if _is_place(x):
                if x["p"] and x["p"][0] == "*":
                    r = x["l"]
                    if r not in cache:
                        cache[r] = target(r)
                    if cache[r] is not None:
                        x["l"] = cache[r]
                        x["p"] = x["p"][1:]
                        n += 1
                return
            for v in x.values():
                fix(v)
        elif isinstance(x, list):
            for v in x:
                fix(v)
    for b in jb["blocks"]:
        for st in b["stmts"]:
            fix(st)
        fix(b.get("term"))
    return n


def _thread_bool_joins(jb):
    """After a bool-returning helper was expanded, its `return a && !b` arrives in the caller as several blocks that assign the result
    (`r = const false`, `r = !x`) and meet in a join that (after copying the result into the caller's variable) immediately switches on it.
    Control dependence then shows only "r was true".  Jump threading: send each assigning block straight to the switch target its value
    selects (`r = const c` -> goto T_c; `r = !x` -> switch x with the targets exchanged), so the caller's code is controlled by the helper's
    own tests again, as it was before the extraction."""
    blocks = jb["blocks"]
    n = 0

    def copy_of(st, sw):
        """st == [sw = use(move/copy r)] -> r"""
        if len(st) == 1 and st[0].get("k") == "assign" and _is_place(st[0].get("pl")) and not st[0]["pl"]["p"] and st[0]["pl"]["l"] == sw \
                and (st[0].get("rv") or {}).get("k") == "use" and _is_place(((st[0]["rv"].get("a") or {}).get("pl"))) and not st[0]["rv"]["a"]["pl"]["p"]:
            return st[0]["rv"]["a"]["pl"]["l"]
        return None
    for ji, J in enumerate(blocks):
        t = J.get("term") or {}
        if J.get("cleanup") or t.get("k") != "switch" or t.get("opty") != "bool":
            continue
        op = t.get("op") or {}
        if not _is_place(op.get("pl")) or op["pl"]["p"]:
            continue
        sw = op["pl"]["l"]
        tf = {0: None, 1: t.get("otherwise")}
        for v, tgt in t.get("targets", []):
            if v == 0:
                tf[0] = tgt
            else:
                tf[1] = tgt
        if tf[0] is None:
            tf[0] = t.get("otherwise")
        if tf[0] is None or tf[1] is None:
            continue
        # where the assigning blocks arrive: the join itself (empty, or holding the copy), or a copy block in front of an empty join
        entries = []
        if not J["stmts"]:
            entries.append((ji, [], sw))
            for ci, C in enumerate(blocks):
                ct = C.get("term") or {}
                if C is not J and not C.get("cleanup") and ct.get("k") == "goto" and ct.get("target") == ji:
                    r = copy_of(C["stmts"], sw)
                    if r is not None:
                        entries.append((ci, C["stmts"], r))
        else:
            r = copy_of(J["stmts"], sw)
            if r is not None:
                entries.append((ji, J["stmts"], r))
        for ei, est, r in entries:
            for P in blocks:
                pt = P.get("term") or {}
                if P is blocks[ei] or P.get("cleanup") or pt.get("k") != "goto" or pt.get("target") != ei or not P["stmts"]:
                    continue
                last = P["stmts"][-1]
                if not (last.get("k") == "assign" and _is_place(last.get("pl")) and not last["pl"]["p"] and last["pl"]["l"] == r):
                    continue
                rv = last.get("rv") or {}
                if rv.get("k") == "use" and (rv.get("a") or {}).get("k") == "const" and rv["a"].get("scalar") in (0, 1):
                    P["stmts"].extend(copy.deepcopy(est))
                    pt["target"] = tf[1 if rv["a"]["scalar"] else 0]
                    n += 1
                elif rv.get("k") == "un" and rv.get("op") == "Not" and _is_place((rv.get("a") or {}).get("pl")) and not rv["a"]["pl"]["p"]:
                    x = rv["a"]["pl"]["l"]
                    P["stmts"].extend(copy.deepcopy(est))
                    P["term"] = {"k": "switch", "op": {"k": "copy", "pl": {"l": x, "p": []}}, "opty": "bool", "targets": [[0, tf[1]]], "otherwise": tf[0], "loc": pt.get("loc"), "exp": pt.get("exp", [])}
                    rv["a"]["k"] = "copy"  # `move x` would leave x moved-from for the switch
                    n += 1
    return n


def inline_new_helpers(j, pinned=None, config="default"):
    """j: loaded fact base (dict).  Returns a report {helper: [callers...]} ; mutates j['bodies']"""
    if pinned is None:
        pinned = load_pinned(config)
    if pinned is None:
        return {}
    alias_renamed(j, pinned)
    pf = load_pinned_fields(config)
    if pf:
        alias_renamed_fields(j, pf)
    bodies = j["bodies"]
    cand = {n for n, jb in bodies.items() if inlineable(n, jb, pinned)}
    if not cand:
        return {}
    # fn items used as values cannot be expanded away
    for n, jb in bodies.items():
        cand -= (_fn_refs(jb) & cand)
    report = {}
    originals = {n: copy.deepcopy(bodies[n]) for n in cand}
    for _ in range(MAX_ROUNDS):
        changed = False
        # callee-first: expand helpers inside helpers before their callers see them
        for n in list(bodies):
            jb = bodies[n]
            sites = [bi for bi, t in _calls(jb) if (t.get("res") or t.get("fn")) in cand and t.get("res_local", True) and (t.get("res") or t.get("fn")) != n]
            for bi in sites:
                callee_name = jb["blocks"][bi]["term"].get("res") or jb["blocks"][bi]["term"].get("fn")
                src = bodies.get(callee_name) if callee_name in bodies else originals.get(callee_name)
                if src is None or len(jb["blocks"]) + len(src["blocks"]) > 4 * MAX_BLOCKS:
                    continue
                _splice(jb, bi, copy.deepcopy(src), callee_name)
                report.setdefault(callee_name, []).append(n)
                changed = True
        if not changed:
            break
    # drop the stand-alone bodies that were expanded everywhere; re-parent their closures to (one of) the callers
    still_called = set()
    for n, jb in bodies.items():
        for _, t in _calls(jb):
            r = t.get("res") or t.get("fn")
            if r in cand and n not in cand:
                still_called.add(r)
    for h, callers in report.items():
        if h in still_called or h not in bodies:
            continue
        outer = [c for c in callers if c not in cand]
        if not outer:
            continue
        del bodies[h]
        for n, jb in bodies.items():
            if jb.get("parent") == h:
                jb["parent"] = outer[0]
                jb["reparented_from"] = h
    for n in {c for cs in report.values() for c in cs}:
        if n in bodies:
            _forward_local_refs(bodies[n])
            for _ in range(4):
                if not _thread_bool_joins(bodies[n]):
                    break
    j["inlined_helpers"] = {h: sorted(set(c)) for h, c in report.items()}
    return report
