"""Fact base access: bodies, CFG, places, def-use.  No rules live here.

The JSON is produced by engine/driver (promoted MIR of the crate as cargo builds it).
Conventions used by every engine:
  * cleanup blocks and imaginary (FalseEdge) successors are dropped: panics/unwinding are
    not normal exits;
  * a program point is (bb, i) with i == len(stmts) meaning the terminator;
  * nothing is keyed by line/column/block number: those appear only in reports.
"""
import json
from collections import defaultdict

TRACING_CRATES = ("tracing::", "tracing_core::", "log::")


class Place:
    __slots__ = ("local", "proj", "_fields")

    def __init__(self, j):
        self.local = j["l"]
        self.proj = j["p"]
        self._fields = None

    @property
    def fields(self):
        """list of 'Owner.field' strings along the projection (derefs dropped)"""
        if self._fields is None:
            out = []
            for p in self.proj:
                if isinstance(p, list) and p[0] == "f":
                    out.append(field_name(p[1], p[2]))
            self._fields = out
        return self._fields

    @property
    def last_field(self):
        f = self.fields
        return f[-1] if f else None

    @property
    def is_local(self):
        return not self.proj

    @property
    def has_deref(self):
        return any(p == "*" for p in self.proj)

    def variants(self):
        return [p[1] for p in self.proj if isinstance(p, list) and p[0] == "v"]

    def __repr__(self):
        s = "_%d" % self.local
        for p in self.proj:
            if p == "*":
                s = "(*%s)" % s
            elif p[0] == "f":
                s = "%s.%s" % (s, p[2])
            elif p[0] == "v":
                s = "(%s as %s)" % (s, p[1])
            elif p[0] == "i":
                s = "%s[_%d]" % (s, p[1])
            elif p[0] == "ci":
                s = "%s[%s%d]" % (s, "-" if p[3] else "", p[1])
            else:
                s = "%s[%s]" % (s, p)
        return s


def short_owner(owner):
    """'stream_tx_segments::Segments' -> 'Segments'; 'std::option::Option::Some' -> 'Option::Some'"""
    parts = owner.split("::")
    if len(parts) >= 2 and parts[-2][:1].isupper():
        return parts[-2] + "::" + parts[-1]
    return parts[-1]


def field_name(owner, name):
    return "%s.%s" % (short_owner(owner), name)


class Operand:
    __slots__ = ("kind", "place", "j")

    def __init__(self, j):
        self.j = j
        self.kind = j["k"]
        self.place = Place(j["pl"]) if "pl" in j else None

    @property
    def is_const(self):
        return self.kind == "const"

    @property
    def scalar(self):
        return self.j.get("scalar") if self.kind == "const" else None

    @property
    def const_item(self):
        if self.kind != "const" or self.j.get("promoted"):
            return None  # a promoted temporary (`&0`) is not a named constant item
        return self.j.get("item")

    @property
    def const_fn(self):
        return self.j.get("fn") if self.kind == "const" else None

    @property
    def ty(self):
        return self.j.get("ty")

    def __repr__(self):
        if self.kind == "const":
            if "item" in self.j and not self.j.get("promoted"):
                return "const %s" % self.j["item"]
            if "scalar" in self.j:
                return "const %s" % (self.j["scalar"],)
            if "fn" in self.j:
                return "fn %s" % self.j["fn"]
            return "const %s" % self.j.get("s", self.j.get("ty"))
        return "%s %r" % (self.kind, self.place)


class Rvalue:
    __slots__ = ("kind", "j", "ops", "place")

    def __init__(self, j):
        self.j = j
        self.kind = j["k"]
        self.place = Place(j["pl"]) if "pl" in j else None
        if self.kind in ("use", "un", "cast", "repeat"):
            self.ops = [Operand(j["a"])]
        elif self.kind == "bin":
            self.ops = [Operand(j["a"]), Operand(j["b"])]
        elif self.kind == "agg":
            self.ops = [Operand(o) for o in j["ops"]]
        else:
            self.ops = []

    @property
    def op(self):
        return self.j.get("op")

    def __repr__(self):
        k = self.kind
        if k == "use":
            return repr(self.ops[0])
        if k == "ref":
            return "&%s %r" % (self.j["bk"], self.place)
        if k == "bin":
            return "%s(%r, %r)" % (self.j["op"], self.ops[0], self.ops[1])
        if k == "un":
            return "%s(%r)" % (self.j["op"], self.ops[0])
        if k == "cast":
            return "%r as %s" % (self.ops[0], self.j["ty"])
        if k == "discr":
            return "discriminant(%r)" % self.place
        if k == "agg":
            ak = self.j["ak"]
            if ak == "adt":
                return "%s::%s{%s}" % (short_owner(self.j["adt"]), self.j["variant"], ", ".join(map(repr, self.ops)))
            if ak in ("closure", "coroutine"):
                return "closure %s" % self.j["closure"]
            return "%s(%s)" % (ak, ", ".join(map(repr, self.ops)))
        return k


class Stmt:
    __slots__ = ("j", "kind", "place", "rv", "loc", "exp", "bb", "idx")

    def __init__(self, j, bb, idx):
        self.j = j
        self.kind = j["k"]
        self.place = Place(j["pl"])
        self.rv = Rvalue(j["rv"]) if "rv" in j else None
        self.loc = j["loc"]
        self.exp = j["exp"]
        self.bb = bb
        self.idx = idx

    @property
    def point(self):
        return (self.bb, self.idx)

    @property
    def is_tracing(self):
        return any(e.startswith(TRACING_CRATES) for e in self.exp)

    def where(self):
        return "%s:%d" % (self.loc[0], self.loc[1])

    def __repr__(self):
        return "%r = %r" % (self.place, self.rv)


class Term:
    __slots__ = ("j", "kind", "loc", "exp", "bb", "idx", "args", "dest", "place", "op")

    def __init__(self, j, bb, idx):
        self.j = j
        self.kind = j["k"]
        self.loc = j["loc"]
        self.exp = j["exp"]
        self.bb = bb
        self.idx = idx
        self.args = [Operand(a) for a in j.get("args", [])]
        self.dest = Place(j["dest"]) if "dest" in j else None
        self.place = Place(j["pl"]) if "pl" in j else None
        self.op = Operand(j["op"]) if "op" in j else (Operand(j["cond"]) if "cond" in j else None)

    @property
    def point(self):
        return (self.bb, self.idx)

    @property
    def is_call(self):
        return self.kind == "call"

    @property
    def callee(self):
        """trait/inherent path of the callee (generics stripped), e.g. std::collections::VecDeque::pop_back"""
        return self.j.get("fn")

    @property
    def resolved(self):
        """impl-resolved path where rustc could resolve it, otherwise the callee path"""
        return self.j.get("res") or self.j.get("fn")

    @property
    def callee_full(self):
        return self.j.get("fna")

    @property
    def is_tracing(self):
        return any(e.startswith(TRACING_CRATES) for e in self.exp)

    def where(self):
        return "%s:%d" % (self.loc[0], self.loc[1])

    def __repr__(self):
        if self.kind == "call":
            return "%r = %s(%s)" % (self.dest, self.resolved, ", ".join(map(repr, self.args)))
        if self.kind == "switch":
            return "switch %r %s else %s" % (self.op, self.j["targets"], self.j["otherwise"])
        if self.kind == "drop":
            return "drop %r" % self.place
        return self.kind


class Block:
    __slots__ = ("idx", "stmts", "term", "cleanup")

    def __init__(self, j, idx):
        self.idx = idx
        self.cleanup = j["cleanup"]
        self.stmts = [Stmt(s, idx, i) for i, s in enumerate(j["stmts"]) if s["k"] == "assign"]
        # re-index after filtering
        for i, s in enumerate(self.stmts):
            s.idx = i
        self.term = Term(j["term"], idx, len(self.stmts))

    def items(self):
        for s in self.stmts:
            yield s
        yield self.term


class Body:
    def __init__(self, name, j, facts):
        self.name = name
        self.j = j
        self.facts = facts
        self.kind = j["kind"]
        self.parent = j.get("parent")
        self.arg_count = j["arg_count"]
        self.locals = j["locals"]
        self.loc = j["loc"]
        self.end_line = j.get("end_line")
        self.self_adt = j.get("self_adt")
        self.trait = j.get("trait")
        self.upvars = j.get("upvars", [])
        self.blocks = [Block(b, i) for i, b in enumerate(j["blocks"])]
        self._succ = None
        self._pred = None
        self._dom = None
        self._defs = None
        self._reach = None
        self._rdefs = None

    # ------------------------------------------------------------------ naming
    @property
    def short(self):
        return self.name

    def local_name(self, l):
        return self.locals[l]["name"]

    def local_ty(self, l):
        return self.locals[l]["ty"]

    def is_param(self, l):
        return 1 <= l <= self.arg_count

    def where(self):
        return "%s:%d" % (self.loc[0], self.loc[1])

    # ------------------------------------------------------------------ CFG
    def edges(self, bb):
        """list of (target, label).  label: ('val', v) / ('otherwise', (excluded...)) for switch; None otherwise"""
        t = self.blocks[bb].term
        k = t.kind
        j = t.j
        if k == "switch":
            out = [(tgt, ("val", v)) for v, tgt in j["targets"]]
            out.append((j["otherwise"], ("otherwise", tuple(v for v, _ in j["targets"]))))
            return out
        if k in ("goto", "drop", "assert", "falseedge", "falseunwind", "yield"):
            return [(j["target"], None)]
        if k == "call":
            return [(j["target"], None)] if j["target"] is not None else []
        return []

    def succ(self, bb):
        if self._succ is None:
            self._build_cfg()
        return self._succ[bb]

    def pred(self, bb):
        if self._pred is None:
            self._build_cfg()
        return self._pred[bb]

    def _build_cfg(self):
        n = len(self.blocks)
        self._succ = [[] for _ in range(n)]
        self._pred = [[] for _ in range(n)]
        for b in self.blocks:
            if b.cleanup:
                continue
            for tgt, _ in self.edges(b.idx):
                if self.blocks[tgt].cleanup:
                    continue
                if tgt not in self._succ[b.idx]:
                    self._succ[b.idx].append(tgt)
                    self._pred[tgt].append(b.idx)

    def reachable(self, start=0, removed_edges=(), removed_blocks=()):
        """set of blocks reachable from start, not traversing removed_edges {(src,tgt)} / removed blocks"""
        removed_edges = set(removed_edges)
        removed_blocks = set(removed_blocks)
        seen = set()
        if start in removed_blocks:
            return seen
        stack = [start]
        seen.add(start)
        while stack:
            b = stack.pop()
            for s in self.succ(b):
                if (b, s) in removed_edges or s in removed_blocks or s in seen:
                    continue
                seen.add(s)
                stack.append(s)
        return seen

    def live_blocks(self):
        if self._reach is None:
            self._reach = self.reachable(0)
        return self._reach

    def return_blocks(self):
        return [b.idx for b in self.blocks if not b.cleanup and b.term.kind == "return" and b.idx in self.live_blocks()]

    def dominators(self):
        """dom[b] = set of blocks dominating b (including b) for live blocks"""
        if self._dom is not None:
            return self._dom
        live = sorted(self.live_blocks())
        allb = set(live)
        dom = {b: set(allb) for b in live}
        dom[0] = {0}
        changed = True
        order = self.rpo()
        while changed:
            changed = False
            for b in order:
                if b == 0:
                    continue
                ps = [p for p in self.pred(b) if p in dom]
                if not ps:
                    continue
                new = set.intersection(*(dom[p] for p in ps)) | {b}
                if new != dom[b]:
                    dom[b] = new
                    changed = True
        self._dom = dom
        return dom

    def rpo(self):
        seen = set()
        order = []

        def dfs(b):
            stack = [(b, iter(self.succ(b)))]
            seen.add(b)
            while stack:
                node, it = stack[-1]
                adv = False
                for s in it:
                    if s not in seen:
                        seen.add(s)
                        stack.append((s, iter(self.succ(s))))
                        adv = True
                        break
                if not adv:
                    order.append(node)
                    stack.pop()

        dfs(0)
        order.reverse()
        return order

    def back_edges(self):
        """edges (u,v) where v dominates u"""
        dom = self.dominators()
        out = set()
        for u in self.live_blocks():
            for v in self.succ(u):
                if v in dom.get(u, ()):
                    out.add((u, v))
        return out

    def natural_loops(self):
        """list of (header, set(blocks)) merged per header"""
        loops = {}
        for (u, v) in self.back_edges():
            body = {v, u}
            stack = [u]
            while stack:
                x = stack.pop()
                if x == v:
                    continue
                for p in self.pred(x):
                    if p not in body and p in self.live_blocks():
                        body.add(p)
                        stack.append(p)
            loops.setdefault(v, set()).update(body)
        return sorted(loops.items())

    def loop_boundary_edges(self):
        """back edges plus edges leaving any natural loop"""
        out = set(self.back_edges())
        for h, blocks in self.natural_loops():
            for b in blocks:
                for s in self.succ(b):
                    if s not in blocks:
                        out.add((b, s))
        return out

    # ------------------------------------------------------------------ iteration
    def items(self):
        for b in self.blocks:
            if b.cleanup or b.idx not in self.live_blocks():
                continue
            for it in b.items():
                yield it

    def calls(self, pred=None):
        for b in self.blocks:
            if b.cleanup or b.idx not in self.live_blocks():
                continue
            t = b.term
            if t.kind == "call" and (pred is None or pred(t)):
                yield t

    def stmts(self):
        for b in self.blocks:
            if b.cleanup or b.idx not in self.live_blocks():
                continue
            for s in b.stmts:
                yield s

    def item_at(self, point):
        bb, i = point
        b = self.blocks[bb]
        return b.stmts[i] if i < len(b.stmts) else b.term

    # ------------------------------------------------------------------ defs
    def defs(self):
        """local -> list of items that (fully) define it: Assign with bare local place, Call with bare dest.
        partial: local -> list of items writing through a projection that does not deref"""
        if self._defs is None:
            full = defaultdict(list)
            partial = defaultdict(list)
            for it in self.items():
                pl = None
                if isinstance(it, Stmt):
                    pl = it.place
                elif it.kind == "call":
                    pl = it.dest
                elif it.kind == "yield":
                    pl = Place(it.j["resume_arg"])
                if pl is None:
                    continue
                if pl.is_local:
                    full[pl.local].append(it)
                elif not pl.has_deref:
                    partial[pl.local].append(it)
            self._defs = (full, partial)
        return self._defs

    def unique_def(self, local):
        full, partial = self.defs()
        d = full.get(local, [])
        if len(d) == 1:
            return d[0]
        return None

    def all_defs(self, local):
        return self.defs()[0].get(local, [])

    def src_line(self, loc):
        return self.facts.src_line(loc)


class Facts:
    def __init__(self, path, repo="/repo"):
        with open(path) as f:
            self.j = json.load(f)
        self.repo = repo
        # new private helpers (not among the reviewed tree's functions) are expanded into their callers
        from .inline import inline_new_helpers
        import os as _os
        cfg = _os.path.basename(path).rsplit("-", 1)[0]
        self.inlined = inline_new_helpers(self.j, config=cfg if cfg in ("default", "export-metrics") else "default")
        self.renamed = self.j.get("renamed_functions", {})
        self.renamed_fields = self.j.get("renamed_fields", {})
        self.adts = self.j["adts"]
        self.consts = self.j["consts"]
        self.impls = self.j["impls"]
        self.fns = self.j["fns"]
        self._bodies = {}
        self._src = {}
        self.body_names = list(self.j["bodies"].keys())
        # methods of #[derive]d impls (Clone, PartialEq, Debug ...): mechanical copies, never rule sites
        self.derived = set()
        for im in self.impls:
            if im.get("derived"):
                self.derived.update(im.get("items", []))

    def body(self, name):
        if name not in self._bodies:
            if name not in self.j["bodies"]:
                return None
            self._bodies[name] = Body(name, self.j["bodies"][name], self)
        return self._bodies[name]

    def bodies(self, pred=None, include_derived=False):
        for n in self.body_names:
            if not include_derived and (n in self.derived or self.j["bodies"][n].get("parent") in self.derived):
                continue
            if pred is None or pred(n):
                yield self.body(n)

    def closures_of(self, parent, recursive=True):
        out = []
        for n in self.body_names:
            jb = self.j["bodies"][n]
            if jb.get("parent") == parent:
                out.append(self.body(n))
                if recursive:
                    out.extend(self.closures_of(n, True))
        return out

    def find_bodies(self, suffix):
        return [self.body(n) for n in self.body_names if n == suffix or n.endswith("::" + suffix)]

    def const_scalar(self, name):
        c = self.consts.get(name)
        if c is None:
            return None
        return c.get("scalar")

    def const_pretty(self, name):
        c = self.consts.get(name)
        if c is None:
            return None
        return c.get("pretty")

    def adt(self, name):
        return self.adts.get(name)

    def src_line(self, loc):
        f = loc[0]
        if f not in self._src:
            try:
                with open("%s/%s" % (self.repo, f)) as fh:
                    self._src[f] = fh.read().split("\n")
            except OSError:
                self._src[f] = []
        lines = self._src[f]
        if 1 <= loc[1] <= len(lines):
            return lines[loc[1] - 1].strip()
        return ""

    def stats(self):
        nb = len(self.body_names)
        blocks = 0
        calls = 0
        stmts = 0
        for n in self.body_names:
            jb = self.j["bodies"][n]
            for b in jb["blocks"]:
                if b["cleanup"]:
                    continue
                blocks += 1
                stmts += len(b["stmts"])
                if b["term"]["k"] == "call":
                    calls += 1
        return {"bodies": nb, "blocks": blocks, "statements": stmts, "call_sites": calls, "adts": len(self.adts), "consts": len(self.consts)}
