"""bin/check entry point: extract facts from /repo's working tree, run the rules of one property,
match known findings, write evidence and replay reports, print VIOLATION / KNOWN-FINDING lines."""
import argparse
import importlib
import json
import os
import pkgutil
import sys
import time
import traceback

from . import extract
from .facts import Facts
from .registry import RULES, Run, RuleAbort, Violation

VERIF = extract.VERIF

TRUSTED_BASE = [
    "rustc 1.97.0-nightly MIR construction (promoted MIR, callee resolution via Instance::try_resolve)",
    "engine/driver (fact extractor, no rules) and engine/utpsa (Python rule engines), exercised by selftest mutants",
    "library contracts: VecDeque push/pop/drain, Ord::min/max/clamp, saturating_sub, Option::take, Waker::wake, ringbuf push_slice/skip, tokio mpsc, parking_lot guards",
    "hand-audited reference tables inside the rule files (each entry carries a one-line reason)",
]

ASSUMPTIONS = [
    "panics/unwinding are not normal exits (cleanup edges ignored)",
    "field-sensitive, object-insensitive: one Segments / UserRx / UserTx per connection, as the crate builds them",
    "no unsafe code and no raw pointers in the crate (checked by the census rule C00.unsafe on every run)",
    "what is decided are the named structural clauses on every path of the current source - not the runtime behaviour itself; see DESIGN.md section 6 for the clauses not decided",
    "cfg(test) code, examples/ and the feature per-connection-metrics (does not compile upstream) are not analysed",
]


def load_rules():
    sys.path.insert(0, VERIF)
    import rules  # noqa

    for m in pkgutil.iter_modules(rules.__path__):
        importlib.import_module("rules." + m.name)
    return RULES


def load_known():
    p = os.path.join(VERIF, "known_findings.json")
    if not os.path.exists(p):
        return []
    with open(p) as f:
        return json.load(f)["findings"]


def run_rules(facts, rules, config):
    runs = []
    for rd in rules:
        r = Run(rd, facts, config)
        try:
            rd.fn(r)
        except RuleAbort:
            pass
        except Exception as e:  # an engine crash must not look like a pass
            tb = traceback.format_exc()
            r.violations.append(Violation(rd.id, "%s|engine-error|%s" % (rd.id, type(e).__name__), "rule crashed: %s\n%s" % (e, tb), kind="engine-error"))
        runs.append(r)
    return runs


def main(argv=None):
    ap = argparse.ArgumentParser()
    ap.add_argument("prop")
    ap.add_argument("--tier", default=os.environ.get("VERIF_TIER", "quick"), choices=["quick", "thorough"])
    ap.add_argument("--repo", default="/repo")
    ap.add_argument("--rule", default=None, help="run only this rule id")
    ap.add_argument("--explain", default=None, help="print a stored replay report and re-run its rule")
    ap.add_argument("--no-evidence", action="store_true")
    ap.add_argument("--verbose", "-v", action="store_true")
    ap.add_argument("--json", action="store_true", help="print machine readable result (used by selftest)")
    args = ap.parse_args(argv)
    t0 = time.time()
    seed = int(os.environ.get("VERIF_SEED", "0") or 0)

    if args.explain:
        with open(args.explain) as f:
            rep = json.load(f)
        print(json.dumps(rep, indent=2))
        args.prop = rep["property"]
        args.rule = rep["rule"]
        args.no_evidence = True

    prop = args.prop
    allrules = load_rules()
    rules = [r for r in allrules if prop in r.props and (args.rule is None or r.id == args.rule)]
    if args.tier == "quick":
        rules = [r for r in rules if r.tier == "quick"]
    if not rules:
        print("no rules registered for %s" % prop)
        return 2

    configs = [""] if args.tier == "quick" else ["", "export-metrics"]
    all_runs = []
    analysed = []
    try:
        for feat in configs:
            path, sha, cached, secs = extract.facts_path(args.repo, feat)
            facts = Facts(path, repo=args.repo)
            if os.path.abspath(args.repo) != "/repo" and not os.environ.get("UTPSA_KEEP_SCRATCH"):
                try:
                    os.unlink(path)  # scratch copies are analysed once
                except OSError:
                    pass
            st = facts.stats()
            st.update({"features": feat or "default", "facts_sha": sha, "cached": cached, "extract_s": round(secs, 2)})
            if facts.inlined:
                st["new_helpers_expanded_into_callers"] = {h: sorted(set(c)) for h, c in facts.inlined.items()}
                print("note: new private helper(s) analysed inside their callers: %s" % ", ".join(sorted(facts.inlined)))
            if facts.renamed_fields:
                st["fields_analysed_under_reviewed_name"] = facts.renamed_fields
                print("note: renamed field(s) analysed under their reviewed names: %s" % ", ".join("%s.%s (now %s)" % (a.split("::")[-1], o, n) for a, m in sorted(facts.renamed_fields.items()) for o, n in m.items()))
            if facts.renamed:
                st["functions_analysed_under_reviewed_name"] = facts.renamed
                print("note: renamed function(s) analysed under their reviewed names: %s" % ", ".join("%s (now %s)" % (a, b.split("::")[-1]) for a, b in sorted(facts.renamed.items())))
            analysed.append(st)
            runs = run_rules(facts, rules, feat or "default")
            all_runs.append((feat or "default", runs))
    except extract.BuildFailed as e:
        print("BUILD-FAILED %s" % e)
        return 2

    # ---- merge
    violations = {}
    obligations = []
    instances = set()
    notes = []
    for feat, runs in all_runs:
        for r in runs:
            for v in r.violations:
                violations.setdefault(v.key, v)
            if feat == "default":
                obligations.extend(r.obligations)
                notes.extend("%s: %s" % (r.rule.id, n) for n in r.notes)
            instances |= {(r.rule.id, i) for i in r.instances}

    known = load_known()
    known_by_key = {}
    for k in known:
        if k.get("status") == "known":
            known_by_key[k["key"]] = k
            for ak in k.get("also_keys", []):
                known_by_key[ak] = k
    out_dir = os.path.join(VERIF, "out", prop)
    if not args.no_evidence:
        os.makedirs(out_dir, exist_ok=True)
        for f in os.listdir(out_dir):
            if f.endswith(".json"):
                os.unlink(os.path.join(out_dir, f))

    new_violations = []
    matched_known = []
    for key, v in sorted(violations.items()):
        kf = known_by_key.get(key)
        if kf is not None and prop in kf.get("properties", [kf.get("property")]):
            matched_known.append((kf, v))
        else:
            new_violations.append(v)

    for kf, v in matched_known:
        print("KNOWN-FINDING: property=%s %s [%s] %s" % (prop, kf["id"], v.key, kf["what"]))

    n = 0
    for v in new_violations:
        n += 1
        rep = v.to_json()
        rep["property"] = prop
        rd = next((r for r in rules if r.id == v.rule_id), None)
        if rd:
            rep["rule_title"] = rd.title
            rep["rule_text"] = rd.text
        path = os.path.join(out_dir, "%d.json" % n)
        if not args.no_evidence:
            with open(path, "w") as f:
                json.dump(rep, f, indent=2)
        print("VIOLATION property=%s replay=%s" % (prop, path))
        print("  rule %s: %s" % (v.rule_id, v.msg.split("\n")[0]))
        if v.where:
            print("  at %s" % v.where)
        print("  key %s" % v.key)
        for w in v.witness[:16]:
            print("    %s" % w)

    # ---- thorough tier: self-validation of this property's rules on scratch copies of the CURRENT tree
    selftest = None
    if args.tier == "thorough" and os.path.abspath(args.repo) == "/repo" and not args.rule and not args.no_evidence:
        import subprocess
        import tempfile
        tf = tempfile.NamedTemporaryFile(suffix=".json", delete=False)
        tf.close()
        jobs = str(max(2, min(8, (os.cpu_count() or 4) // 2)))
        subprocess.run([os.path.join(VERIF, "bin", "selftest"), "--prop", prop, "--with-seeded", "--no-setup", "--jobs", jobs, "--json", tf.name], stdout=subprocess.DEVNULL, stderr=subprocess.DEVNULL)
        try:
            with open(tf.name) as f:
                res = json.load(f)
        except (OSError, ValueError):
            res = []
        os.unlink(tf.name)
        fired = [r["name"] for r in res if r["outcome"] == "fired"]
        missed = [r["name"] for r in res if r["outcome"] == "MISSED"]
        skipped = [r["name"] for r in res if r["outcome"].startswith("skipped")]
        failed = [r["name"] for r in res if r["outcome"] == "build-failed"]
        selftest = {"mutants_fired": len(fired), "mutants_applicable": len(fired) + len(missed), "skipped_context_drift": skipped, "missed": missed, "did_not_build": failed,
                    "what": "each mutant / independently seeded change is applied to a scratch copy of the current tree, facts are re-extracted and the check must report it; a miss means the rule lost its teeth (reported here, it does not make the unchanged tree a violation)"}
        print("selftest: fired=%d applicable=%d skipped=%d missed=%s" % (len(fired), len(fired) + len(missed), len(skipped), missed))

        # ... and the converse: the stored behaviour-preserving refactorings must leave this check silent
        tf2 = tempfile.NamedTemporaryFile(suffix=".json", delete=False)
        tf2.close()
        subprocess.run([os.path.join(VERIF, "bin", "refac-check"), "--prop", prop, "--json-file", tf2.name], stdout=subprocess.DEVNULL, stderr=subprocess.DEVNULL)
        try:
            with open(tf2.name) as f:
                rres = json.load(f)
        except (OSError, ValueError):
            rres = []
        os.unlink(tf2.name)
        alarmed = [os.path.basename(os.path.dirname(r["patch"])) for r in rres if r.get("violations")]
        errs = [os.path.basename(os.path.dirname(r["patch"])) for r in rres if r.get("error")]
        selftest["refactorings_applied"] = len(rres)
        selftest["refactorings_silent"] = len(rres) - len(alarmed) - len(errs)
        selftest["refactorings_false_alarm"] = alarmed
        selftest["refactorings_not_applicable"] = errs
        print("refactor corpus: %d applied, %d silent, false alarms=%s, not applicable=%s" % (len(rres), len(rres) - len(alarmed) - len(errs), alarmed, errs))

    wall = time.time() - t0
    discharged = sum(1 for o in obligations if o["verdict"] != "VIOLATED")
    if not args.no_evidence:
        samples = []
        seen_inst = set()
        for o in obligations:  # one sample per instance first
            if (o["rule"], o["instance"]) not in seen_inst:
                seen_inst.add((o["rule"], o["instance"]))
                samples.append(o)
        samples = samples[:60]
        ev = {
            "property_id": prop,
            "tier": args.tier,
            "seed": seed,
            "level": "other",
            "coverage": {
                "explanation": "Static analysis of rustc's promoted MIR of /repo's current working tree (extracted on this run by a rustc_private driver; all %d bodies of the lib target). "
                "Each rule below is a structural clause that is a necessary condition of the property; it is decided for every CFG path of every function it covers (dataflow/dominance, no path sampling). "
                "What is NOT decided by this check is listed in DESIGN.md section 6." % (analysed[0]["bodies"] if analysed else 0),
                "rule": " || ".join("%s [%s] %s" % (r.id, "+".join(r.engines), r.text) for r in rules),
                "obligations": len(obligations),
                "discharged": discharged,
                "evaluations": len(obligations),
                "distinct_nontrivial": len(instances),
                "samples": samples,
                "checker_cmd": "bin/check %s --tier %s" % (prop, args.tier),
                "trusted_base": TRUSTED_BASE,
                "exhaustive": False,
                "analysed": analysed,
                "rules_run": [r.id for r in rules],
                "known_findings_matched": [{"id": kf["id"], "key": v.key} for kf, v in matched_known],
                "notes": notes[:40],
                "selftest": selftest,
            },
            "assumptions": ASSUMPTIONS,
            "wall_s": round(wall, 3),
            "violations": len(new_violations),
        }
        os.makedirs(os.path.join(VERIF, "evidence"), exist_ok=True)
        tmp = os.path.join(VERIF, "evidence", ".%s.json.%d" % (prop, os.getpid()))
        with open(tmp, "w") as f:
            json.dump(ev, f, indent=1)
        os.replace(tmp, os.path.join(VERIF, "evidence", "%s.json" % prop))

    if args.json:
        print("JSON-RESULT " + json.dumps({"violations": [v.key for v in new_violations], "known": [v.key for _, v in matched_known]}))
    summary = "%s tier=%s rules=%d obligations=%d discharged=%d instances=%d known=%d new-violations=%d wall=%.1fs" % (
        prop, args.tier, len(rules), len(obligations), discharged, len(instances), len(matched_known), len(new_violations), wall)
    print(summary)
    if args.verbose:
        for o in obligations:
            print("   [%s] %s :: %s :: %s %s" % (o["rule"], o["instance"], o["site"], o["verdict"], o["detail"][:100]))
        for nline in notes:
            print("   note", nline)
    return 1 if new_violations else 0


if __name__ == "__main__":
    sys.exit(main())
