"""E4 provenance: where does a value / a receiver come from?

trace(body, x) follows unique definitions backwards through copies, moves, references, derefs,
casts-if-asked and a table of *transparent* callees (deref, lock, into, clone ...), collecting the
field path.  It stops at a root: parameter, upvar, constant, non-transparent call, aggregate,
arithmetic, or a local with several definitions ("multi").
"""
import re
from .facts import Operand, Place, Stmt, Term, field_name, short_owner

# callees that return (a view of) their first argument, for the purpose of "which field is this"
TRANSPARENT = {
    "std::ops::Deref::deref",
    "std::ops::DerefMut::deref_mut",
    "std::convert::Into::into",
    "std::convert::From::from",
    "std::clone::Clone::clone",
    "std::convert::AsRef::as_ref",
    "std::convert::AsMut::as_mut",
    "std::borrow::Borrow::borrow",
    "std::borrow::BorrowMut::borrow_mut",
    "std::option::Option::as_ref",
    "std::option::Option::as_mut",
    "std::option::Option::as_deref",
    "std::option::Option::as_deref_mut",
    "std::pin::Pin::get_mut",
    "std::pin::Pin::as_mut",
    "std::pin::Pin::new",
    "std::pin::Pin::get_ref",
    "std::pin::Pin::into_inner",
    "parking_lot::lock_api::Mutex::lock",
    "parking_lot::lock_api::RwLock::read",
    "parking_lot::lock_api::RwLock::write",
    "lock_api::Mutex::lock",
    "lock_api::RwLock::read",
    "lock_api::RwLock::write",
    "std::num::NonZero::get",
    "std::sync::Arc::as_ref",
    "std::boxed::Box::as_mut",
    "std::boxed::Box::as_ref",
    "std::convert::TryInto::try_into",
    "std::convert::TryFrom::try_from",
    "std::iter::IntoIterator::into_iter",
    "std::borrow::ToOwned::to_owned",
}

# value-preserving (numerically) callees, used by value-oriented rules (not by field-identity ones)
VALUE_PRESERVING = {
    "std::convert::Into::into",
    "std::convert::From::from",
    "std::clone::Clone::clone",
    "std::num::NonZero::get",
}


class Trace:
    """root: tuple describing where the walk stopped; fields: 'Owner.field' list root->value;
    steps: the items walked (for reports)"""

    __slots__ = ("root", "fields", "variants", "steps", "casts")

    def __init__(self, root, fields, variants, steps, casts):
        self.root = root
        self.fields = fields
        self.variants = variants
        self.steps = steps
        self.casts = casts

    @property
    def kind(self):
        return self.root[0]

    @property
    def last_field(self):
        return self.fields[-1] if self.fields else None

    def has_field(self, f):
        return f in self.fields

    def ends_with(self, *fs):
        n = len(fs)
        return len(self.fields) >= n and tuple(self.fields[-n:]) == tuple(fs)

    @property
    def call(self):
        return self.root[1] if self.root[0] == "call" else None

    @property
    def callee(self):
        return self.root[1].resolved if self.root[0] == "call" else None

    @property
    def const(self):
        return self.root[1] if self.root[0] == "const" else None

    def key(self):
        """identity of the traced value inside one body (hashable): two operands with equal keys denote the same value source.
        Unlike describe() it distinguishes two different locals / two calls of the same function."""
        r = self.root
        k = r[0]
        if k in ("param", "multi", "undef"):
            rid = r[1]
        elif k == "upvar":
            rid = r[1]
        elif k == "const":
            rid = repr(r[1])
        elif k in ("call", "rv", "other"):
            rid = (r[1].bb, r[1].idx)
        else:
            rid = None
        return (k, rid, tuple(self.fields))

    def describe(self):
        r = self.root
        k = r[0]
        if k == "param":
            base = "param#%s" % r[1]
        elif k == "upvar":
            base = "upvar:%s" % r[1]
        elif k == "const":
            base = repr(r[1])
        elif k == "call":
            base = "call:%s" % short_callee(r[1].resolved)
        elif k == "rv":
            base = "expr:%r" % r[1].rv
        elif k == "multi":
            base = "local"  # no names: a description must not change when a variable is renamed
        else:
            base = k
        if self.fields:
            return base + "." + ".".join(self.fields)
        return base

    def __repr__(self):
        return "<Trace %s>" % self.describe()


def short_callee(c):
    if c is None:
        return "?"
    c = re.sub(r"<([^<>]*?) as ([^<>]*?)>", lambda m: "<%s as %s>" % (m.group(1).split("::")[-1], m.group(2).split("::")[-1]), c)
    parts = c.split("::")
    if len(parts) >= 2:
        return "::".join(parts[-2:])
    return c


def _strip_ty(ty):
    """'&mut stream_dispatch::VirtualSocket<T, Env>' -> 'stream_dispatch::VirtualSocket'"""
    t = ty.strip()
    changed = True
    while changed:
        changed = False
        for pre in ("&mut ", "&", "*mut ", "*const "):
            if t.startswith(pre):
                t = t[len(pre):].strip()
                changed = True
        m = re.match(r"^'[a-z_]+ (.*)$", t)
        if m:
            t = m.group(1)
            changed = True
        for w in ("std::sync::Arc<", "std::boxed::Box<", "std::pin::Pin<", "std::rc::Rc<"):
            if t.startswith(w) and t.endswith(">"):
                t = t[len(w):-1]
                # Box<T, A>
                depth = 0
                for i, ch in enumerate(t):
                    if ch == "<":
                        depth += 1
                    elif ch == ">":
                        depth -= 1
                    elif ch == "," and depth == 0:
                        t = t[:i]
                        break
                changed = True
    i = t.find("<")
    if i > 0:
        t = t[:i]
    return t


def resolve_field_chain(facts, root_ty, names):
    """names: ['timers','retransmit'] from root type -> ['VirtualSocket.timers','Timers.retransmit']"""
    out = []
    ty = _strip_ty(root_ty)
    for n in names:
        adt = facts.adts.get(ty)
        owner = short_owner(ty) if adt else "?"
        out.append("%s.%s" % (owner, n))
        nxt = None
        if adt:
            for v in adt["variants"]:
                for f in v["fields"]:
                    if f["name"] == n:
                        nxt = f["ty"]
        ty = _strip_ty(nxt) if nxt else "?"
    return out


def upvar_fields(body, upvar):
    """'*self.timers.retransmit' -> (rootname 'self', ['VirtualSocket.timers','Timers.retransmit'])"""
    s = upvar.lstrip("*")
    s = s.replace("(", "").replace(")", "")
    parts = s.split(".")
    rootname = parts[0].lstrip("*")
    names = [p.lstrip("*") for p in parts[1:]]
    # find the root variable type in the ancestor chain
    facts = body.facts
    anc = facts.body(body.parent) if body.parent else None
    root_ty = None
    while anc is not None and root_ty is None:
        for l in anc.locals:
            if l["name"] == rootname:
                root_ty = l["ty"]
                break
        if root_ty is None:
            for uv in anc.upvars:
                # the ancestor itself captured it
                if uv.lstrip("*").split(".")[0] == rootname:
                    break
            anc = facts.body(anc.parent) if anc.parent else None
    if root_ty is None or not names:
        return rootname, ["?.%s" % n for n in names]
    return rootname, resolve_field_chain(facts, root_ty, names)


def place_fields(body, place):
    """field path of a Place, expanding closure upvar pseudo-fields into real field chains.
    returns (fields, variants, upvar_root or None)"""
    fields = []
    variants = []
    upvar_root = None
    for p in place.proj:
        if isinstance(p, list):
            if p[0] == "f":
                if p[1] == "upvar":
                    rootname, chain = upvar_fields(body, p[2])
                    upvar_root = rootname
                    fields.extend(chain)
                else:
                    fields.append(field_name(p[1], p[2]))
            elif p[0] == "v":
                variants.append(p[1])
    return fields, variants, upvar_root


def trace(body, x, through_casts=True, extra_transparent=(), max_steps=64):
    """x: Operand | Place.  See module docstring."""
    t = _trace0(body, x, through_casts, extra_transparent, max_steps)
    # projections that were appended after the walk reached a fresh aggregate: keep descending
    for _ in range(6):
        if t.kind == "rv" and t.fields and t.root[1].rv.kind == "agg" and t.root[1].rv.j["ak"] in ("tuple", "adt"):
            rv = t.root[1].rv
            sel = None
            f0 = t.fields[0]
            if rv.j["ak"] == "tuple" and f0.startswith("tuple."):
                try:
                    sel = int(f0.split(".")[1])
                except ValueError:
                    sel = None
            elif rv.j["ak"] == "adt":
                nm = f0.rsplit(".", 1)[-1]
                own = f0.rsplit(".", 1)[0]
                adt_short = short_owner(rv.j["adt"] + ("::" + rv.j["variant"] if rv.j.get("is_enum") else ""))
                if nm in rv.j.get("fields", []) and (own == adt_short or own.split("::")[-1] == adt_short.split("::")[-1]):
                    sel = rv.j["fields"].index(nm)
            if sel is None or sel >= len(rv.ops):
                break
            op = rv.ops[sel]
            rest = t.fields[1:]
            if op.kind == "const":
                return Trace(("const", op), rest, t.variants, t.steps, t.casts)
            sub = _trace0(body, op, through_casts, extra_transparent, max_steps)
            t = Trace(sub.root, sub.fields + rest, sub.variants + t.variants, t.steps + sub.steps, t.casts + sub.casts)
        else:
            break
    return t


def _trace0(body, x, through_casts=True, extra_transparent=(), max_steps=64):
    if isinstance(x, Operand):
        if x.kind == "const":
            return Trace(("const", x), [], [], [], [])
        place = x.place
    else:
        place = x
    fields = []
    variants = []
    steps = []
    casts = []
    for _ in range(max_steps):
        f, v, upvar_root = place_fields(body, place)
        fields = f + fields
        variants = v + variants
        l = place.local
        if upvar_root is not None and l == 1 and body.kind == "closure":
            return Trace(("upvar", upvar_root), fields, variants, steps, casts)
        if body.is_param(l):
            return Trace(("param", l, body.local_name(l)), fields, variants, steps, casts)
        d = body.unique_def(l)
        if d is None:
            defs = body.all_defs(l)
            if not defs:
                return Trace(("undef", l, body.local_name(l)), fields, variants, steps, casts)
            # `(x as Some).0...` of a local assigned `None` here and `Some(..)` there: only the definition
            # building that variant can be the one projected
            if fields and "::" in fields[0] and "." in fields[0]:
                owner_variant = fields[0].rsplit(".", 1)[0].split("::")[-1]
                def _eff(x):
                    for _i in range(3):
                        if isinstance(x, Stmt) and x.rv.kind == "use" and x.rv.ops[0].place is not None and x.rv.ops[0].place.is_local:
                            y = body.unique_def(x.rv.ops[0].place.local)
                            if y is None:
                                return x
                            x = y
                        else:
                            return x
                    return x
                effs = [_eff(x) for x in defs]
                cands = [x for x in effs if isinstance(x, Stmt) and x.rv.kind == "agg" and x.rv.j.get("is_enum") and x.rv.j.get("variant") == owner_variant]
                others_ok = all((isinstance(x, Stmt) and x.rv.kind == "agg" and x.rv.j.get("is_enum")) for x in effs)
                if not others_ok:
                    cands = []
                if len(cands) == 1:
                    nm = fields[0].rsplit(".", 1)[1]
                    names = cands[0].rv.j.get("fields", [])
                    if nm in names and names.index(nm) < len(cands[0].rv.ops):
                        op = cands[0].rv.ops[names.index(nm)]
                        rest = fields[1:]
                        steps.append(cands[0])
                        if op.kind == "const":
                            return Trace(("const", op), rest, variants, steps, casts)
                        sub = _trace0(body, op, through_casts, extra_transparent, max_steps - 1)
                        return Trace(sub.root, sub.fields + rest, sub.variants + variants, steps + sub.steps, casts + sub.casts)
            return Trace(("multi", l, body.local_name(l), defs), fields, variants, steps, casts)
        # a local that is a COPY of something and is then written through a field projection (`let mut h = msg.header; h.wnd_size = x;`) is no longer
        # that something: when the path being followed overlaps a partial write, stop here with the copy and the partial writes as its definitions
        if isinstance(d, Stmt) and d.rv.kind == "use" and not getattr(d, "is_tracing", False):
            pws = [w for w in body.defs()[1].get(l, ()) if not getattr(w, "is_tracing", False)]
            if pws:
                mine = [f_ for f_ in fields if not f_.startswith("tuple.")]
                hit = []
                for w in pws:
                    wf, _wv, _wu = place_fields(body, w.place if isinstance(w, Stmt) else w.dest)
                    k = min(len(wf), len(mine))
                    if wf[:k] == mine[:k]:
                        hit.append(w)
                if hit:
                    return Trace(("multi", l, body.local_name(l), [d] + hit), fields, variants, steps, casts)
        steps.append(d)
        if isinstance(d, Stmt):
            rv = d.rv
            if rv.kind == "use":
                op = rv.ops[0]
                if op.kind == "const":
                    return Trace(("const", op), fields, variants, steps, casts)
                place = op.place
                continue
            if rv.kind == "ref" or rv.kind == "rawptr":
                place = rv.place
                continue
            if rv.kind == "agg" and fields and rv.j["ak"] in ("tuple", "adt"):
                # projection into a freshly built aggregate: continue with the selected operand
                sel = None
                if rv.j["ak"] == "tuple" and fields[0].startswith("tuple."):
                    try:
                        sel = int(fields[0].split(".")[1])
                    except ValueError:
                        sel = None
                elif rv.j["ak"] == "adt" and not rv.j.get("is_enum"):
                    nm = fields[0].split(".")[-1]
                    if nm in rv.j.get("fields", []) and short_owner(rv.j["adt"]) == fields[0].rsplit(".", 1)[0]:
                        sel = rv.j["fields"].index(nm)
                if sel is not None and sel < len(rv.ops):
                    op = rv.ops[sel]
                    fields = fields[1:]
                    if op.kind == "const":
                        if fields:
                            return Trace(("const", op), fields, variants, steps, casts)
                        return Trace(("const", op), fields, variants, steps, casts)
                    # restart the walk at the operand, keeping the remaining outer fields
                    sub = _trace0(body, op, through_casts, extra_transparent, max_steps - 1)
                    return Trace(sub.root, sub.fields + fields, sub.variants + variants, steps + sub.steps, casts + sub.casts)
            if rv.kind == "cast" and through_casts:
                op = rv.ops[0]
                casts.append((rv.j.get("from"), rv.j.get("ty")))
                if op.kind == "const":
                    return Trace(("const", op), fields, variants, steps, casts)
                place = op.place
                continue
            return Trace(("rv", d), fields, variants, steps, casts)
        # call / yield
        if d.kind == "call":
            c = d.callee
            if (c in TRANSPARENT or c in extra_transparent or d.resolved in extra_transparent) and d.args:
                a = d.args[0]
                if a.kind == "const":
                    return Trace(("const", a), fields, variants, steps, casts)
                place = a.place
                continue
            # a private helper that hands back (a conversion of) one of its parameters, e.g.
            # `fn be_u16(b: &[u8]) -> u16 { u16::from_be_bytes(b.try_into().unwrap()) }` under the caller's transparency set
            pi = _passthrough_param(body.facts, d, through_casts, extra_transparent)
            if pi is not None and pi - 1 < len(d.args):
                a = d.args[pi - 1]
                if a.kind == "const":
                    return Trace(("const", a), fields, variants, steps, casts)
                place = a.place
                continue
            return Trace(("call", d), fields, variants, steps, casts)
        return Trace(("other", d), fields, variants, steps, casts)
    return Trace(("deep",), fields, variants, steps, casts)


_PASS_MEMO = {}
_PASS_BUSY = set()


def _passthrough_param(facts, call, through_casts, extra_transparent):
    """index of the parameter a crate-local fn returns unchanged (through the caller's transparent callees), else None"""
    if not call.j.get("res_local") or not call.resolved:
        return None
    key = (id(facts), call.resolved, bool(through_casts), tuple(sorted(extra_transparent)))
    if key in _PASS_MEMO:
        return _PASS_MEMO[key]
    if key in _PASS_BUSY:
        return None
    hb = facts.body(call.resolved)
    res = None
    if hb is not None and hb.kind != "closure" and len(hb.blocks) <= 12:
        _PASS_BUSY.add(key)
        try:
            t = _trace0(hb, Place({"l": 0, "p": []}), through_casts, extra_transparent, 32)
        finally:
            _PASS_BUSY.discard(key)
        if t.kind == "param" and not t.fields and not t.variants:
            res = t.root[1]
    _PASS_MEMO[key] = res
    return res


def receiver_field(body, call, argi=0):
    """last 'Owner.field' of the receiver (arg argi) of a call, or None"""
    if len(call.args) <= argi:
        return None
    return trace(body, call.args[argi]).last_field


def value_sources(body, x, depth=0, seen=None, through=VALUE_PRESERVING):
    """set of leaf descriptions contributing to a value (flow-insensitive over multi-def locals):
    ('field', 'Owner.f'), ('param', name), ('const', v), ('call', callee), ('upvar', name)"""
    if seen is None:
        seen = set()
    t = trace(body, x)
    out = set()
    k = t.kind
    if t.fields and not (k == "rv" and all(f.startswith("tuple.") for f in t.fields)):
        out.add(("field", t.last_field))
        return out
    if k == "param":
        out.add(("param", t.root[1]))
    elif k == "upvar":
        o = upvar_origin(body, t.root[1])
        if o is not None and o[0] == "param":
            out.add(("upvar-param", o[1]))
        else:
            out.add(("upvar", t.root[1]))
    elif k == "const":
        c = t.root[1]
        out.add(("const", c.const_item or c.scalar))
    elif k == "call":
        call = t.root[1]
        out.add(("call", call.resolved))
    elif k == "rv":
        st = t.root[1]
        key = ("rv", st.bb, st.idx)
        if key in seen or depth > 12:
            return out
        seen.add(key)
        if st.rv.kind == "agg":
            out.add(("agg", st.rv.j.get("adt") or st.rv.j.get("ak")))
        for o in st.rv.ops:
            out |= value_sources(body, o, depth + 1, seen, through)
    elif k == "multi":
        key = ("multi", t.root[1])
        if key in seen or depth > 12:
            return out
        seen.add(key)
        for d in t.root[3]:
            if isinstance(d, Stmt):
                if d.rv.kind == "ref":
                    out |= value_sources(body, d.rv.place, depth + 1, seen, through)
                for o in d.rv.ops:
                    out |= value_sources(body, o, depth + 1, seen, through)
            elif d.kind == "call":
                out.add(("call", d.resolved))
    return out


def upvar_origin(body, name):
    """where does a captured variable come from?  ('param', index, fn body) if it is a parameter of an enclosing fn/closure,
    ('local', local index, that body) if it is a local of an enclosing body; None if not found.  Names are used only as the
    link between the closure and its parent (both are renamed together), never as an anchor."""
    facts = body.facts
    anc = facts.body(body.parent) if body.parent else None
    while anc is not None:
        for i, l in enumerate(anc.locals):
            if l["name"] == name:
                if anc.is_param(i):
                    # the closure environment itself is param 1 of a closure body: user params start at 2 there
                    return ("param", i, anc)
                # `async fn` bodies re-bind every captured parameter to a local of the same name first
                from .facts import Place as _P
                t = trace(anc, _P({"l": i, "p": []}))
                if t.kind == "upvar" and not t.fields and anc.parent:
                    up = upvar_origin(anc, t.root[1])
                    if up is not None:
                        return up
                return ("local", i, anc)
        anc = facts.body(anc.parent) if anc.parent else None
    return None


def upvar_trace(body, name):
    """Trace of the captured variable's value in the body that owns it (None if it is not a single-definition local / param)"""
    o = upvar_origin(body, name)
    if o is None:
        return None
    kind, idx, owner = o
    from .facts import Place
    return trace(owner, Place({"l": idx, "p": []}))
