"""Event matchers over MIR items, shared by the rules (E1 census / E3 events)."""
from .facts import Stmt, Term, Operand, Place
from .prov import trace, value_sources, short_callee, place_fields

ADD_OPS = {"Add", "AddWithOverflow", "AddUnchecked"}
SUB_OPS = {"Sub", "SubWithOverflow", "SubUnchecked"}
MUL_OPS = {"Mul", "MulWithOverflow", "MulUnchecked"}


def written_field(body, it):
    """'Owner.field' written by an Assign statement (last field of the destination), else None.
    Closure upvar destinations are expanded to the captured field chain."""
    if not isinstance(it, Stmt):
        return None
    pl = it.place
    if not pl.proj:
        return None
    f, _, _ = place_fields(body, pl)
    return f[-1] if f else None


class FieldUpdate:
    __slots__ = ("field", "op", "amount", "stmt", "binstmt")

    def __init__(self, field, op, amount, stmt, binstmt=None):
        self.field = field
        self.op = op  # '+=', '-=', '*=', '='
        self.amount = amount  # Operand (for '=' the assigned operand if rvalue is Use)
        self.stmt = stmt
        self.binstmt = binstmt


def field_update(body, it):
    """Recognise `x.f = v`, `x.f += v`, `x.f -= v`, `x.f *= v` (with or without overflow checks)."""
    f = written_field(body, it)
    if f is None:
        return None
    rv = it.rv
    binst = None
    if rv.kind == "bin":
        binrv = rv
        binst = it
    elif rv.kind == "use" and rv.ops[0].place is not None:
        t = trace(body, rv.ops[0], through_casts=False)
        if t.kind == "rv" and t.root[1].rv.kind == "bin" and (not t.fields or t.fields == ["tuple.0"]):
            binrv = t.root[1].rv
            binst = t.root[1]
        else:
            return FieldUpdate(f, "=", rv.ops[0], it)
    elif rv.kind == "use":
        return FieldUpdate(f, "=", rv.ops[0], it)
    else:
        return FieldUpdate(f, "=", None, it)
    a, b = binrv.ops
    op = binrv.op
    kind = "+=" if op in ADD_OPS else "-=" if op in SUB_OPS else "*=" if op in MUL_OPS else None
    if kind is None:
        return FieldUpdate(f, "=", None, it, binst)

    def reads_same(o):
        if o.place is None:
            return False
        ff, _, _ = place_fields(body, o.place)
        if ff and ff[-1] == f:
            return True
        t = trace(body, o, through_casts=False)
        return t.last_field == f

    if reads_same(a):
        return FieldUpdate(f, kind, b, it, binst)
    if kind in ("+=", "*=") and reads_same(b):
        return FieldUpdate(f, kind, a, it, binst)
    return FieldUpdate(f, "=", None, it, binst)


def local_update(body, it):
    """`L = L + x` / `L = L - x` on a bare local (e.g. `payload_size += segment.payload_size`):
    returns (local, op, amount Operand) or None"""
    if not isinstance(it, Stmt) or not it.place.is_local:
        return None
    rv = it.rv
    binrv = None
    if rv.kind == "bin":
        binrv = rv
    elif rv.kind == "use" and rv.ops[0].place is not None and rv.ops[0].place.fields == ["tuple.0"]:
        d = body.unique_def(rv.ops[0].place.local)
        if isinstance(d, Stmt) and d.rv.kind == "bin":
            binrv = d.rv
    if binrv is None:
        return None
    op = binrv.op
    kind = "+=" if op in ADD_OPS else "-=" if op in SUB_OPS else None
    if kind is None:
        return None
    a, b = binrv.ops
    l = it.place.local
    if a.place is not None and a.place.is_local and a.place.local == l:
        return (l, kind, b)
    if kind == "+=" and b.place is not None and b.place.is_local and b.place.local == l:
        return (l, kind, a)
    return None


def call_matches(term, names):
    """names: iterable of callee paths or suffixes ('VecDeque::pop_back')"""
    if not isinstance(term, Term) or term.kind != "call":
        return False
    c = term.callee or ""
    r = term.resolved or ""
    for n in names:
        if c == n or r == n or c.endswith("::" + n) or r.endswith("::" + n):
            return True
    return False


def call_on_field(body, term, names, field, argi=0):
    """call to one of `names` whose receiver (arg argi) is (a view of) field `field`"""
    if not call_matches(term, names):
        return False
    if len(term.args) <= argi:
        return False
    t = trace(body, term.args[argi])
    return t.last_field == field


def arg_trace(body, term, i, **kw):
    return trace(body, term.args[i], **kw)


def is_fresh_value(body, op):
    """a value built on the spot: an aggregate, Default::default(), a constructor call"""
    t = trace(body, op, through_casts=False)
    if t.fields:
        return False
    if t.kind == "rv":
        return t.root[1].rv.kind == "agg"
    if t.kind == "call":
        c = t.root[1].callee or ""
        return c.endswith("Default::default") or c.endswith("::new")
    if t.kind == "multi":
        ok = True
        for d in t.root[3]:
            if isinstance(d, Stmt):
                ok = ok and d.rv.kind == "agg"
            else:
                ok = False
        return ok
    return False


def extraction_root_call(body, it, extra=("std::ops::Try::branch", "std::option::Option::ok_or", "std::option::Option::ok_or_else")):
    """If `it` moves the payload out of an Option/ControlFlow (`x = move (y as Some).0`), return the
    call that produced y (looking through `?`), else None."""
    if not isinstance(it, Stmt) or it.rv.kind != "use":
        return None
    op = it.rv.ops[0]
    if op.kind != "move" or op.place is None:
        return None
    vs = op.place.variants()
    if not vs or vs[-1] not in ("Some", "Continue", "Ok"):
        return None
    # only a direct payload move (`.0` of the variant), not a deeper field
    t = trace(body, Place({"l": op.place.local, "p": []}), extra_transparent=extra)
    if t.kind == "call":
        return t.root[1]
    return None


def unwrap_root_call(body, term):
    """for `Option::unwrap/expect(x)`: the call that produced x"""
    if not call_matches(term, ("Option::unwrap", "Option::expect", "Option::unwrap_unchecked")):
        return None
    t = trace(body, term.args[0])
    if t.kind == "call" and not t.fields:
        return t.root[1]
    return None


def sources_str(body, op):
    out = []
    for s in sorted(value_sources(body, op), key=str):
        if s[0] == "call":
            out.append("call:" + short_callee(s[1]))
        elif s[0] in ("param", "upvar-param"):
            out.append("%s#%s" % (s[0], s[1]))
        else:
            out.append("%s:%s" % (s[0], s[1]))
    return ",".join(out)
