"""E8 PANIC: census of panic-capable operations on the call graph reachable from given entry points."""
from collections import deque
from .facts import Stmt, Term
from .prov import trace, short_callee
from .events import call_matches

PANIC_CALLS = (
    "std::option::Option::unwrap", "std::option::Option::expect", "std::result::Result::unwrap", "std::result::Result::expect",
    "std::result::Result::unwrap_err", "std::result::Result::expect_err",
    "core::panicking::panic", "core::panicking::panic_fmt", "core::panicking::panic_display", "core::panicking::panic_explicit",
    "core::panicking::unreachable_display", "core::panicking::assert_failed", "core::panicking::panic_const", "std::rt::begin_panic",
    "core::panicking::panic_nounwind", "std::rt::panic_fmt", "core::panicking::panic_str_2015", "std::process::abort", "std::process::exit",
)
INDEX_CALLS = ("std::ops::Index::index", "std::ops::IndexMut::index_mut")
RANGE_CALLS = ("VecDeque::range", "VecDeque::range_mut", "VecDeque::drain", "Vec::drain", "core::slice::copy_from_slice", "core::slice::split_at", "core::slice::split_at_mut",
               "VecDeque::swap", "Vec::remove", "Vec::swap_remove", "Vec::insert", "VecDeque::insert", "core::slice::chunks", "core::slice::chunks_exact", "core::slice::windows",
               "core::slice::copy_within", "core::slice::clone_from_slice", "Vec::split_off", "String::split_off", "core::str::split_at")
TIME_CALLS = ("<std::time::Instant as std::ops::Add<std::time::Duration>>::add", "<std::time::Instant as std::ops::Sub<std::time::Duration>>::sub",
              "<std::time::Duration as std::ops::Mul<u32>>::mul", "<std::time::Duration as std::ops::Add>::add", "<std::time::Duration as std::ops::Sub>::sub",
              "<std::time::Duration as std::ops::Div<u32>>::div", "<std::time::Instant as std::ops::AddAssign<std::time::Duration>>::add_assign",
              "<tokio::time::Instant as std::ops::Add<std::time::Duration>>::add", "<std::time::Duration as std::ops::AddAssign>::add_assign")


def reachable_bodies(facts, entries):
    """local bodies reachable from `entries` through resolved local calls, created closures, and
    trait-object calls (resolved to every local impl of the trait method)"""
    # trait method -> local impl bodies
    impls = {}
    for im in facts.impls:
        tr = im.get("trait")
        if not tr:
            continue
        for it in im.get("items", []):
            name = it.split("::")[-1]
            impls.setdefault((tr, name), []).append(it)
    seen = set()
    parent = {}
    dq = deque()
    for e in entries:
        if facts.body(e) is not None and e not in seen:
            seen.add(e)
            parent[e] = None
            dq.append(e)
    while dq:
        n = dq.popleft()
        b = facts.body(n)
        if b is None:
            continue
        nxt = []
        for it in b.items():
            if isinstance(it, Term) and it.kind == "call":
                if it.j.get("res_local") and it.resolved:
                    nxt.append(it.resolved)
                elif it.j.get("local") and it.callee and it.j.get("trait"):
                    # unresolved call of a local trait method (dyn / generic): all local impls
                    for x in impls.get((it.j["trait"], it.callee.split("::")[-1]), []):
                        nxt.append(x)
            elif isinstance(it, Stmt) and it.rv.kind == "agg" and it.rv.j["ak"] in ("closure", "coroutine", "coroutine_closure"):
                nxt.append(it.rv.j["closure"])
        # closures defined inside (async blocks are coroutine bodies with parent = n)
        for x in nxt:
            if x not in seen and facts.body(x) is not None:
                seen.add(x)
                parent[x] = n
                dq.append(x)
    return seen, parent


def call_chain(parent, n, maxn=8):
    out = []
    while n is not None and len(out) < maxn:
        out.append(n)
        n = parent.get(n)
    return list(reversed(out))


def owner_fn_name(facts, name):
    b = facts.body(name)
    while b is not None and b.kind == "closure" and b.parent:
        name = b.parent
        b = facts.body(name)
    return name


def stable_desc(body, op, depth=0):
    """description of a value without local numbers (keys must survive unrelated edits)"""
    t = trace(body, op)
    if t.fields:
        real = [f for f in t.fields if not f.startswith("tuple.")]
        if real:
            return real[-1]
    k = t.kind
    if k == "const":
        c = t.root[1]
        if c.const_item:
            return "const:" + c.const_item.split("::")[-1]
        return "const:%s" % (c.scalar,)
    # no variable names in keys: renaming a local or a parameter must not change them
    if k == "param":
        return "param#%s" % t.root[1]
    if k == "upvar":
        return "upvar"
    if k in ("multi", "undef"):
        return "local"
    if k == "call":
        return "call:" + short_callee(t.root[1].resolved)
    if k == "rv" and depth < 4:
        rv = t.root[1].rv
        if rv.kind == "bin":
            return "%s(%s)" % (rv.op.replace("WithOverflow", ""), ",".join(stable_desc(body, o, depth + 1) for o in rv.ops))
        if rv.kind in ("cast", "use", "un"):
            return stable_desc(body, rv.ops[0], depth + 1)
        if rv.kind == "agg":
            return "agg:" + (rv.j.get("adt") or rv.j.get("ak")).split("::")[-1]
        return rv.kind
    return k


class PanicSite:
    def __init__(self, body, item, kind, detail):
        self.body = body
        self.item = item
        self.kind = kind
        self.detail = detail
        self.fn = owner_fn_name(body.facts, body.name)

    @property
    def key(self):
        return (self.fn, self.kind, self.detail)


def collect(body, include_overflow=False):
    """panic-capable operations of one body (tracing/log macro expansions excluded: they only format)"""
    out = []
    for it in body.items():
        if not isinstance(it, Term):
            continue
        if it.kind == "assert":
            msg = it.j.get("msg", "")
            if msg.startswith("overflow"):
                if include_overflow:
                    out.append(PanicSite(body, it, "overflow", msg.split(":")[1]))
                continue
            if msg.startswith("resumed"):
                continue
            if msg == "bounds":
                idx = it.j.get("index")
                d = "?"
                if idx:
                    from .facts import Operand
                    o = Operand(idx)
                    d = "index=%s" % stable_desc(body, o)
                out.append(PanicSite(body, it, "bounds", d))
            else:
                out.append(PanicSite(body, it, msg, ""))
            continue
        if it.kind != "call":
            continue
        c = it.resolved or ""
        cal = it.callee or ""
        if it.is_tracing and not (c in PANIC_CALLS):
            continue
        if c in PANIC_CALLS or cal in PANIC_CALLS or c.startswith("core::panicking::") or c.startswith("std::rt::begin_panic"):
            if it.is_tracing:
                continue
            if c.endswith("unwrap") or c.endswith("expect") or c.endswith("unwrap_err"):
                out.append(PanicSite(body, it, c.split("::")[-1], stable_desc(body, it.args[0])))
            else:
                out.append(PanicSite(body, it, "panic", short_callee(c)))
            continue
        if c in ("bitvec::slice::BitSlice::set", "bitvec::slice::BitSlice::replace", "bitvec::slice::BitSlice::swap") or cal in ("bitvec::slice::BitSlice::set", "bitvec::slice::BitSlice::replace"):
            out.append(PanicSite(body, it, "bitset", stable_desc(body, it.args[0])))
            continue
        if cal in INDEX_CALLS:
            ity = it.j.get("argtys", ["", ""])[1] if len(it.j.get("argtys", [])) > 1 else ""
            ity = ity.replace("std::ops::", "")
            out.append(PanicSite(body, it, "index", "%s[%s]" % (stable_desc(body, it.args[0]), ity)))
            continue
        if any(c == r or c.endswith("::" + r) for r in RANGE_CALLS):
            out.append(PanicSite(body, it, "range", "%s.%s" % (stable_desc(body, it.args[0]), c.split("::")[-1])))
            continue
        if c in TIME_CALLS or (it.callee_full or "") in TIME_CALLS:
            out.append(PanicSite(body, it, "time-arith", short_callee(it.callee_full or c)))
            continue
    return out


# ---------------------------------------------------------------------------------- auto-discharge
from .facts import Operand, Place
from .flow import switch_cond, controlling_edges
from .bounds import Bounds, TOP


def container_key(t):
    """identity of a container for `index <= len(container)` arguments"""
    if t.last_field and not t.last_field.startswith("tuple."):
        return ("field", t.last_field)
    if t.kind == "param":
        return ("param", t.root[1]) + tuple(t.fields)
    if t.kind == "call":
        c = t.root[1]
        return ("call", c.bb, c.idx) + tuple(t.fields)
    if t.kind in ("multi", "undef"):
        return ("local", t.root[1]) + tuple(t.fields)
    if t.kind == "upvar":
        return ("upvar", t.root[1]) + tuple(t.fields)
    return None


def _const_val(body, op):
    """integer value of an operand if it is a literal / evaluated const item / cast of one"""
    t = trace(body, op)
    if t.kind == "const" and not t.fields:
        v = t.root[1].scalar
        return v if isinstance(v, int) else None
    return None


def len_of(body, op):
    """if `op` is `x.len()` / PtrMetadata(x): container_key of x"""
    t = trace(body, op, through_casts=False)
    if t.fields:
        return None
    if t.kind == "call" and (t.root[1].resolved or "").endswith("::len") and t.root[1].args:
        return container_key(trace(body, t.root[1].args[0]))
    if t.kind == "rv" and t.root[1].rv.kind == "un" and t.root[1].rv.op == "PtrMetadata":
        return container_key(trace(body, t.root[1].rv.ops[0]))
    return None


def guard_min_len(body, bb, ckey):
    """largest K such that every path to bb passed a test establishing len(container) >= K"""
    best = None
    for term, tgt, lab in controlling_edges(body, bb):
        c, neg = switch_cond(body, term)
        if c.kind != "bin" or c.op not in ("Lt", "Ge", "Le", "Gt"):
            continue
        truth = (lab[1] != 0) if lab[0] == "val" else (0 in lab[1])
        if neg:
            truth = not truth
        la, lb = len_of(body, c.a), len_of(body, c.b)
        ka, kb = _const_val(body, c.a), _const_val(body, c.b)
        k = None
        if la == ckey and kb is not None:
            # len OP K
            if (c.op == "Lt" and not truth) or (c.op == "Ge" and truth):
                k = kb
            elif (c.op == "Le" and not truth) or (c.op == "Gt" and truth):
                k = kb + 1
        elif lb == ckey and ka is not None:
            # K OP len
            if (c.op == "Gt" and not truth) or (c.op == "Le" and truth):
                k = ka
            elif (c.op == "Ge" and not truth) or (c.op == "Lt" and truth):
                k = ka + 1
        if k is not None and (best is None or k > best):
            best = k
    return best


def no_redefinition_reaches(body, ckey, bb):
    """for containers that are mutable locals (`buffer = &buffer[20..]`): the access must not be
    reachable from any definition other than the one dominating everything"""
    if ckey is None or ckey[0] != "local":
        return True
    l = ckey[1]
    defs = body.all_defs(l)
    dom = body.dominators()
    for d in defs:
        if d.bb in dom.get(bb, ()) and all(d.bb in dom.get(o.bb, ()) for o in defs):
            continue  # the initial definition
        if bb in body.reachable(d.bb):
            return False
    return True


def range_bounds(body, op):
    """for an operand that is a Range/RangeTo/RangeFrom/RangeFull aggregate: list of (which, Operand)"""
    t = trace(body, op)
    out = []
    aggs = []
    if t.kind == "rv" and t.root[1].rv.kind == "agg":
        aggs = [t.root[1]]
    elif t.kind == "multi":
        aggs = [d for d in t.root[3] if isinstance(d, Stmt) and d.rv.kind == "agg"]
        if len(aggs) != len(t.root[3]):
            return None
    else:
        return None
    for a in aggs:
        adt = a.rv.j.get("adt", "")
        if not adt.startswith("std::ops::Range"):
            return None
        for name, o in zip(a.rv.j.get("fields", []), a.rv.ops):
            out.append((name, o, a))
    return out


import re as _re


def slice_const_width(body, op, depth=0, at=None):
    """byte width of a slice operand when it is `x[a..b]` / `x[..b]` with literal bounds - in this fn, or, for a bare parameter of a
    private fn, at every one of its call sites (all must agree); or `x.get(a..a + n)` (through `?` / a match on Some) where the
    use site `at` is control-dependent on a match of that very n against a literal.  None if unknown."""
    t = trace(body, op, extra_transparent=("std::ops::Try::branch",))
    real = [f for f in t.fields if not f.startswith(("Option::", "ControlFlow::", "Result::"))]
    if t.kind == "call" and not real and (t.root[1].resolved or "").endswith("slice::get") and len(t.root[1].args) == 2 and at is not None:
        rb = range_bounds(body, t.root[1].args[1])
        if rb and {name for name, o, agg in rb} == {"start", "end"}:
            d = {name: lin(body, o) for name, o, agg in rb}
            if d["start"] is not None and d["end"] is not None:
                diff = {k_: d["end"][0].get(k_, 0) - d["start"][0].get(k_, 0) for k_ in set(d["end"][0]) | set(d["start"][0])}
                diff = {k_: v for k_, v in diff.items() if v}
                cst = d["end"][1] - d["start"][1]
                if len(diff) == 1 and list(diff.values()) == [1] and cst == 0:
                    atom = list(diff)[0]
                    # the width is one unsigned value n: is `at` reached only after n was matched against a literal?
                    for term, tgt, lab in controlling_edges(body, at.bb):
                        if term.kind == "switch" and lab[0] == "val" and term.op.place is not None:
                            ta = lin(body, term.op)
                            if ta is not None and ta[0] == {atom: 1} and ta[1] == 0:
                                return lab[1]
        return None
    if t.fields:
        return None
    if t.kind == "call" and (t.root[1].callee or "") in INDEX_CALLS and len(t.root[1].args) >= 2:
        rb = range_bounds(body, t.root[1].args[1])
        if not rb:
            return None
        vals = {name: _const_val(body, o) for name, o, agg in rb}
        if any(v is None for v in vals.values()):
            return None
        if set(vals) == {"start", "end"} and vals["end"] >= vals["start"]:
            return vals["end"] - vals["start"]
        if set(vals) == {"end"}:
            return vals["end"]
        return None
    if t.kind == "param" and body.kind != "closure" and depth < 2:
        sites = [(b2, c2) for b2 in body.facts.bodies() for c2 in b2.calls() if c2.resolved == body.name]
        ws = set()
        for b2, c2 in sites:
            i = t.root[1] - 1
            ws.add(slice_const_width(b2, c2.args[i], depth + 1) if i < len(c2.args) else None)
        if len(ws) == 1 and None not in ws:
            return ws.pop()
    return None


from .events import ADD_OPS, SUB_OPS


def lin(body, op, depth=0):
    """linear form of an unsigned integer operand over non-negative atoms: ({atom: coeff}, const), or None.
    atoms: ('len', container key) for x.len(), ('local', idx) for a mutable local, ('param', idx)"""
    if depth > 8:
        return None
    if isinstance(op, Operand) and op.kind == "const":
        v = op.scalar
        return ({}, v) if isinstance(v, int) else None
    t = trace(body, op, through_casts=False)
    if t.kind == "const" and not t.fields:
        v = t.root[1].scalar
        return ({}, v) if isinstance(v, int) else None
    if t.kind == "rv" and t.root[1].rv.kind == "bin" and (not t.fields or t.fields == ["tuple.0"]):
        rv = t.root[1].rv
        a, b_ = lin(body, rv.ops[0], depth + 1), lin(body, rv.ops[1], depth + 1)
        if a is None or b_ is None:
            return None
        if rv.op in ADD_OPS:
            d = dict(a[0])
            for k_, v_ in b_[0].items():
                d[k_] = d.get(k_, 0) + v_
            return (d, a[1] + b_[1])
        if rv.op in SUB_OPS and not b_[0]:
            return (dict(a[0]), a[1] - b_[1])
        return None
    if t.fields:
        return None
    if t.kind == "call" and (t.root[1].resolved or "").endswith("::len") and t.root[1].args:
        ck = container_key(trace(body, t.root[1].args[0]))
        return ({("len", ck): 1}, 0) if ck is not None else None
    if t.kind == "rv" and t.root[1].rv.kind == "un" and t.root[1].rv.op == "PtrMetadata":
        ck = container_key(trace(body, t.root[1].rv.ops[0]))
        return ({("len", ck): 1}, 0) if ck is not None else None
    if t.kind in ("multi", "undef"):
        return ({("local", t.root[1]): 1}, 0)
    if t.kind == "param":
        return ({("param", t.root[1]): 1}, 0)
    if t.kind in ("call", "rv") and depth < 8:
        return ({("val", t.key()): 1}, 0)  # an opaque unsigned value: the same computation is the same atom
    return None


def _stable(body, guard_term, access, atoms):
    """no atom that is a mutable local is redefined on a path from the guard to the access"""
    locs = [a[1] for a in atoms if a[0] == "local"]
    if not locs:
        return True
    fwd = set()
    for tgt, lab in body.edges(guard_term.bb):
        fwd |= body.reachable(tgt)
    for l in locs:
        for d in body.all_defs(l):
            if d.bb == access.bb and d.idx < access.idx and d.bb in fwd:
                return False
            if d.bb != access.bb and d.bb in fwd and access.bb in body.reachable(d.bb) and d.bb != guard_term.bb:
                return False
    return True


def guard_len_lower_bounds(body, bb, ck):
    """[(linear form G, guard terminator)] such that len(ck) >= G holds at bb by a controlling comparison"""
    from .flow import ordering
    out = []
    for term, tgt, lab in controlling_edges(body, bb):
        c, neg = switch_cond(body, term)
        if c.kind != "bin":
            continue
        truth = (lab[1] != 0) if lab[0] == "val" else (0 in lab[1])
        if neg:
            truth = not truth
        o = ordering(c, truth)
        if o is None:
            continue
        lo, hi, strict = o
        if len_of(body, hi) == ck:
            g = lin(body, lo)
            if g is not None:
                out.append(((g[0], g[1] + (1 if strict else 0)), term))
    return out


def _dominates_form(g, need):
    """g - need >= 0 for all non-negative atom values"""
    for k_ in set(g[0]) | set(need[0]):
        if g[0].get(k_, 0) - need[0].get(k_, 0) < 0:
            return False
    return g[1] - need[1] >= 0


def linear_discharge(body, access, ck, need, what):
    """need: linear form that must be <= len(ck).  Returns a reason or None"""
    if need is None:
        return None
    for g, term in guard_len_lower_bounds(body, access.bb, ck):
        if _dominates_form(g, need) and _stable(body, term, access, set(g[0]) | set(need[0])) and no_redefinition_reaches(body, ck, access.bb):
            return "%s: the dominating length test gives len >= %s, which covers %s for all values" % (what, _fmt_lin(g), _fmt_lin(need))
    return None


def _fmt_lin(f):
    parts = ["%s%s" % ("" if c == 1 else "%d*" % c, "len(..)" if a[0] == "len" else "%s#%s" % (a[0], a[1])) for a, c in sorted(f[0].items(), key=str)]
    if f[1] or not parts:
        parts.append(str(f[1]))
    return " + ".join(parts)


def _bit_capacity(body, recv_op):
    """number of bits of the fixed BitArray<[u8; N]> a BitSlice receiver is a view of (None if unknown)"""
    recv = trace(body, recv_op)
    tys = [body.local_ty(st.place.local) for st in recv.steps if isinstance(st, Stmt) and st.place.is_local]
    if recv.kind in ("multi", "undef", "param"):
        tys.append(body.local_ty(recv.root[1]))
    if recv.kind == "call" and recv.root[1].dest is not None:
        tys.append(body.local_ty(recv.root[1].dest.local))
    tys += [a for st in recv.steps if isinstance(st, Term) for a in st.j.get("argtys", [])]
    if recv.kind == "upvar":
        from .prov import upvar_origin
        o = upvar_origin(body, recv.root[1])
        if o is not None:
            tys.append(o[2].local_ty(o[1]))
    for ty in tys:
        m = _re.search(r"BitArray<\[u8; (\d+)\]", ty or "")
        if m:
            return 8 * int(m.group(1))
    return None


def _take_while_bound(body, iter_op):
    """K if `iter_op` is (an into_iter of) `x.take_while(|i| *i < K)` (K + 1 for `<=`), else None"""
    src = trace(body, iter_op, extra_transparent=("std::iter::IntoIterator::into_iter",))
    cands = [src.root[1]] if src.kind == "call" else [d for d in src.root[3] if isinstance(d, Term)] if src.kind == "multi" else []
    for cnd in cands:
        tw = cnd
        if tw.kind == "call" and (tw.callee or "").endswith("IntoIterator::into_iter") and tw.args:
            t2 = trace(body, tw.args[0], extra_transparent=())
            tw = t2.root[1] if t2.kind == "call" else tw
        if tw.kind == "call" and (tw.callee or "").endswith("Iterator::take_while") and len(tw.args) == 2:
            ct = trace(body, tw.args[1])
            if ct.kind == "rv" and ct.root[1].rv.kind == "agg" and ct.root[1].rv.j.get("ak") == "closure":
                cb = body.facts.body(ct.root[1].rv.j["closure"])
                if cb is None:
                    continue
                for st in cb.stmts():
                    if st.place.is_local and st.place.local == 0 and st.rv.kind in ("bin", "use"):
                        rv = st.rv if st.rv.kind == "bin" else None
                        if rv is None and st.rv.ops and st.rv.ops[0].place is not None:
                            d = cb.unique_def(st.rv.ops[0].place.local)
                            rv = d.rv if isinstance(d, Stmt) and d.rv.kind == "bin" else None
                        if rv is not None and rv.op in ("Lt", "Le") and trace(cb, rv.ops[0]).kind == "param":
                            kv = _const_val(cb, rv.ops[1])
                            if kv is not None:
                                return kv if rv.op == "Lt" else kv + 1
    return None


def try_discharge(body, site, bounds):
    """returns a reason string if the site provably cannot panic by one of the automatic patterns, else None"""
    it = site.item
    k = site.kind
    if k in ("div_by_zero", "rem_by_zero"):
        t = trace(body, Operand(it.j["cond"]), through_casts=False)
        if t.kind == "rv" and t.root[1].rv.kind == "bin" and t.root[1].rv.op == "Eq":
            d = t.root[1].rv.ops[0]
            v = _const_val(body, d)
            if v is not None and v != 0:
                return "divisor is the non-zero constant %d" % v
            dt = trace(body, d)
            if any(isinstance(st, Term) and st.kind == "call" and (st.resolved or "").endswith("NonZero::get") for st in dt.steps) or (dt.kind == "call" and (dt.root[1].resolved or "").endswith("NonZero::get")):
                return "divisor is NonZero::get()"
        return None
    if k == "bounds":
        idx = Operand(it.j["index"])
        ln = Operand(it.j["len"])
        ck = len_of(body, ln)
        if ck is None:
            lt = trace(body, ln, through_casts=False)
            if lt.kind == "const":
                iv = _const_val(body, idx)
                if iv is not None and isinstance(lt.root[1].scalar, int) and iv < lt.root[1].scalar:
                    return "constant index %d < array length %d" % (iv, lt.root[1].scalar)
            return None
        iv = _const_val(body, idx)
        if iv is not None:
            g = guard_min_len(body, it.bb, ck)
            if g is not None and iv < g and no_redefinition_reaches(body, ck, it.bb):
                return "constant index %d below the dominating guard len >= %d" % (iv, g)
        li = lin(body, idx)
        if li is not None:
            r = linear_discharge(body, it, ck, (li[0], li[1] + 1), "index")
            if r:
                return r
        return None
    if k == "range" and it.args and (it.resolved or "").endswith("copy_from_slice") and len(it.args) == 2:
        # destination and source lengths agree structurally
        dt = trace(body, it.args[0])
        st = trace(body, it.args[1])

        def idx_range(t):
            if t.kind == "call" and ((t.root[1].callee or "") in INDEX_CALLS or (t.root[1].resolved or "").split("::")[-1] in ("index", "index_mut")) and len(t.root[1].args) == 2 and not t.fields:
                return range_bounds(body, t.root[1].args[1])
            return None
        rd = idx_range(dt)
        rs = idx_range(st)
        if rd is not None and rs is not None and len(rd) == 1 and len(rs) == 1 and rd[0][0] == "end" and rs[0][0] == "end":
            a, b_ = trace(body, rd[0][1]), trace(body, rs[0][1])
            if a.kind in ("multi", "call", "rv", "param") and a.root[:2] == b_.root[:2] and a.fields == b_.fields:
                return "both sides are [..n] with the same n"
        if rd is not None and len(rd) == 2:
            lo, hi = _const_val(body, rd[0][1]), _const_val(body, rd[1][1])
            if lo is not None and hi is not None and st.kind == "call" and (st.root[1].resolved or "").endswith("to_be_bytes"):
                ty = (st.root[1].j.get("argtys") or [""])[0]
                width = {"u8": 1, "u16": 2, "u32": 4, "u64": 8, "u128": 16, "i16": 2, "i32": 4, "i64": 8}.get(ty)
                if width is not None and hi - lo == width:
                    return "constant %d-byte range <- to_be_bytes of %s" % (width, ty)
        return None
    if k in ("index", "range"):
        recv = trace(body, it.args[0])
        # a fixed-size array viewed as a slice: BitArray<[u8; N]>::as_raw(_mut)_slice, or an array local
        n_fixed = None
        base_ty = None
        if recv.kind == "call" and (recv.root[1].resolved or "").split("::")[-1] in ("as_raw_mut_slice", "as_raw_slice") and recv.root[1].args:
            bt = trace(body, recv.root[1].args[0])
            if bt.kind in ("multi", "undef", "call", "param") or True:
                l0 = recv.root[1].args[0].place.local if recv.root[1].args[0].place is not None else None
                # the argument is `&mut data`: find the local behind the reference
                d0 = body.unique_def(l0) if l0 is not None else None
                if isinstance(d0, Stmt) and d0.rv.kind == "ref" and d0.rv.place is not None and d0.rv.place.is_local:
                    base_ty = body.local_ty(d0.rv.place.local)
                    m = _re.search(r"\[u8; (\d+)\]", base_ty)
                    if m:
                        n_fixed = int(m.group(1))
        if n_fixed is not None and len(it.args) >= 2:
            rb = range_bounds(body, it.args[1])
            if rb is not None and len(rb) == 1 and rb[0][0] == "end":
                et = trace(body, rb[0][1])
                v = _const_val(body, rb[0][1])
                if v is not None and v <= n_fixed:
                    return "end=%d <= fixed array length %d" % (v, n_fixed)
                if et.kind == "call" and (et.root[1].resolved or "").endswith("::min"):
                    for a in et.root[1].args:
                        at = trace(body, a)
                        av = _const_val(body, a)
                        if av is not None and av <= n_fixed:
                            return "end <= min(.., %d) <= fixed array length %d" % (av, n_fixed)
                        if at.kind == "call" and (at.root[1].resolved or "") == "std::mem::size_of" and (at.root[1].j.get("targs") or [""])[0] == base_ty:
                            return "end <= min(.., size_of::<the indexed array type>()) = %d" % n_fixed
            return None
        ck = container_key(recv)
        if ck is None or len(it.args) < 2:
            return None
        rb = range_bounds(body, it.args[1])
        if rb is None:
            return None
        if not rb:
            return "full range"
        reasons = []
        for name, o, agg in rb:
            v = _const_val(body, o)
            if v == 0:
                reasons.append("%s=0" % name)
                continue
            if v is not None:
                g = guard_min_len(body, it.bb, ck)
                if g is not None and v <= g and no_redefinition_reaches(body, ck, it.bb):
                    reasons.append("%s=%d <= guard len >= %d" % (name, v, g))
                    continue
                return None
            u = bounds.ub(body, o)
            if u is TOP or ("len", ck) in u:
                reasons.append("%s carries the bound <= len(container)" % name)
                continue
            # excluded by a dominating comparison with len() at the place where the range was built
            okg = False
            ot = trace(body, o)
            for term, tgt, lab in controlling_edges(body, agg.bb):
                c, neg = switch_cond(body, term)
                if c.kind != "bin" or c.op not in ("Lt", "Ge", "Le", "Gt"):
                    continue
                truth = (lab[1] != 0) if lab[0] == "val" else (0 in lab[1])
                if neg:
                    truth = not truth
                from .flow import ordering
                lo, hi, strict = ordering(c, truth)
                if trace(body, lo).key() == ot.key() and len_of(body, hi) == ck:
                    okg = True  # bound <= len (or < len) however the test is written
            if okg:
                reasons.append("%s < len by the dominating comparison" % name)
                continue
            lr = linear_discharge(body, it, ck, lin(body, o), name)
            if lr:
                reasons.append(lr)
                continue
            return None
        return "; ".join(reasons)
    if k == "bitset" and len(it.args) >= 2:
        # BitSlice::set(idx, ..) panics for idx >= len: the receiver is a fixed BitArray<[u8; N]> and idx < K <= 8 * N
        cap = _bit_capacity(body, it.args[0])
        if cap is None:
            return None
        from .flow import ordering
        idx = it.args[1]
        # (i) a dominating test idx < K in this body
        for term, tgt, lab in controlling_edges(body, it.bb):
            c, neg = switch_cond(body, term)
            truth = (lab[1] != 0) if lab[0] == "val" else (0 in lab[1])
            if neg:
                truth = not truth
            o = ordering(c, truth) if c.kind == "bin" else None
            if o is not None and trace(body, o[0]).key() == trace(body, idx).key():
                kv = _const_val(body, o[1])
                if kv is not None and (kv if o[2] else kv + 1) <= cap:
                    return "index < %d by the dominating test, bit capacity %d" % (kv if o[2] else kv + 1, cap)
        # (ii) the index is an item of `iter.take_while(|i| *i < K)` consumed by a for loop ...
        ti = trace(body, idx, extra_transparent=("std::iter::IntoIterator::into_iter",))
        if ti.kind == "call" and (ti.root[1].callee or "").endswith("Iterator::next") and ti.root[1].args:
            kb = _take_while_bound(body, ti.root[1].args[0])
            if kb is not None and kb <= cap:
                return "index is an item of take_while(|i| *i < %d), bit capacity %d" % (kb, cap)
        # (iii) ... or by for_each(|idx| ..) in the parent
        if body.kind == "closure" and ti.kind == "param" and ti.root[1] == 2 and not ti.fields and body.parent:
            pb = body.facts.body(body.parent)
            if pb is not None:
                for t in pb.calls():
                    if (t.callee or "").endswith("Iterator::for_each") and len(t.args) == 2:
                        ct = trace(pb, t.args[1])
                        if ct.kind == "rv" and ct.root[1].rv.kind == "agg" and ct.root[1].rv.j.get("closure") == body.name:
                            kb = _take_while_bound(pb, t.args[0])
                            if kb is not None and kb <= cap:
                                return "index is an item of take_while(|i| *i < %d).for_each(..), bit capacity %d" % (kb, cap)
        return None
    if k in ("unwrap", "expect"):
        src = trace(body, it.args[0])
        # `slice[a..b].try_into().unwrap()` into `[u8; N]` with b - a == N (possibly through a private decoding helper)
        for st in src.steps:
            if isinstance(st, Term) and st.kind == "call" and (st.callee or "").endswith("TryInto::try_into") and len(st.j.get("targs", [])) == 2:
                m = _re.match(r"\[u8; (\d+)\]$", st.j["targs"][1])
                if m and st.args:
                    w = slice_const_width(body, st.args[0], at=it)
                    if w is not None and w == int(m.group(1)):
                        return "try_into::<[u8; %d]> of a subslice whose constant range is %d bytes wide" % (w, w)
        if src.kind == "call" and (src.root[1].resolved or "").endswith("NonZero::new"):
            v = _const_val(body, src.root[1].args[0])
            if v is not None and v != 0:
                return "NonZero::new(%d)" % v
        return None
    return None
