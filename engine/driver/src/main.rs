// utp-facts: a rustc_private driver that dumps a JSON "fact base" of the crate being compiled
// (promoted MIR of every fn/method/closure body, ADTs, constants, trait impls).
// It contains no rules: everything that decides a property lives in /verif/engine/utpsa (Python).
//
// Used as RUSTC_WORKSPACE_WRAPPER under `cargo +nightly check --offline --lib`.
#![feature(rustc_private)]
extern crate rustc_abi;
extern crate rustc_driver;
extern crate rustc_hir;
extern crate rustc_index;
extern crate rustc_interface;
extern crate rustc_middle;
extern crate rustc_span;

use rustc_driver::Compilation;
use rustc_hir::def::DefKind;
use rustc_hir::def_id::{DefId, LocalDefId, LOCAL_CRATE};
use rustc_middle::mir::{
    self, AggregateKind, BinOp, BorrowKind, CastKind, Operand, Place, ProjectionElem, Rvalue,
    StatementKind, TerminatorKind, UnOp,
};
use rustc_middle::ty::print::with_no_trimmed_paths;
use rustc_middle::ty::{self, Ty, TyCtxt};
use rustc_span::Span;

// ---------------------------------------------------------------- tiny JSON
enum J {
    Null,
    Bool(bool),
    Int(i128),
    Str(String),
    Arr(Vec<J>),
    Obj(Vec<(&'static str, J)>),
    Map(Vec<(String, J)>),
}

fn esc(s: &str, out: &mut String) {
    out.push('"');
    for c in s.chars() {
        match c {
            '"' => out.push_str("\\\""),
            '\\' => out.push_str("\\\\"),
            '\n' => out.push_str("\\n"),
            '\r' => out.push_str("\\r"),
            '\t' => out.push_str("\\t"),
            c if (c as u32) < 0x20 => out.push_str(&format!("\\u{:04x}", c as u32)),
            c => out.push(c),
        }
    }
    out.push('"');
}

impl J {
    fn write(&self, out: &mut String) {
        match self {
            J::Null => out.push_str("null"),
            J::Bool(b) => out.push_str(if *b { "true" } else { "false" }),
            J::Int(i) => out.push_str(&i.to_string()),
            J::Str(s) => esc(s, out),
            J::Arr(v) => {
                out.push('[');
                for (i, x) in v.iter().enumerate() {
                    if i > 0 {
                        out.push(',');
                    }
                    x.write(out);
                }
                out.push(']');
            }
            J::Obj(v) => {
                out.push('{');
                for (i, (k, x)) in v.iter().enumerate() {
                    if i > 0 {
                        out.push(',');
                    }
                    esc(k, out);
                    out.push(':');
                    x.write(out);
                }
                out.push('}');
            }
            J::Map(v) => {
                out.push('{');
                for (i, (k, x)) in v.iter().enumerate() {
                    if i > 0 {
                        out.push(',');
                    }
                    esc(k, out);
                    out.push(':');
                    x.write(out);
                }
                out.push('}');
            }
        }
    }
}
fn s(x: impl Into<String>) -> J {
    J::Str(x.into())
}
fn opt_s(x: Option<String>) -> J {
    match x {
        Some(v) => J::Str(v),
        None => J::Null,
    }
}

// ---------------------------------------------------------------- helpers
/// strip turbofish generic argument lists `::<...>` from a def path so that anchors are stable:
/// `stream_dispatch::VirtualSocket::<T, E>::poll` -> `stream_dispatch::VirtualSocket::poll`
fn strip_generics(p: &str) -> String {
    // removes generic argument lists: turbofish `::<..>` and `Ident<..>`; keeps the `<` that opens a
    // qualified path (`<X as Trait>::f`), which never follows an identifier character.
    let b: Vec<char> = p.chars().collect();
    let mut out = String::new();
    let mut i = 0;
    while i < b.len() {
        let is_turbofish = b[i] == ':' && i + 2 < b.len() && b[i + 1] == ':' && b[i + 2] == '<';
        let is_generic = b[i] == '<' && i > 0 && (b[i - 1].is_alphanumeric() || b[i - 1] == '_');
        if is_turbofish || is_generic {
            let mut depth = 0i32;
            let start = if is_turbofish { i + 2 } else { i };
            let mut j = start;
            while j < b.len() {
                if b[j] == '<' {
                    depth += 1;
                } else if b[j] == '>' && j > 0 && b[j - 1] != '-' {
                    depth -= 1;
                    if depth == 0 {
                        break;
                    }
                }
                j += 1;
            }
            // strip only lists made of bare type parameters / lifetimes (`<T, Env>`, `<'a, NAME>`):
            // concrete arguments (`Sub<u16>` vs `Sub<SeqNr>`) distinguish impls and must stay
            let inner: String = b[start + 1..j.min(b.len())].iter().collect();
            let only_params = inner.split(',').all(|a| {
                let a = a.trim();
                a.starts_with('\'') || (!a.is_empty() && a.chars().next().unwrap().is_uppercase() && a.chars().all(|c| c.is_alphanumeric() || c == '_'))
            });
            if only_params || inner.starts_with("impl ") {
                i = j + 1;
                continue;
            }
            // keep, but normalise turbofish `::<` to `<`
            if is_turbofish {
                i += 2;
            }
            let kept: String = b[i..(j + 1).min(b.len())].iter().collect();
            out.push_str(&strip_inner(&kept));
            i = j + 1;
            continue;
        }
        out.push(b[i]);
        i += 1;
    }
    out
}

fn strip_inner(s: &str) -> String {
    // `<A<T>, B>`: recurse into the arguments
    if s.len() < 2 {
        return s.to_string();
    }
    let inner = &s[1..s.len() - 1];
    format!("<{}>", strip_generics(inner))
}

fn dpath(tcx: TyCtxt<'_>, did: DefId) -> String {
    with_no_trimmed_paths!(strip_generics(&tcx.def_path_str(did)))
}

fn ty_str<'tcx>(t: Ty<'tcx>) -> String {
    with_no_trimmed_paths!(t.to_string())
}

struct Ctx<'a, 'tcx> {
    tcx: TyCtxt<'tcx>,
    body: &'a mir::Body<'tcx>,
    def: LocalDefId,
    promoted: Option<&'a rustc_index::IndexVec<mir::Promoted, mir::Body<'tcx>>>,
}

/// value of a trivial promoted body (`_1 = const X; _0 = &_1`), e.g. the `&0` in `offset.cmp(&0)`
fn promoted_scalar<'tcx>(pb: &mir::Body<'tcx>) -> Option<(ty::ScalarInt, Ty<'tcx>)> {
    let mut found = None;
    let mut n = 0;
    for data in pb.basic_blocks.iter() {
        for st in &data.statements {
            if let StatementKind::Assign(b) = &st.kind {
                let (_, rv) = &**b;
                match rv {
                    Rvalue::Use(Operand::Constant(c), ..) => {
                        if let mir::Const::Val(v, ty) = c.const_ {
                            if let Some(si) = v.try_to_scalar_int() {
                                found = Some((si, ty));
                                n += 1;
                            }
                        }
                    }
                    Rvalue::Ref(..) => {}
                    _ => return None,
                }
            }
        }
    }
    if n == 1 { found } else { None }
}

fn loc_json(tcx: TyCtxt<'_>, span: Span) -> (J, J) {
    let sm = tcx.sess.source_map();
    let cs = span.source_callsite();
    let loc = sm.lookup_char_pos(cs.lo());
    let file = format!("{}", loc.file.name.prefer_local_unconditionally());
    let l = J::Arr(vec![s(file), J::Int(loc.line as i128), J::Int(loc.col.0 as i128 + 1)]);
    let mut chain = vec![];
    if span.from_expansion() {
        for ed in span.macro_backtrace() {
            let krate = ed.macro_def_id.map(|d| tcx.crate_name(d.krate).to_string()).unwrap_or_default();
            let name = match ed.kind {
                rustc_span::ExpnKind::Macro(_, n) => n.to_string(),
                rustc_span::ExpnKind::Desugaring(d) => format!("desugar:{:?}", d),
                rustc_span::ExpnKind::AstPass(p) => format!("astpass:{:?}", p),
                rustc_span::ExpnKind::Root => "root".to_string(),
            };
            chain.push(s(format!("{krate}::{name}")));
        }
    }
    (l, J::Arr(chain))
}

impl<'a, 'tcx> Ctx<'a, 'tcx> {
    fn place(&self, p: &Place<'tcx>) -> J {
        let tcx = self.tcx;
        let mut projs = vec![];
        for (base, elem) in p.iter_projections() {
            let bty = base.ty(&self.body.local_decls, tcx);
            let j = match elem {
                ProjectionElem::Deref => s("*"),
                ProjectionElem::Field(f, fty) => {
                    let (owner, name) = match bty.ty.kind() {
                        ty::Adt(adt, _) => {
                            let v = bty.variant_index.unwrap_or(rustc_abi::FIRST_VARIANT);
                            let vd = adt.variant(v);
                            let owner = if adt.is_enum() {
                                format!("{}::{}", dpath(tcx, adt.did()), vd.name)
                            } else {
                                dpath(tcx, adt.did())
                            };
                            (owner, vd.fields[f].name.to_string())
                        }
                        ty::Closure(cdid, _) | ty::Coroutine(cdid, _) | ty::CoroutineClosure(cdid, _) => {
                            let name = if let Some(l) = cdid.as_local() {
                                let caps = tcx.closure_captures(l);
                                caps.get(f.as_usize()).map(|c| c.to_string(tcx)).unwrap_or(format!("#{}", f.as_usize()))
                            } else {
                                format!("#{}", f.as_usize())
                            };
                            ("upvar".to_string(), name)
                        }
                        ty::Tuple(_) => ("tuple".to_string(), format!("{}", f.as_usize())),
                        _ => ("?".to_string(), format!("{}", f.as_usize())),
                    };
                    J::Arr(vec![s("f"), s(owner), s(name), s(ty_str(fty))])
                }
                ProjectionElem::Downcast(name, vi) => {
                    J::Arr(vec![s("v"), s(name.map(|n| n.to_string()).unwrap_or(format!("{}", vi.as_usize())))])
                }
                ProjectionElem::Index(l) => J::Arr(vec![s("i"), J::Int(l.as_usize() as i128)]),
                ProjectionElem::ConstantIndex { offset, min_length, from_end } => {
                    J::Arr(vec![s("ci"), J::Int(offset as i128), J::Int(min_length as i128), J::Bool(from_end)])
                }
                ProjectionElem::Subslice { from, to, from_end } => {
                    J::Arr(vec![s("sub"), J::Int(from as i128), J::Int(to as i128), J::Bool(from_end)])
                }
                other => J::Arr(vec![s("o"), s(format!("{other:?}"))]),
            };
            projs.push(j);
        }
        J::Obj(vec![("l", J::Int(p.local.as_usize() as i128)), ("p", J::Arr(projs))])
    }

    fn constant(&self, c: &mir::ConstOperand<'tcx>) -> J {
        let tcx = self.tcx;
        let cty = c.const_.ty();
        let mut o: Vec<(&'static str, J)> = vec![("k", s("const")), ("ty", s(ty_str(cty)))];
        match cty.kind() {
            ty::FnDef(did, args) => {
                o.push(("fn", s(dpath(tcx, *did))));
                o.push(("fna", s(with_no_trimmed_paths!(tcx.def_path_str_with_args(*did, args)))));
            }
            ty::Closure(did, _) | ty::Coroutine(did, _) | ty::CoroutineClosure(did, _) => {
                o.push(("closure", s(dpath(tcx, *did))));
            }
            _ => {}
        }
        match c.const_ {
            mir::Const::Unevaluated(uv, _) => {
                o.push(("item", s(dpath(tcx, uv.def))));
                if let Some(pidx) = uv.promoted {
                    o.push(("promoted", J::Bool(true)));
                    if let Some(pv) = self.promoted {
                        if let Some(pb) = pv.get(pidx) {
                            if let Some((si, pty)) = promoted_scalar(pb) {
                                o.push(("scalar", scalar_json(si, pty)));
                            }
                        }
                    }
                }
                // try to evaluate simple (non-generic) constant items to a scalar
                if uv.promoted.is_none() && uv.args.is_empty() {
                    if let Ok(v) = tcx.const_eval_poly(uv.def) {
                        if let Some(si) = v.try_to_scalar_int() {
                            o.push(("scalar", scalar_json(si, cty)));
                        }
                    }
                }
            }
            mir::Const::Val(v, ty) => {
                if let Some(si) = v.try_to_scalar_int() {
                    o.push(("scalar", scalar_json(si, ty)));
                } else if !matches!(ty.kind(), ty::FnDef(..)) {
                    o.push(("s", s(with_no_trimmed_paths!(format!("{}", c.const_)))));
                }
            }
            mir::Const::Ty(..) => {
                o.push(("s", s(with_no_trimmed_paths!(format!("{}", c.const_)))));
            }
        }
        J::Obj(o)
    }

    fn operand(&self, o: &Operand<'tcx>) -> J {
        match o {
            Operand::Copy(p) => J::Obj(vec![("k", s("copy")), ("pl", self.place(p))]),
            Operand::Move(p) => J::Obj(vec![("k", s("move")), ("pl", self.place(p))]),
            Operand::Constant(c) => self.constant(c),
            #[allow(unreachable_patterns)]
            _ => J::Obj(vec![("k", s("other")), ("s", s(format!("{o:?}")))]),
        }
    }

    fn rvalue(&self, rv: &Rvalue<'tcx>) -> J {
        let tcx = self.tcx;
        match rv {
            Rvalue::Use(o, ..) => J::Obj(vec![("k", s("use")), ("a", self.operand(o))]),
            Rvalue::Ref(_, bk, p) => {
                let b = match bk {
                    BorrowKind::Shared => "shared",
                    BorrowKind::Fake(_) => "fake",
                    BorrowKind::Mut { .. } => "mut",
                };
                J::Obj(vec![("k", s("ref")), ("bk", s(b)), ("pl", self.place(p))])
            }
            Rvalue::RawPtr(_, p) => J::Obj(vec![("k", s("rawptr")), ("pl", self.place(p))]),
            Rvalue::BinaryOp(op, ops) => J::Obj(vec![
                ("k", s("bin")),
                ("op", s(binop_name(*op))),
                ("a", self.operand(&ops.0)),
                ("b", self.operand(&ops.1)),
                ("ty", s(ty_str(ops.0.ty(&self.body.local_decls, tcx)))),
            ]),
            Rvalue::UnaryOp(op, a) => {
                let n = match op {
                    UnOp::Not => "Not",
                    UnOp::Neg => "Neg",
                    UnOp::PtrMetadata => "PtrMetadata",
                };
                J::Obj(vec![("k", s("un")), ("op", s(n)), ("a", self.operand(a))])
            }
            Rvalue::Cast(ck, a, ty) => {
                let ckn = match ck {
                    CastKind::IntToInt => "IntToInt".to_string(),
                    CastKind::IntToFloat => "IntToFloat".to_string(),
                    CastKind::FloatToInt => "FloatToInt".to_string(),
                    CastKind::FloatToFloat => "FloatToFloat".to_string(),
                    CastKind::Transmute => "Transmute".to_string(),
                    other => format!("{other:?}"),
                };
                J::Obj(vec![
                    ("k", s("cast")),
                    ("ck", s(ckn)),
                    ("a", self.operand(a)),
                    ("from", s(ty_str(a.ty(&self.body.local_decls, tcx)))),
                    ("ty", s(ty_str(*ty))),
                ])
            }
            Rvalue::Discriminant(p) => {
                let pty = p.ty(&self.body.local_decls, tcx).ty;
                let en = match pty.kind() {
                    ty::Adt(adt, _) => dpath(tcx, adt.did()),
                    _ => ty_str(pty),
                };
                J::Obj(vec![("k", s("discr")), ("pl", self.place(p)), ("enum", s(en)), ("ety", s(ty_str(pty)))])
            }
            Rvalue::Aggregate(kind, ops) => {
                let opsj: Vec<J> = ops.iter().map(|o| self.operand(o)).collect();
                let mut o: Vec<(&'static str, J)> = vec![("k", s("agg"))];
                match &**kind {
                    AggregateKind::Adt(did, vi, _args, _, active) => {
                        let adt = tcx.adt_def(*did);
                        let vd = adt.variant(*vi);
                        o.push(("ak", s("adt")));
                        o.push(("adt", s(dpath(tcx, *did))));
                        o.push(("variant", s(vd.name.to_string())));
                        o.push(("is_enum", J::Bool(adt.is_enum())));
                        let names: Vec<J> = if let Some(a) = active {
                            vec![s(vd.fields[*a].name.to_string())]
                        } else {
                            vd.fields.iter().map(|f| s(f.name.to_string())).collect()
                        };
                        o.push(("fields", J::Arr(names)));
                    }
                    AggregateKind::Tuple => o.push(("ak", s("tuple"))),
                    AggregateKind::Array(_) => o.push(("ak", s("array"))),
                    AggregateKind::Closure(did, _) => {
                        o.push(("ak", s("closure")));
                        o.push(("closure", s(dpath(tcx, *did))));
                        if let Some(l) = did.as_local() {
                            let caps = tcx.closure_captures(l);
                            o.push(("fields", J::Arr(caps.iter().map(|c| s(c.to_string(tcx))).collect())));
                        }
                    }
                    AggregateKind::Coroutine(did, _) => {
                        o.push(("ak", s("coroutine")));
                        o.push(("closure", s(dpath(tcx, *did))));
                        if let Some(l) = did.as_local() {
                            let caps = tcx.closure_captures(l);
                            o.push(("fields", J::Arr(caps.iter().map(|c| s(c.to_string(tcx))).collect())));
                        }
                    }
                    AggregateKind::CoroutineClosure(did, _) => {
                        o.push(("ak", s("coroutine_closure")));
                        o.push(("closure", s(dpath(tcx, *did))));
                    }
                    AggregateKind::RawPtr(..) => o.push(("ak", s("rawptr"))),
                }
                o.push(("ops", J::Arr(opsj)));
                J::Obj(o)
            }
            Rvalue::Repeat(a, _) => J::Obj(vec![("k", s("repeat")), ("a", self.operand(a))]),
            Rvalue::CopyForDeref(p) => J::Obj(vec![("k", s("use")), ("a", J::Obj(vec![("k", s("copy")), ("pl", self.place(p))]))]),
            other => J::Obj(vec![("k", s("other")), ("s", s(format!("{other:?}")))]),
        }
    }

    fn callee(&self, func: &Operand<'tcx>) -> Vec<(&'static str, J)> {
        let tcx = self.tcx;
        let mut o: Vec<(&'static str, J)> = vec![];
        if let Some((did, args)) = func.const_fn_def() {
            o.push(("fn", s(dpath(tcx, did))));
            o.push(("fna", s(with_no_trimmed_paths!(tcx.def_path_str_with_args(did, args)))));
            o.push(("local", J::Bool(did.is_local())));
            let targs: Vec<J> = args.types().map(|t| s(ty_str(t))).collect();
            o.push(("targs", J::Arr(targs)));
            // closure/coroutine types among the generic args (a closure *passed* as F)
            let env = ty::TypingEnv::post_analysis(tcx, self.def);
            if let Ok(Some(inst)) = ty::Instance::try_resolve(tcx, env, did, args) {
                let rd = inst.def_id();
                o.push(("res", s(dpath(tcx, rd))));
                o.push(("res_local", J::Bool(rd.is_local())));
                let kind = match inst.def {
                    ty::InstanceKind::Item(_) => "item",
                    ty::InstanceKind::Virtual(..) => "virtual",
                    ty::InstanceKind::ClosureOnceShim { .. } => "closure_once_shim",
                    ty::InstanceKind::FnPtrShim(..) => "fnptr_shim",
                    ty::InstanceKind::DropGlue(..) => "drop_glue",
                    ty::InstanceKind::CloneShim(..) => "clone_shim",
                    _ => "other",
                };
                o.push(("res_kind", s(kind)));
            }
            if let Some(tr) = tcx.trait_of_assoc(did) {
                o.push(("trait", s(dpath(tcx, tr))));
            }
        } else {
            o.push(("fn", J::Null));
            o.push(("fnop", self.operand(func)));
            o.push(("fnty", s(ty_str(func.ty(&self.body.local_decls, tcx)))));
        }
        o
    }
}

fn scalar_json<'tcx>(si: ty::ScalarInt, ty: Ty<'tcx>) -> J {
    let size = si.size();
    match ty.kind() {
        ty::Int(_) => J::Int(si.to_int(size)),
        ty::Bool => J::Int(si.to_uint(size) as i128),
        ty::Float(fty) => {
            let bits = si.to_uint(size);
            let v = match fty.bit_width() {
                64 => f64::from_bits(bits as u64),
                32 => f32::from_bits(bits as u32) as f64,
                _ => f64::NAN,
            };
            J::Obj(vec![("f", s(format!("{v:?}")))])
        }
        _ => J::Int(si.to_uint(size) as i128),
    }
}

fn binop_name(op: BinOp) -> &'static str {
    match op {
        BinOp::Add => "Add",
        BinOp::AddUnchecked => "AddUnchecked",
        BinOp::AddWithOverflow => "AddWithOverflow",
        BinOp::Sub => "Sub",
        BinOp::SubUnchecked => "SubUnchecked",
        BinOp::SubWithOverflow => "SubWithOverflow",
        BinOp::Mul => "Mul",
        BinOp::MulUnchecked => "MulUnchecked",
        BinOp::MulWithOverflow => "MulWithOverflow",
        BinOp::Div => "Div",
        BinOp::Rem => "Rem",
        BinOp::BitXor => "BitXor",
        BinOp::BitAnd => "BitAnd",
        BinOp::BitOr => "BitOr",
        BinOp::Shl => "Shl",
        BinOp::ShlUnchecked => "ShlUnchecked",
        BinOp::Shr => "Shr",
        BinOp::ShrUnchecked => "ShrUnchecked",
        BinOp::Eq => "Eq",
        BinOp::Lt => "Lt",
        BinOp::Le => "Le",
        BinOp::Ne => "Ne",
        BinOp::Ge => "Ge",
        BinOp::Gt => "Gt",
        BinOp::Cmp => "Cmp",
        BinOp::Offset => "Offset",
    }
}

fn body_json<'tcx>(tcx: TyCtxt<'tcx>, def: LocalDefId, body: &mir::Body<'tcx>, source: &str, promoted: Option<&rustc_index::IndexVec<mir::Promoted, mir::Body<'tcx>>>) -> J {
    let cx = Ctx { tcx, body, def, promoted };
    let did = def.to_def_id();
    let kind = match tcx.def_kind(did) {
        DefKind::Fn => "fn",
        DefKind::AssocFn => "method",
        DefKind::Closure => "closure",
        _ => "other",
    };
    let mut o: Vec<(&'static str, J)> = vec![("kind", s(kind)), ("mir", s(source))];
    let (loc, _) = loc_json(tcx, body.span);
    o.push(("loc", loc));
    // end line of the body
    {
        let sm = tcx.sess.source_map();
        let hi = sm.lookup_char_pos(body.span.source_callsite().hi());
        o.push(("end_line", J::Int(hi.line as i128)));
    }
    // parent body (closures)
    if matches!(tcx.def_kind(did), DefKind::Closure) {
        let p = tcx.local_parent(def);
        o.push(("parent", s(dpath(tcx, p.to_def_id()))));
        let ck = match tcx.coroutine_kind(did) {
            Some(k) => format!("{k:?}"),
            None => "closure".to_string(),
        };
        o.push(("closure_kind", s(ck)));
        let caps = tcx.closure_captures(def);
        o.push(("upvars", J::Arr(caps.iter().map(|c| s(c.to_string(tcx))).collect())));
    }
    // impl info
    if matches!(tcx.def_kind(did), DefKind::AssocFn) {
        let parent = tcx.parent(did);
        if let DefKind::Impl { of_trait } = tcx.def_kind(parent) {
            let sty = tcx.type_of(parent).instantiate_identity().skip_norm_wip();
            o.push(("self_ty", s(ty_str(sty))));
            if let ty::Adt(adt, _) = sty.kind() {
                o.push(("self_adt", s(dpath(tcx, adt.did()))));
            }
            if of_trait {
                let tr = tcx.impl_trait_ref(parent).instantiate_identity().skip_norm_wip();
                o.push(("trait", s(dpath(tcx, tr.def_id))));
            }
        }
    }
    if matches!(tcx.def_kind(did), DefKind::Fn | DefKind::AssocFn) {
        o.push(("vis", s(format!("{:?}", tcx.visibility(did)))));
        o.push(("name", s(tcx.item_name(did).to_string())));
    }
    o.push(("arg_count", J::Int(body.arg_count as i128)));
    // locals
    let mut names: Vec<Option<String>> = vec![None; body.local_decls.len()];
    let mut upvar_names: Vec<J> = vec![];
    for vdi in &body.var_debug_info {
        if let mir::VarDebugInfoContents::Place(p) = &vdi.value {
            if p.projection.is_empty() {
                names[p.local.as_usize()] = Some(vdi.name.to_string());
            } else {
                upvar_names.push(J::Arr(vec![s(vdi.name.to_string()), cx.place(p)]));
            }
        }
    }
    let locals: Vec<J> = body
        .local_decls
        .iter_enumerated()
        .map(|(l, d)| {
            J::Obj(vec![
                ("ty", s(ty_str(d.ty))),
                ("name", opt_s(names[l.as_usize()].clone())),
                ("user", J::Bool(d.is_user_variable())),
            ])
        })
        .collect();
    o.push(("locals", J::Arr(locals)));
    o.push(("debug_places", J::Arr(upvar_names)));

    let mut blocks = vec![];
    for (_bb, data) in body.basic_blocks.iter_enumerated() {
        let mut stmts = vec![];
        for st in &data.statements {
            let (loc, exp) = loc_json(tcx, st.source_info.span);
            match &st.kind {
                StatementKind::Assign(b) => {
                    let (pl, rv) = &**b;
                    stmts.push(J::Obj(vec![("k", s("assign")), ("pl", cx.place(pl)), ("rv", cx.rvalue(rv)), ("loc", loc), ("exp", exp)]));
                }
                StatementKind::SetDiscriminant { place, variant_index } => {
                    stmts.push(J::Obj(vec![
                        ("k", s("setdiscr")),
                        ("pl", cx.place(place)),
                        ("variant", J::Int(variant_index.as_usize() as i128)),
                        ("loc", loc),
                        ("exp", exp),
                    ]));
                }
                _ => {}
            }
        }
        let term = data.terminator();
        let (loc, exp) = loc_json(tcx, term.source_info.span);
        let mut t: Vec<(&'static str, J)> = vec![];
        match &term.kind {
            TerminatorKind::Goto { target } => {
                t.push(("k", s("goto")));
                t.push(("target", J::Int(target.as_usize() as i128)));
            }
            TerminatorKind::SwitchInt { discr, targets } => {
                t.push(("k", s("switch")));
                t.push(("op", cx.operand(discr)));
                t.push(("opty", s(ty_str(discr.ty(&body.local_decls, tcx)))));
                let ts: Vec<J> = targets.iter().map(|(v, bb)| J::Arr(vec![J::Int(v as i128), J::Int(bb.as_usize() as i128)])).collect();
                t.push(("targets", J::Arr(ts)));
                t.push(("otherwise", J::Int(targets.otherwise().as_usize() as i128)));
            }
            TerminatorKind::Return => t.push(("k", s("return"))),
            TerminatorKind::Unreachable => t.push(("k", s("unreachable"))),
            TerminatorKind::UnwindResume => t.push(("k", s("resume"))),
            TerminatorKind::UnwindTerminate(_) => t.push(("k", s("terminate"))),
            TerminatorKind::Drop { place, target, .. } => {
                t.push(("k", s("drop")));
                t.push(("pl", cx.place(place)));
                t.push(("plty", s(ty_str(place.ty(&body.local_decls, tcx).ty))));
                t.push(("target", J::Int(target.as_usize() as i128)));
            }
            TerminatorKind::Call { func, args, destination, target, fn_span, .. } => {
                t.push(("k", s("call")));
                for kv in cx.callee(func) {
                    t.push(kv);
                }
                t.push(("args", J::Arr(args.iter().map(|a| cx.operand(&a.node)).collect())));
                t.push(("argtys", J::Arr(args.iter().map(|a| s(ty_str(a.node.ty(&body.local_decls, tcx)))).collect())));
                t.push(("dest", cx.place(destination)));
                t.push(("target", target.map(|b| J::Int(b.as_usize() as i128)).unwrap_or(J::Null)));
                let (fl, _) = loc_json(tcx, *fn_span);
                t.push(("fn_loc", fl));
            }
            TerminatorKind::TailCall { func, args, .. } => {
                t.push(("k", s("tailcall")));
                for kv in cx.callee(func) {
                    t.push(kv);
                }
                t.push(("args", J::Arr(args.iter().map(|a| cx.operand(&a.node)).collect())));
            }
            TerminatorKind::Assert { cond, expected, msg, target, .. } => {
                t.push(("k", s("assert")));
                t.push(("cond", cx.operand(cond)));
                t.push(("expected", J::Bool(*expected)));
                let kind = match &**msg {
                    mir::AssertKind::BoundsCheck { .. } => "bounds".to_string(),
                    mir::AssertKind::Overflow(op, ..) => format!("overflow:{}", binop_name(*op)),
                    mir::AssertKind::OverflowNeg(_) => "overflow:Neg".to_string(),
                    mir::AssertKind::DivisionByZero(_) => "div_by_zero".to_string(),
                    mir::AssertKind::RemainderByZero(_) => "rem_by_zero".to_string(),
                    mir::AssertKind::ResumedAfterReturn(_) => "resumed_after_return".to_string(),
                    mir::AssertKind::ResumedAfterPanic(_) => "resumed_after_panic".to_string(),
                    other => format!("{other:?}").chars().take(40).collect(),
                };
                t.push(("msg", s(kind)));
                if let mir::AssertKind::BoundsCheck { len, index } = &**msg {
                    t.push(("len", cx.operand(len)));
                    t.push(("index", cx.operand(index)));
                }
                t.push(("target", J::Int(target.as_usize() as i128)));
            }
            TerminatorKind::Yield { value, resume, resume_arg, drop } => {
                t.push(("k", s("yield")));
                t.push(("value", cx.operand(value)));
                t.push(("target", J::Int(resume.as_usize() as i128)));
                t.push(("resume_arg", cx.place(resume_arg)));
                t.push(("drop", drop.map(|b| J::Int(b.as_usize() as i128)).unwrap_or(J::Null)));
            }
            TerminatorKind::CoroutineDrop => t.push(("k", s("coroutine_drop"))),
            TerminatorKind::FalseEdge { real_target, imaginary_target } => {
                t.push(("k", s("falseedge")));
                t.push(("target", J::Int(real_target.as_usize() as i128)));
                t.push(("imaginary", J::Int(imaginary_target.as_usize() as i128)));
            }
            TerminatorKind::FalseUnwind { real_target, .. } => {
                t.push(("k", s("falseunwind")));
                t.push(("target", J::Int(real_target.as_usize() as i128)));
            }
            TerminatorKind::InlineAsm { .. } => t.push(("k", s("asm"))),
        }
        t.push(("loc", loc));
        t.push(("exp", exp));
        blocks.push(J::Obj(vec![("cleanup", J::Bool(data.is_cleanup)), ("stmts", J::Arr(stmts)), ("term", J::Obj(t))]));
    }
    o.push(("blocks", J::Arr(blocks)));
    J::Obj(o)
}

struct Cb;

impl rustc_driver::Callbacks for Cb {
    fn after_expansion<'tcx>(&mut self, _c: &rustc_interface::interface::Compiler, tcx: TyCtxt<'tcx>) -> Compilation {
        let want = std::env::var("UTPSA_CRATE").unwrap_or_else(|_| "librqbit_utp".to_string());
        let cname = tcx.crate_name(LOCAL_CRATE).to_string();
        if cname != want {
            return Compilation::Continue;
        }
        let Ok(out_path) = std::env::var("UTPSA_OUT") else {
            return Compilation::Continue;
        };
        let mut top: Vec<(&'static str, J)> = vec![("crate", s(cname)), ("schema", J::Int(7))];
        top.push(("is_test", J::Bool(tcx.sess.is_test_crate())));

        // ------------------------------------------------------------ ADTs, consts, impls
        let mut adts: Vec<(String, J)> = vec![];
        let mut consts: Vec<(String, J)> = vec![];
        let mut impls: Vec<J> = vec![];
        let mut fns: Vec<(String, J)> = vec![];
        for ldid in tcx.hir_crate_items(()).definitions() {
            let did = ldid.to_def_id();
            match tcx.def_kind(did) {
                DefKind::Struct | DefKind::Enum | DefKind::Union => {
                    let adt = tcx.adt_def(did);
                    let mut variants = vec![];
                    for (vi, vd) in adt.variants().iter_enumerated() {
                        let fields: Vec<J> = vd
                            .fields
                            .iter()
                            .map(|f| {
                                J::Obj(vec![
                                    ("name", s(f.name.to_string())),
                                    ("ty", s(ty_str(tcx.type_of(f.did).instantiate_identity().skip_norm_wip()))),
                                    ("vis", s(format!("{:?}", f.vis))),
                                ])
                            })
                            .collect();
                        let discr = if adt.is_enum() { J::Int(adt.discriminant_for_variant(tcx, vi).val as i128) } else { J::Null };
                        variants.push(J::Obj(vec![("name", s(vd.name.to_string())), ("discr", discr), ("fields", J::Arr(fields))]));
                    }
                    let (loc, _) = loc_json(tcx, tcx.def_span(did));
                    adts.push((
                        dpath(tcx, did),
                        J::Obj(vec![
                            ("kind", s(if adt.is_enum() { "enum" } else if adt.is_union() { "union" } else { "struct" })),
                            ("variants", J::Arr(variants)),
                            ("vis", s(format!("{:?}", tcx.visibility(did)))),
                            ("loc", loc),
                        ]),
                    ));
                }
                DefKind::Const { .. } | DefKind::AssocConst { .. } | DefKind::Static { .. } => {
                    let generic = tcx.generics_of(did).requires_monomorphization(tcx);
                    let ty = tcx.type_of(did).instantiate_identity().skip_norm_wip();
                    let mut o: Vec<(&'static str, J)> = vec![("ty", s(ty_str(ty)))];
                    if !generic && !matches!(tcx.def_kind(did), DefKind::Static { .. }) {
                        match tcx.const_eval_poly(did) {
                            Ok(v) => {
                                if let Some(si) = v.try_to_scalar_int() {
                                    o.push(("scalar", scalar_json(si, ty)));
                                }
                                o.push(("pretty", s(with_no_trimmed_paths!(format!("{}", mir::Const::Val(v, ty))))));
                            }
                            Err(_) => o.push(("error", J::Bool(true))),
                        }
                    }
                    let (loc, _) = loc_json(tcx, tcx.def_span(did));
                    o.push(("loc", loc));
                    consts.push((dpath(tcx, did), J::Obj(o)));
                }
                DefKind::Impl { of_trait } => {
                    let sty = tcx.type_of(did).instantiate_identity().skip_norm_wip();
                    let mut o: Vec<(&'static str, J)> = vec![("self_ty", s(ty_str(sty)))];
                    if let ty::Adt(adt, _) = sty.kind() {
                        o.push(("self_adt", s(dpath(tcx, adt.did()))));
                    }
                    if of_trait {
                        let tr = tcx.impl_trait_ref(did).instantiate_identity().skip_norm_wip();
                        o.push(("trait", s(dpath(tcx, tr.def_id))));
                        o.push(("trait_args", s(with_no_trimmed_paths!(format!("{}", tr)))));
                    }
                    o.push(("derived", J::Bool(tcx.is_automatically_derived(did))));
                    let items: Vec<J> = tcx.associated_item_def_ids(did).iter().map(|d| s(dpath(tcx, *d))).collect();
                    o.push(("items", J::Arr(items)));
                    impls.push(J::Obj(o));
                }
                DefKind::Fn | DefKind::AssocFn => {
                    // signature facts (also for trait method declarations without body)
                    let sig = tcx.fn_sig(did).instantiate_identity().skip_norm_wip().skip_binder();
                    let inputs: Vec<J> = sig.inputs().iter().map(|t| s(ty_str(*t))).collect();
                    fns.push((
                        dpath(tcx, did),
                        J::Obj(vec![
                            ("inputs", J::Arr(inputs)),
                            ("output", s(ty_str(sig.output()))),
                            ("vis", s(format!("{:?}", tcx.visibility(did)))),
                        ]),
                    ));
                }
                _ => {}
            }
        }
        top.push(("adts", J::Map(adts)));
        top.push(("consts", J::Map(consts)));
        top.push(("impls", J::Arr(impls)));
        top.push(("fns", J::Map(fns)));

        // ------------------------------------------------------------ bodies
        let mut bodies: Vec<(String, J)> = vec![];
        let mut inline_consts: Vec<(String, J)> = vec![];
        let mut stolen = 0i128;
        for def in tcx.hir_body_owners() {
            let did = def.to_def_id();
            let kind = tcx.def_kind(did);
            if matches!(kind, DefKind::InlineConst) {
                continue;
            }
            if !matches!(kind, DefKind::Fn | DefKind::AssocFn | DefKind::Closure) {
                continue;
            }
            let path = dpath(tcx, did);
            let (steal, psteal) = tcx.mir_promoted(def);
            if steal.is_stolen() {
                stolen += 1;
                // const fn bodies may have been consumed by CTFE: fall back to a later phase
                let b = tcx.mir_drops_elaborated_and_const_checked(def);
                if b.is_stolen() {
                    let b = tcx.optimized_mir(did);
                    bodies.push((path, body_json(tcx, def, b, "optimized", None)));
                } else {
                    let b = b.borrow();
                    bodies.push((path, body_json(tcx, def, &b, "elaborated", None)));
                }
                continue;
            }
            let body = steal.borrow();
            if psteal.is_stolen() {
                bodies.push((path, body_json(tcx, def, &body, "promoted", None)));
            } else {
                let pv = psteal.borrow();
                bodies.push((path, body_json(tcx, def, &body, "promoted", Some(&*pv))));
            }
        }
        let _ = &mut inline_consts;
        top.push(("stolen", J::Int(stolen)));
        top.push(("bodies", J::Map(bodies)));

        let mut out = String::new();
        J::Obj(top).write(&mut out);
        let tmp = format!("{out_path}.tmp.{}", std::process::id());
        std::fs::write(&tmp, out).expect("write facts");
        std::fs::rename(&tmp, &out_path).expect("rename facts");
        Compilation::Continue
    }
}

fn main() {
    let mut args: Vec<String> = std::env::args().collect();
    // RUSTC_WORKSPACE_WRAPPER passes the real rustc as argv[1]
    if args.len() > 1 && (args[1].ends_with("rustc") || args[1].contains("/rustc")) {
        args.remove(1);
    }
    rustc_driver::run_compiler(&args, &mut Cb);
}
