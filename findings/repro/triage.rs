use std::{
    sync::{Arc, atomic::{AtomicUsize, Ordering}},
    task::{Context, Poll, Wake, Waker},
    pin::Pin,
};

use futures::FutureExt;
use tokio::io::{AsyncRead, AsyncWrite, AsyncWriteExt, ReadBuf};

use crate::{
    SocketOpts,
    raw::{Type::*, UtpHeader},
    stream_dispatch::tests::make_test_vsock,
    test_util::setup_test_logging,
};

struct CountWaker(AtomicUsize);
impl Wake for CountWaker {
    fn wake(self: Arc<Self>) { self.0.fetch_add(1, Ordering::SeqCst); }
    fn wake_by_ref(self: &Arc<Self>) { self.0.fetch_add(1, Ordering::SeqCst); }
}

// KF2: poll_shutdown on an idle connection does not wake the dispatcher.
#[tokio::test]
async fn kf2_shutdown_does_not_wake_dispatcher() {
    setup_test_logging();
    let mut t = make_test_vsock(Default::default(), false);
    let (_r, mut w) = t.stream.take().unwrap().split();

    let dw = Arc::new(CountWaker(AtomicUsize::new(0)));
    let dwaker = Waker::from(dw.clone());
    let mut dcx = Context::from_waker(&dwaker);
    // Dispatcher goes idle: nothing to do, registers its wakers, returns Pending.
    assert!(t.vsock.poll_unpin(&mut dcx).is_pending());
    let before = dw.0.load(Ordering::SeqCst);

    let ww = Arc::new(CountWaker(AtomicUsize::new(0)));
    let wwaker = Waker::from(ww.clone());
    let mut wcx = Context::from_waker(&wwaker);
    assert!(Pin::new(&mut w).poll_shutdown(&mut wcx).is_pending());

    let after = dw.0.load(Ordering::SeqCst);
    eprintln!("TRIAGE kf2 dispatcher wakes before={before} after={after}");
    // and the FIN is only emitted when somebody polls the dispatcher anyway:
    t.assert_sent_empty();
    assert!(t.vsock.poll_unpin(&mut dcx).is_pending());
    let sent = t.take_sent();
    eprintln!("TRIAGE kf2 sent after manual poll: {sent:?}");
    assert_eq!(after, before, "KF2 reproduced if equal: no wake");
}

// KF3: FIN-only flush does not wake a blocked reader.
#[tokio::test]
async fn kf3_eof_does_not_wake_reader() {
    setup_test_logging();
    let mut t = make_test_vsock(Default::default(), false);
    let (mut r, _w) = t.stream.take().unwrap().split();
    let rw = Arc::new(CountWaker(AtomicUsize::new(0)));
    let rwaker = Waker::from(rw.clone());
    let mut rcx = Context::from_waker(&rwaker);
    let mut buf = [0u8; 16];
    let mut rb = ReadBuf::new(&mut buf);
    assert!(Pin::new(&mut r).poll_read(&mut rcx, &mut rb).is_pending());

    t.send_msg(UtpHeader { htype: ST_FIN, seq_nr: 1.into(), ack_nr: 100.into(), wnd_size: 1024, ..Default::default() }, "");
    t.poll_once_assert_pending().await;
    let wakes = rw.0.load(Ordering::SeqCst);
    let mut rb = ReadBuf::new(&mut buf);
    let res = Pin::new(&mut r).poll_read(&mut rcx, &mut rb);
    eprintln!("TRIAGE kf3 reader wakes after FIN flushed = {wakes}; poll_read now = {res:?} filled={}", rb.filled().len());
}

// KF4: zero-length read returns Pending without registering a waker
#[tokio::test]
async fn kf4_zero_len_read() {
    setup_test_logging();
    let mut t = make_test_vsock(Default::default(), false);
    let (mut r, _w) = t.stream.take().unwrap().split();
    t.send_data(1, 100, "hello");
    t.poll_once_assert_pending().await;
    let rw = Arc::new(CountWaker(AtomicUsize::new(0)));
    let rwaker = Waker::from(rw.clone());
    let mut rcx = Context::from_waker(&rwaker);
    let mut buf = [0u8; 0];
    let mut rb = ReadBuf::new(&mut buf);
    let res = Pin::new(&mut r).poll_read(&mut rcx, &mut rb);
    eprintln!("TRIAGE kf4 zero-len poll_read with data available = {res:?}");
}

// KF5: FIN in SynAckSent with a sequence gap is accepted and acked.
#[tokio::test]
async fn kf5_synacksent_fin_gap() {
    setup_test_logging();
    let mut t = make_test_vsock(Default::default(), true);
    t.poll_once_assert_pending().await; // sends SYN-ACK
    eprintln!("TRIAGE kf5 synack: {:?}", t.take_sent());
    // remote FIN with seq 5: data 1..4 never arrived
    t.send_msg(UtpHeader { htype: ST_FIN, seq_nr: 5.into(), ack_nr: 100.into(), wnd_size: 1024, ..Default::default() }, "");
    let res = t.poll_once().await;
    eprintln!("TRIAGE kf5 poll={res:?} sent={:?}", t.take_sent());
}

// KF7: per-connection inbound queue is unbounded
#[tokio::test]
async fn kf7_unbounded_rx() {
    setup_test_logging();
    let mut t = make_test_vsock(Default::default(), false);
    for i in 0..100_000u32 {
        t.send_data(((i % 60000) as u16).wrapping_add(2000), 100, "x");
    }
    eprintln!("TRIAGE kf7 queued={}", t.vsock.rx.len());
}

#[test]
fn kf6_kf8_kf9_pure() {
    use crate::utils::seq_nr_offset;
    let got = seq_nr_offset(964, 65000, 1024);
    eprintln!("TRIAGE kf6 seq_nr_offset(964,65000)={got} true_modular=1500");
    let mut ss = crate::mtu::SegmentSizes::new(crate::mtu::SegmentSizesConfig { is_ipv4: true, link_mtu: 1000, ..Default::default() });
    let before = (ss.mss(), ss.max_ss());
    ss.on_payload_delivered(1400);
    eprintln!("TRIAGE kf8 link_mtu=1000 before={before:?} after=({}, {}) next={}", ss.mss(), ss.max_ss(), ss.next_segment_size());
    let sack = crate::raw::selective_ack::SelectiveAck::deserialize(&[1]);
    let h = UtpHeader { extensions: crate::raw::Extensions { selective_ack: Some(sack), ..Default::default() }, ..Default::default() };
    let mut buf = [0u8; 64];
    let n = h.serialize(&mut buf).unwrap();
    let (h2, n2) = UtpHeader::deserialize(&buf[..n]).unwrap();
    eprintln!("TRIAGE kf9 roundtrip equal={} n={n} n2={n2} len1={} len2={}", h == h2, sack.len(), h2.extensions.selective_ack.unwrap().len());
}

// KF10: reader dropped last (after writer) on an idle connection does not wake the dispatcher.
#[tokio::test]
async fn kf10_reader_dropped_last_no_wake() {
    setup_test_logging();
    let mut t = make_test_vsock(Default::default(), false);
    let (r, w) = t.stream.take().unwrap().split();
    let dw = Arc::new(CountWaker(AtomicUsize::new(0)));
    let dwaker = Waker::from(dw.clone());
    let mut dcx = Context::from_waker(&dwaker);
    assert!(t.vsock.poll_unpin(&mut dcx).is_pending());
    drop(w);
    let after_w = dw.0.load(Ordering::SeqCst);
    assert!(t.vsock.poll_unpin(&mut dcx).is_pending());
    t.assert_sent_empty();
    drop(r);
    let after_r = dw.0.load(Ordering::SeqCst);
    eprintln!("TRIAGE kf10 wakes after writer drop={after_w} after reader drop={after_r}");
    assert!(t.vsock.poll_unpin(&mut dcx).is_pending());
    eprintln!("TRIAGE kf10 sent after manual poll: {:?}", t.take_sent());
}

// KF1: after an EMSGSIZE-popped MTU probe the re-segmented sequence number carries bytes from the
// wrong ring offset (bytes skipped). Needs: use crate::constants::{IPV4_HEADER, UDP_HEADER};
#[tokio::test]
async fn kf1_emsgsize_probe_pop_skips_bytes() {
    use crate::constants::{IPV4_HEADER, UDP_HEADER};
    setup_test_logging();
    let mut t = make_test_vsock(
        SocketOpts {
            disable_nagle: true,
            ..Default::default()
        },
        false,
    );
    const FAKE_MTU: usize = 1000;
    t.transport
        .set_max_payload_len((FAKE_MTU as u16 - IPV4_HEADER - UDP_HEADER) as usize);
    t.vsock
        .segment_sizes
        .set_probe_expiry_cooldown_max_packets(2);
    t.vsock
        .congestion_controller
        .on_recovered(1024 * 1024, 100 * 1024 * 1024);
    let (_r, mut w) = t.stream.take().unwrap().split();
    let data: Vec<u8> = (0..30000u32)
        .map(|i| b'a' + (i % 23) as u8 + ((i / 23) % 3) as u8)
        .collect();
    w.write_all(&data).await.unwrap();
    t.poll_once_assert_pending().await;
    let sent = t.take_sent();
    // last transmission per seq_nr wins
    let mut by_seq = std::collections::BTreeMap::new();
    for m in sent {
        eprintln!("TRIAGE kf1 sent seq={} len={}", m.header.seq_nr, m.payload().len());
        by_seq.insert(m.header.seq_nr.0, m.payload().to_vec());
    }
    let mut stream = Vec::new();
    for (_, p) in by_seq {
        stream.extend_from_slice(&p);
    }
    eprintln!("TRIAGE kf1 stream_len={} prefix_ok={}", stream.len(), data.starts_with(&stream));
    assert!(data.starts_with(&stream), "bytes on the wire are not a prefix of bytes written");
}

// KF1b: same accounting defect on the expiry path (pop_expired_mtu_probe).
#[tokio::test]
async fn kf1b_expired_probe_pop_skips_bytes() {
    use std::time::Duration;
    setup_test_logging();
    let mut t = make_test_vsock(
        SocketOpts {
            mtu_probe_max_retransmissions: Some(0),
            disable_nagle: true,
            vsock_tx_bufsize_bytes_initial: Some(non_zero_const!(1024 * 1024)),
            ..Default::default()
        },
        false,
    );
    t.vsock
        .congestion_controller
        .on_recovered(1024 * 1024, 100 * 1024 * 1024);
    let (_r, mut w) = t.stream.take().unwrap().split();
    let data: Vec<u8> = (0..30000u32)
        .map(|i| b'a' + (i % 23) as u8 + ((i / 23) % 3) as u8)
        .collect();
    w.write_all(&data).await.unwrap();
    t.poll_once_assert_pending().await;
    let mut by_seq = std::collections::BTreeMap::new();
    for m in t.take_sent() {
        eprintln!("TRIAGE kf1b sent seq={} len={}", m.header.seq_nr, m.payload().len());
        by_seq.insert(m.header.seq_nr.0, m.payload().to_vec());
    }
    // ack only the first (non-probe) segment; the probe (102) is black-holed
    t.env.increment_now(Duration::from_secs(1));
    t.send_msg(UtpHeader { htype: ST_STATE, seq_nr: 1.into(), ack_nr: 101.into(), wnd_size: 1024 * 1024, ..Default::default() }, "");
    t.poll_once_assert_pending().await;
    for m in t.take_sent() { by_seq.insert(m.header.seq_nr.0, m.payload().to_vec()); }
    t.env.increment_now(t.vsock.rtte.retransmission_timeout());
    t.poll_once_assert_pending().await;
    for m in t.take_sent() {
        eprintln!("TRIAGE kf1b after-rto sent seq={} len={}", m.header.seq_nr, m.payload().len());
        by_seq.insert(m.header.seq_nr.0, m.payload().to_vec());
    }
    let mut stream = Vec::new();
    for (_, p) in by_seq { stream.extend_from_slice(&p); }
    eprintln!("TRIAGE kf1b stream_len={} prefix_ok={}", stream.len(), data.starts_with(&stream));
}

// KF11 candidate: ACK for segmented-but-unsent data near the 16-bit wrap + SACK => calc_pipe range_mut(..take) out of range?
#[tokio::test]
async fn kf11_ack_beyond_sent_near_wrap() {
    use crate::stream_dispatch::{StreamArgs, tests::make_test_vsock_args};
    use crate::test_util::env::MockUtpEnvironment;
    use crate::traits::UtpEnvironment;
    use std::time::Duration;
    setup_test_logging();
    let env = MockUtpEnvironment::new();
    let remote_ack = UtpHeader {
        htype: ST_STATE,
        seq_nr: 1.into(),
        ack_nr: 64499.into(),
        wnd_size: 1024 * 1024,
        ..Default::default()
    };
    let now = env.now();
    env.increment_now(Duration::from_secs(1));
    let args = StreamArgs::new_outgoing(&remote_ack, now, env.now());
    let mut t = make_test_vsock_args(
        SocketOpts {
            vsock_tx_bufsize_bytes_initial: Some(non_zero_const!(1024 * 1024)),
            link_mtu: Some(non_zero_const!(576)),
            ..Default::default()
        },
        args,
        env,
    );
    let (_r, mut w) = t.stream.take().unwrap().split();
    let data = vec![b'x'; 1024 * 1024];
    w.write_all(&data).await.unwrap();
    t.poll_once_assert_pending().await;
    let sent = t.take_sent();
    eprintln!("TRIAGE kf11 first flight: {} packets, first seq={} ; segments queued={}", sent.len(), sent[0].header.seq_nr, t.vsock.user_tx_segments.total_len_packets());
    // Peer acknowledges data we never sent, in two steps of <= 1024 (so each passes the wrap tolerance),
    // the first one carrying 3 SACK bits (enters recovery). Both arrive before the next poll.
    for (step, sack) in [(1000u16, true), (1500u16, false)] {
        let ack: u16 = 64500u16.wrapping_add(step);
        t.send_msg(
            UtpHeader {
                htype: ST_STATE,
                seq_nr: 1.into(),
                ack_nr: ack.into(),
                wnd_size: 1024 * 1024,
                extensions: crate::raw::Extensions {
                    selective_ack: if sack { Some(crate::raw::selective_ack::SelectiveAck::deserialize(&[0b0000_0111, 0, 0, 0])) } else { None },
                    ..Default::default()
                },
                ..Default::default()
            },
            "",
        );
    }
    let res = t.poll_once().await;
    eprintln!("TRIAGE kf11 poll after hostile ack = {res:?}");
}

// KF13: zero window + lost window update => sender sleeps with accepted bytes and no timer armed.
#[tokio::test]
async fn kf13_zero_window_no_persist_timer() {
    setup_test_logging();
    let mut t = make_test_vsock(Default::default(), false);
    t.send_msg(UtpHeader { htype: ST_STATE, seq_nr: 0.into(), ack_nr: t.vsock.seq_nr, wnd_size: 5, ..Default::default() }, "");
    t.stream.as_mut().unwrap().write_all(b"hello world").await.unwrap();
    t.poll_once_assert_pending().await;
    let _ = t.take_sent();
    // peer acks everything in flight and closes its window
    t.send_msg(UtpHeader { htype: ST_STATE, seq_nr: 0.into(), ack_nr: 101.into(), wnd_size: 0, ..Default::default() }, "");
    t.poll_once_assert_pending().await;
    t.assert_sent_empty();
    let ring_len = { let c = t.vsock.user_tx.consumer.lock(); let s = ringbuf::traits::Consumer::as_slices(&*c); s.0.len() + s.1.len() };
    let next = t.vsock.next_timer_to_poll();
    eprintln!("TRIAGE kf13 bytes accepted but unsent in ring={ring_len} segments={} next_timer_to_poll={next:?}", t.vsock.user_tx_segments.total_len_packets());
    // the (single) window update is lost; advance time by an hour: nothing is ever sent, nothing fails.
    for _ in 0..60 {
        t.env.increment_now(std::time::Duration::from_secs(60));
        t.poll_once_assert_pending().await;
    }
    eprintln!("TRIAGE kf13 after 1h of silence sent={:?}", t.take_sent());
}
