// Paste inside `mod tests` of src/socket.rs (needs private access to Dispatcher / MockInterface).
    // KF12 candidate: a fresh SYN can overtake an older cached SYN when an acceptor and the new SYN
    // become ready while the dispatcher is parked in select!.
    #[tokio::test]
    async fn kf12_syn_overtakes_cached_syn() {
        use crate::raw::{Type, UtpHeader};
        use crate::traits::Transport;
        setup_test_logging();
        let server_addr: SocketAddr = (Ipv4Addr::LOCALHOST, 2).into();
        let a_addr: SocketAddr = (Ipv4Addr::LOCALHOST, 10).into();
        let b_addr: SocketAddr = (Ipv4Addr::LOCALHOST, 11).into();
        let mut overtakes = 0;
        let mut in_order = 0;
        let mut other = 0;
        for _round in 0..60 {
            let interface = MockInterface::new();
            let server = interface.create_socket(server_addr); // dispatcher task spawned
            let (a, _da) = interface.create_socket_with_dispatcher(a_addr);
            let (b, _db) = interface.create_socket_with_dispatcher(b_addr);
            let syn = |conn: u16| {
                let h = UtpHeader { htype: Type::ST_SYN, connection_id: conn.into(), seq_nr: 7.into(), ..Default::default() };
                let mut buf = [0u8; 20];
                h.serialize(&mut buf).unwrap();
                buf
            };
            // SYN A arrives, no acceptor: dispatcher caches it and parks in select!.
            a.transport.send_to(&syn(100), server_addr).await.unwrap();
            tokio::time::sleep(Duration::from_millis(5)).await;
            // accept() enqueues its request (wakes the dispatcher) and, before the dispatcher gets to
            // run, SYN B arrives as well: both select! branches are ready at its next poll.
            let mut acc = Box::pin(async { server.accept().await.map(|s| s.remote_addr()) });
            assert!(futures::poll!(&mut acc).is_pending());
            b.transport.send_to(&syn(200), server_addr).await.unwrap();
            let acc = async { Ok::<_, ()>(acc.await) };
            match tokio::time::timeout(Duration::from_millis(300), acc).await {
                Ok(Ok(Ok(addr))) if addr == b_addr => overtakes += 1,
                Ok(Ok(Ok(addr))) if addr == a_addr => in_order += 1,
                _ => other += 1,
            }
        }
        eprintln!("TRIAGE kf12 first accept() got the NEWER SYN in {overtakes} rounds, the older in {in_order} rounds, other={other}");
    }

