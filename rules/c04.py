"""C04 receiver honesty: ack_nr / wnd_size / SACK come from the receive state only and never overstate."""
from .common import *
from .c02 import VS
from utpsa.flow import controlling_edges, describe_cond
from utpsa.bounds import Bounds, fmt as fmt_ub
from utpsa.discr import DiscrTracker, discr_key
from utpsa.prov import upvar_origin

PIM = VS + "::process_incoming_message"
LCR = "VirtualSocket.last_consumed_remote_seq_nr"


@rule("C04.1", ["C04", "C11"], ["E1", "E4"], "ack_nr / wnd_size / connection_id / SACK of every emitted stream packet come from the receive state",
      "Within the connection code UtpHeader.ack_nr, .wnd_size and .connection_id are written only in outgoing_header, from last_consumed_remote_seq_nr, rx_window() and conn_id_send; "
      "extensions.selective_ack only in send_ack from user_rx.selective_ack(); every header handed to send_control_packet or serialized by a send_data! closure is the result of outgoing_header().")
def c04_1(R):
    F = R.facts
    oh = R.body(VS + "::outgoing_header")
    want = {"UtpHeader.ack_nr": ("field", LCR), "UtpHeader.wnd_size": ("call", VS + "::rx_window"), "UtpHeader.connection_id": ("field", "VirtualSocket.conn_id_send")}
    seen = set()
    for b in F.bodies(lambda n: not n.startswith("raw::") and not n.startswith("<raw::")):
        for s in b.stmts():
            f = written_field(b, s)
            if f in want:
                src = value_sources(b, s.rv.ops[0]) if s.rv.ops else set()
                if b.name == oh.name and src == {want[f]}:
                    seen.add(f)
                    R.ok("header-field-source:" + f, b.name, "<- %s" % (want[f][1].split("::")[-1]))
                else:
                    R.fail([owner_fn(b), "write(%s)" % f, "sources=" + sources_str(b, s.rv.ops[0]) if s.rv.ops else "?"], "%s written outside outgoing_header or from a different source" % f, where=s.where(), instance="header-field-source:" + f)
            if f == "Extensions.selective_ack":
                src = value_sources(b, s.rv.ops[0]) if s.rv.ops else set()
                if owner_fn(b) == VS + "::send_ack" and src == {("call", "stream_rx::UserRx::selective_ack")}:
                    seen.add(f)
                    R.ok("header-field-source:" + f, b.name, "<- user_rx.selective_ack()")
                else:
                    R.fail([owner_fn(b), "write(Extensions.selective_ack)", "sources=" + sources_str(b, s.rv.ops[0]) if s.rv.ops else "?"], "selective_ack extension written outside send_ack or not from the reassembly queue", where=s.where(), instance="header-field-source:" + f)
    R.floor("audited header field writes", len(seen), 4)
    # UtpHeader aggregates in the connection code: none allowed (socket.rs builds SYN / RST only)
    for b in F.bodies(lambda n: n.startswith("stream_dispatch")):
        for s in b.stmts():
            if s.rv.kind == "agg" and s.rv.j.get("adt") == "raw::UtpHeader":
                R.fail([owner_fn(b), "construct(UtpHeader)"], "a UtpHeader is built from scratch in the connection code (bypasses outgoing_header)", where=s.where(), instance="no-header-aggregate")
    R.ok("no-header-aggregate", "stream_dispatch::*", "no UtpHeader aggregate in the connection code")
    # headers reaching the wire
    n = 0
    for b, t in census_calls(R, F, (VS + "::send_control_packet",)):
        n += 1
        tr = trace(b, t.args[2])
        if tr.kind == "call" and call_matches(tr.root[1], (VS + "::outgoing_header",)) and not tr.fields:
            R.ok("sent-header<-outgoing_header", owner_fn(b), "send_control_packet(header <- outgoing_header())")
        else:
            R.fail([owner_fn(b), "send_control_packet", "header-source=" + tr.describe()], "send_control_packet called with a header that is not the result of outgoing_header()", where=t.where(), instance="sent-header<-outgoing_header")
    R.floor("send_control_packet call sites", n, 3)
    stq = R.body(VS + "::send_tx_queue")
    hl = [i for i, l in enumerate(stq.locals) if l["ty"] == "raw::UtpHeader" and l["user"] and stq.all_defs(i)]
    R.require(len(hl) == 1, "the one UtpHeader local of send_tx_queue")
    d = stq.all_defs(hl[0])
    if len(d) == 1 and isinstance(d[0], Term) and call_matches(d[0], (VS + "::outgoing_header",)):
        R.ok("sent-header<-outgoing_header", stq.name, "ST_DATA header <- outgoing_header()")
    else:
        R.fail([stq.name, "header-defs=%d" % len(d)], "the ST_DATA header of send_tx_queue is not (only) the result of outgoing_header()", where=stq.where(), instance="sent-header<-outgoing_header")
    from .c02 import send_data_closures
    for c in send_data_closures(R):
        for t in c.calls():
            if call_matches(t, ("raw::UtpHeader::serialize",)):
                tr = trace(c, t.args[0])
                uo = upvar_origin(c, tr.root[1]) if tr.kind == "upvar" else None
                if uo is not None and uo[0] == "local" and uo[1] == hl[0] and uo[2].name == stq.name:
                    R.ok("sent-header<-outgoing_header", "send_data! closure", "serializes the captured `header`")
                else:
                    R.fail([owner_fn(c), "send_data", "serialize-source=" + tr.describe()], "a send_data! expansion serializes a header other than the captured outgoing header", where=t.where(), instance="sent-header<-outgoing_header")


@rule("C04.2", ["C04"], ["E1", "E4"], "the receive cursor is written at exactly two audited sites and only moves forward",
      "VirtualSocket.last_consumed_remote_seq_nr is written only (a) by `+= sequence_numbers as u16` with sequence_numbers from AssemblerAddRemoveResult::Consumed and (b) by `= hdr.seq_nr` in the FIN arm "
      "(plus the constructor aggregate); every &mut borrow of it flows into AddAssign only. `+=` of an unsigned count never moves the cursor backwards.")
def c04_2(R):
    F = R.facts
    n = 0
    for b in F.bodies():
        for s in b.stmts():
            if written_field(b, s) == LCR:
                n += 1
                src = value_sources(b, s.rv.ops[0]) if s.rv.ops else set()
                if owner_fn(b) == PIM and src == {("field", "UtpHeader.seq_nr")}:
                    R.ok("cursor-writers", "FIN arm", "= hdr.seq_nr (guard: C04.3)")
                else:
                    R.fail([owner_fn(b), "write(%s)" % LCR, "sources=" + sources_str(b, s.rv.ops[0]) if s.rv.ops else "?"], "unaudited write of the receive cursor", where=s.where(), instance="cursor-writers")
            if s.rv.kind == "ref" and s.rv.j["bk"] == "mut" and s.rv.place is not None:
                ff, _, _ = place_fields(b, s.rv.place)
                if ff and ff[-1] == LCR:
                    n += 1
                    # who consumes the borrow?
                    users = [t for t in b.calls() if any(a.place is not None and a.place.is_local and a.place.local == s.place.local for a in t.args)]
                    if owner_fn(b) == PIM and len(users) == 1 and call_matches(users[0], ("AddAssign::add_assign",)):
                        amt = users[0].args[1]
                        tr = trace(b, amt)
                        src = value_sources(b, amt)
                        if any(x[0] == "field" and x[1].endswith("Consumed.sequence_numbers") for x in src) or "sequence_numbers" in tr.describe():
                            R.ok("cursor-writers", "Consumed arm", "+= sequence_numbers (from AssemblerAddRemoveResult::Consumed)")
                        else:
                            R.fail([PIM, "add_assign(%s)" % LCR, "sources=" + sources_str(b, amt)], "receive cursor advanced by something other than the assembler's consumed count", where=users[0].where(), instance="cursor-writers")
                    else:
                        R.fail([owner_fn(b), "&mut(%s)" % LCR, ",".join(short_callee(u.resolved) for u in users)], "unaudited mutable borrow of the receive cursor", where=s.where(), instance="cursor-writers")
    R.floor("writes of the receive cursor", n, 2)
    # the consumed count is the contiguous-run length computed in add_remove
    ar = R.body("stream_rx::OutOfOrderQueue::add_remove")
    okc = False
    for s in ar.stmts():
        if s.rv.kind == "agg" and s.rv.j.get("variant") == "Consumed":
            i = s.rv.j["fields"].index("sequence_numbers")
            src_t = trace(ar, s.rv.ops[i])
            # the same value is added to filled_front
            for s2 in ar.stmts():
                fu = field_update(ar, s2)
                if fu and fu.field == "OutOfOrderQueue.filled_front" and fu.op == "+=":
                    t2 = trace(ar, fu.amount)
                    if t2.key() == src_t.key():
                        okc = True
    if okc:
        R.ok("consumed-count=filled_front-advance", ar.name, "Consumed.sequence_numbers is the value added to filled_front")
    else:
        R.fail([ar.name, "Consumed.sequence_numbers", "differs-from(filled_front+=)"], "the count reported as consumed is not the amount by which the contiguous front advanced", where=ar.where(), instance="consumed-count=filled_front-advance")


def inseq_guard_edges(b):
    """edges taken when `hdr.seq_nr == last_consumed_remote_seq_nr + 1` was tested and found equal"""
    edges = set()
    for blk in b.blocks:
        if blk.cleanup or blk.term.kind != "switch" or blk.idx not in b.live_blocks():
            continue
        c, neg = switch_cond(b, blk.term)
        if c.kind != "call" or not call_matches(c.call, ("PartialEq::ne", "PartialEq::eq")):
            continue
        a0, a1 = trace(b, c.call.args[0]), trace(b, c.call.args[1])

        def is_hdr_seq(t):
            return t.last_field == "UtpHeader.seq_nr"

        def is_next(t):
            if t.kind == "call" and not t.fields and call_matches(t.root[1], ("Add::add",)):
                c2 = t.root[1]
                return trace(b, c2.args[0]).last_field == LCR and c2.args[1].kind == "const" and c2.args[1].scalar == 1
            return False
        if (is_hdr_seq(a0) and is_next(a1)) or (is_hdr_seq(a1) and is_next(a0)):
            be = bool_edges(b, blk.idx)
            is_ne = call_matches(c.call, ("PartialEq::ne",))
            equal_when_true = (not is_ne) != neg
            edges.add((blk.idx, be[1] if equal_when_true else be[0]))
    return edges


@rule("C04.3", ["C04", "C17", "C03"], ["E2", "E3", "E7"], "a FIN is accepted (cursor := its seq_nr) only in sequence, from every connection state",
      "The FIN-arm write `last_consumed_remote_seq_nr = hdr.seq_nr` is reachable only through the 'equal' edge of a test of hdr.seq_nr against last_consumed_remote_seq_nr + 1; "
      "computed per from-state with the discriminant dataflow on the (state, packet type) scrutinee, so the report names the connection states whose arm bypasses the guard.")
def c04_3(R):
    b = R.body(PIM)
    sites = [s for s in b.stmts() if written_field(b, s) == LCR]
    R.floor("FIN-arm write of the receive cursor", len(sites), 1)
    guard = inseq_guard_edges(b)
    R.floor("in-sequence guard tests (hdr.seq_nr vs last_consumed+1)", len(guard), 1)
    dt = DiscrTracker(b, enums={"stream_dispatch::VirtualSocketState", "raw::Type"})
    SE = "stream_dispatch::VirtualSocketState"
    state_keys = set()
    # the snapshot `(self.state, hdr.get_type())` that the big match scrutinises
    for s in b.stmts():
        if s.rv.kind == "agg" and s.rv.j["ak"] == "tuple" and s.place.is_local and s.rv.ops and trace(b, s.rv.ops[0]).last_field == "VirtualSocket.state":
            state_keys.add(("place", s.place.local, ("tuple.0",)))
    R.require(len(state_keys) == 1, "the (self.state, packet type) scrutinee tuple in process_incoming_message")
    skey = list(state_keys)[0]
    # boolean predicates over the from-state evaluated before any state write (E7 variant tables)
    from utpsa.discr import bool_fn_variant_table
    state_writes = {s.bb for s in b.stmts() if written_field(b, s) == "VirtualSocket.state"}
    pred_tables = {}
    for t in b.calls():
        if t.j.get("res_local") and t.args and trace(b, t.args[0]).last_field == "VirtualSocket.state" and b.local_ty(t.dest.local) == "bool":
            if any(t.bb in b.reachable(w) for w in state_writes):
                continue  # evaluated after a possible transition: not a predicate over the from-state
            tab = bool_fn_variant_table(R.body(t.resolved))
            if tab:
                pred_tables[t.dest.local] = (tab, t.resolved)
    allv = frozenset(v["name"] for v in R.facts.adt(SE)["variants"])

    def edge(term, tgt, label, s):
        passed, d = s
        r = dt.edge(term, tgt, label, d)
        if r is False:
            return []
        if term.kind == "switch" and label is not None:
            c, neg = switch_cond(b, term)
            tr = getattr(c, "trace", None)
            loc = None
            if c.kind in ("var", "multi") and tr is not None and not tr.fields:
                loc = tr.root[1]
            elif c.kind == "call" and c.call.dest.local in pred_tables:
                loc = c.call.dest.local
            if loc in pred_tables:
                truth = (label[1] != 0) if label[0] == "val" else (0 in label[1])
                if neg:
                    truth = not truth
                tab = pred_tables[loc][0]
                cur = dict(r)
                poss = cur.get(skey, allv) & frozenset(tab[truth])
                if not poss:
                    return []
                cur[skey] = poss
                r = frozenset(cur.items())
        if (term.bb, tgt) in guard:
            passed = True
        return [(passed, r)]
    site_bbs = {s.bb for s in sites}
    res = typestate(b, [(False, frozenset())], lambda it, s: None, edge, stop_blocks=site_bbs)
    bypass = set()
    total = set()
    wit = None
    for bb, states in res.exits.items():
        if bb not in site_bbs:
            continue
        for s in states:
            passed, d = s
            for k in state_keys:
                vs = dt.possible(d, k, "stream_dispatch::VirtualSocketState")
                total |= vs
                if not passed:
                    bypass |= vs
                    if wit is None:
                        wit = (bb, s)
    R.require(len(state_keys) >= 1, "match on the VirtualSocketState scrutinee in process_incoming_message")
    if bypass:
        R.fail([PIM, "write(%s=hdr.seq_nr)" % LCR, "not-guarded-by(in-sequence)", "bypass-from=" + ",".join(sorted(bypass))],
               "a FIN is accepted without the in-sequence test when the connection state is {%s}: any FIN seq_nr >= expected is acknowledged and closes the stream cleanly" % ", ".join(sorted(bypass)),
               where=sites[0].where(), witness=res.witness_lines(*wit), instance="fin-in-sequence")
    for v in sorted(total - bypass):
        R.ok("fin-in-sequence", "from-state " + v, "FIN accepted only on the equal edge of the in-sequence test")


@rule("C04.4", ["C04"], ["E5", "E4"], "the advertised window never overstates free buffer space",
      "UtpHeader.wnd_size carries the bound <= UserRx.last_remaining_rx_window (through rx_window / remaining_rx_window); remaining_rx_window subtracts the bytes parked in reassembly "
      "(saturating_sub with OutOfOrderQueue.len_bytes as subtrahend) or is 0; last_remaining_rx_window is written only in flush from MsgQueue::window() minus the flushed lengths (per iteration) "
      "and in the constructor; MsgQueue::window = capacity.saturating_sub(len_bytes).")
def c04_4(R):
    F = R.facts
    B = Bounds(F)
    oh = R.body(VS + "::outgoing_header")
    done = False
    for s in oh.stmts():
        if written_field(oh, s) == "UtpHeader.wnd_size":
            u = B.ub(oh, s.rv.ops[0])
            done = True
            if u is None or ("field", "UserRx.last_remaining_rx_window") in u:
                R.ok("wnd_size<=free-space", oh.name, "ub = " + fmt_ub(u))
            else:
                R.fail([oh.name, "wnd_size", "ub=" + fmt_ub(u)], "advertised window is no longer bounded by UserRx.last_remaining_rx_window", where=s.where(), instance="wnd_size<=free-space")
    R.require(done, "write of UtpHeader.wnd_size in outgoing_header")
    # subtrahends (an upper-bound tag cannot see a *missing* subtraction)
    def has_sat_sub(bname, minuend, subtrahend_pred, inst):
        b = R.body(bname)
        for t in b.calls():
            if call_matches(t, ("saturating_sub",)) and len(t.args) == 2:
                m = trace(b, t.args[0])
                if m.last_field == minuend and subtrahend_pred(b, t.args[1]):
                    R.ok(inst, bname, "saturating_sub(%s, %s)" % (minuend, sources_str(b, t.args[1])))
                    return
        R.fail([bname, "missing-subtraction", minuend], "%s no longer subtracts the expected quantity from %s" % (bname.split("::")[-1], minuend), where=b.where(), instance=inst)
    has_sat_sub("stream_rx::UserRx::remaining_rx_window", "UserRx.last_remaining_rx_window", lambda b, o: ("call", "stream_rx::OutOfOrderQueue::stored_bytes") in value_sources(b, o), "window-minus-reassembly-bytes")
    sb = R.body("stream_rx::OutOfOrderQueue::stored_bytes")
    if B.summary(sb.name) is not None and ("field", "OutOfOrderQueue.len_bytes") in value_sources(sb, [s for s in sb.stmts() if s.place.local == 0][0].rv.ops[0]):
        R.ok("window-minus-reassembly-bytes", sb.name, "stored_bytes() = len_bytes")
    else:
        R.fail([sb.name, "not(len_bytes)"], "stored_bytes no longer returns OutOfOrderQueue.len_bytes", where=sb.where(), instance="window-minus-reassembly-bytes")
    has_sat_sub("stream_rx::msgq::MsgQueue::window", "MsgQueue.capacity", lambda b, o: ("field", "MsgQueue.len_bytes") in value_sources(b, o), "queue-window=capacity-len_bytes")
    # reader dropped => 0
    rr = R.body("stream_rx::UserRx::remaining_rx_window")
    zero = [it for it, cls in ret_assignments(rr) if cls == "const:0"]
    if zero and any("is_reader_dropped=true" in describe_cond(rr, t, lab) for t, tgt, lab in controlling_edges(rr, zero[0].bb)):
        R.ok("reader-dropped=>window-0", rr.name)
    else:
        R.fail([rr.name, "no-zero-window-when-reader-dropped"], "remaining_rx_window no longer returns 0 when the reader is dropped", where=rr.where(), instance="reader-dropped=>window-0")
    # writers of last_remaining_rx_window
    fl = R.body("stream_rx::UserRx::flush")
    feed = None
    for b, s in census_field_writes(F, "UserRx.last_remaining_rx_window"):
        if b.name == fl.name:
            t = trace(b, s.rv.ops[0])
            if t.kind == "multi":
                feed = t.root[1]
                u = B.ub(b, s.rv.ops[0])
                if u is None or ("call", "stream_rx::msgq::MsgQueue::window") in u:
                    R.ok("last_remaining_rx_window-writers", b.name, "ub = " + fmt_ub(u))
                else:
                    R.fail([b.name, "write(UserRx.last_remaining_rx_window)", "ub=" + fmt_ub(u)], "flush stores a window that is not bounded by MsgQueue::window()", where=s.where(), instance="last_remaining_rx_window-writers")
            else:
                R.fail([b.name, "write(UserRx.last_remaining_rx_window)", "source=" + t.describe()], "flush stores a window from an unexpected source", where=s.where(), instance="last_remaining_rx_window-writers")
        else:
            R.fail([owner_fn(b), "write(UserRx.last_remaining_rx_window)"], "unaudited writer of last_remaining_rx_window", where=s.where(), instance="last_remaining_rx_window-writers")
    R.require(feed is not None, "flush writes last_remaining_rx_window from a local")
    # per iteration: an element moved to the user queue => the local window is decremented
    decs = {s.bb for s in fl.stmts() if (lambda lu: lu and lu[0] == feed and lu[1] == "-=")(local_update(fl, s))}
    back = [u for (u, v) in fl.back_edges()]
    some_targets = []
    from utpsa.wake import variant_of_edge
    for blk in fl.blocks:
        if blk.cleanup or blk.term.kind != "switch":
            continue
        for tgt, lab in fl.edges(blk.idx):
            c, var = variant_of_edge(fl, blk.term, lab)
            if c is not None and var == "Some" and c.trace.kind == "call" and call_matches(c.trace.root[1], ("OutOfOrderQueue::send_front_if_fits",)):
                some_targets.append(tgt)
    R.require(len(some_targets) >= 1 and back, "flush loop over send_front_if_fits")
    ok = True
    for st in some_targets:
        reach = fl.reachable(st, removed_blocks=decs)
        if any(u in reach for u in back):
            ok = False
    if ok and decs:
        R.ok("flushed=>window-decremented", fl.name, "every iteration that moved an element decrements the local window")
    else:
        R.fail([fl.name, "flushed-without(window-=len)"], "flush moves an element to the user queue without decrementing the remaining window it later advertises", where=fl.where(), instance="flushed=>window-decremented")
    # constructor
    ub_ = R.body("stream_rx::UserRx::build")
    for s in ub_.stmts():
        if s.rv.kind == "agg" and s.rv.j.get("adt") == "stream_rx::UserRx":
            i = s.rv.j["fields"].index("last_remaining_rx_window")
            src = value_sources(ub_, s.rv.ops[i])
            cap = None
            for s2 in ub_.stmts():
                pass
            if ("param", 1) in src:  # UserRx::build(max_rx_bytes, max_incoming_payload)
                R.ok("last_remaining_rx_window-init", ub_.name, "= max_rx_bytes (the MsgQueue capacity)")
            else:
                R.fail([ub_.name, "init(UserRx.last_remaining_rx_window)", "sources=" + sources_str(ub_, s.rv.ops[i])], "initial window is not the configured receive buffer size", where=s.where(), instance="last_remaining_rx_window-init")


@rule("C04.5", ["C04", "C10"], ["E2"], "the user queue never accepts more than its byte capacity; the flush only moves what fits",
      "MsgQueue.queue.push_back inside try_push_back is control-dependent on `capacity - len_bytes < len` = false; OutOfOrderQueue::send_front_if_fits pops only on `data[0].len_bytes() > window` = false "
      "and `filled_front == 0` = false.")
def c04_5(R):
    tp = R.body("stream_rx::msgq::MsgQueue::try_push_back")
    pushes = [t for t in tp.calls() if call_on_field(tp, t, ("VecDeque::push_back",), "MsgQueue.queue")]
    R.floor("push_back in try_push_back", len(pushes), 1)
    for t in pushes:
        conds = [describe_cond(tp, tt, lab) for tt, tgt, lab in controlling_edges(tp, t.bb)]
        ok = False
        for tt, tgt, lab in controlling_edges(tp, t.bb):
            c, neg = switch_cond(tp, tt)
            pol = (lab[1] != 0) if lab[0] == "val" else (0 in lab[1])
            if neg:
                pol = not pol
            o = ordering(c, pol)
            if o is not None:
                # len <= capacity - len_bytes
                sa = value_sources(tp, o[1])
                sb = value_sources(tp, o[0])
                if {("field", "MsgQueue.capacity"), ("field", "MsgQueue.len_bytes")} <= sa and any(x[0] == "call" and x[1].endswith("len_bytes") for x in sb):
                    ok = True
        if ok:
            R.ok("push=>fits-capacity", tp.name, "push only when !(capacity - len_bytes < len)")
        else:
            R.fail([tp.name, "push_back-not-guarded-by(capacity-len_bytes<len)", "guards=" + ",".join(sorted(conds))], "try_push_back can enqueue a message that does not fit the configured capacity", where=t.where(), instance="push=>fits-capacity")
    sf = R.body("stream_rx::OutOfOrderQueue::send_front_if_fits")
    pops = [t for t in sf.calls() if call_on_field(sf, t, ("VecDeque::pop_front",), "OutOfOrderQueue.data")]
    R.floor("pop_front in send_front_if_fits", len(pops), 1)
    for t in pops:
        conds = sorted(describe_cond(sf, tt, lab) for tt, tgt, lab in controlling_edges(sf, t.bb))
        fits = False
        for c_, truth_, d_, *_ in controlling(sf, t.bb):
            o_ = ordering(c_, truth_)
            if o_ is not None:
                lo_, hi_ = trace(sf, o_[0]), trace(sf, o_[1])
                # reached iff len_bytes(front) <= window ; send_front_if_fits(self, window, send_fn)
                if lo_.kind == "call" and call_matches(lo_.root[1], ("OoqMessage::len_bytes",)) and hi_.kind == "param" and hi_.root[1] == 2 and not hi_.fields:
                    fits = True
        nonempty = any("OutOfOrderQueue.filled_front" in c for c in conds)
        if fits and nonempty:
            R.ok("flush=>fits-window", sf.name, ",".join(conds))
        else:
            R.fail([sf.name, "pop_front-not-guarded", "guards=" + ",".join(conds)], "send_front_if_fits pops the front element without checking that it fits the window / that a contiguous front exists", where=t.where(), instance="flush=>fits-window")


SACK_ADAPTERS = ("std::iter::Iterator::skip", "std::iter::Iterator::take", "std::iter::Iterator::step_by", "std::iter::Iterator::rev", "std::iter::Iterator::filter",
                 "std::iter::Iterator::skip_while", "std::iter::Iterator::take_while", "std::iter::Iterator::chain", "std::iter::IntoIterator::into_iter", "std::iter::Iterator::by_ref")


@rule("C04.6", ["C04", "C06", "C01", "C02", "C05", "C03", "C12", "C18"], ["E4", "E2", "E7"], "receiver and sender agree on what a selective-ACK bit means",
      "Producer (OutOfOrderQueue::selective_ack): bit i is set iff slot filled_front + 1 + i of the reassembly queue is occupied - the range starts at filled_front + 1 (the slot after the first hole), is "
      "enumerated without any shifting adapter, the closure yields the unshifted index exactly for non-default slots, and SelectiveAck::new sets bit idx to true. Consumer (Segments::remove_up_to_ack): bit i "
      "is applied to the segment with sequence number ack_nr + 2 + i - sack_start = ack_nr + 2, the segment iterator is advanced by (sack_start - first_seq_nr) when that is >= 0 and the bit iterator by its "
      "negation otherwise, the pair handed to the marking closure is (segment, bit) of the same zip item, and a segment is marked delivered only under bit = true. The two offsets agree: slot "
      "filled_front + k holds sequence number ack_nr + 1 + k, so producer start (+1) + 1 = consumer start (+2). A disagreement marks an undelivered segment delivered (never retransmitted: lost bytes) "
      "or keeps retransmitting delivered ones.")
def c04_6(R):
    F = R.facts
    # ---------------- producer
    sa = R.body("stream_rx::OutOfOrderQueue::selective_ack")
    rng = [t for t in sa.calls() if call_on_field(sa, t, ("VecDeque::range",), "OutOfOrderQueue.data")]
    if len(rng) != 1:
        # describe what feeds SelectiveAck::new instead
        chain = []
        for t in sa.calls():
            if t.args and (t.callee or "").startswith("std::iter::Iterator::") or call_on_field(sa, t, ("VecDeque::iter", "VecDeque::range", "VecDeque::iter_mut"), "OutOfOrderQueue.data"):
                chain.append(short_callee(t.resolved))
        R.fail([sa.name, "sack-iterator-chain", ">".join(chain)[:120]], "the selective-ACK index iterator is no longer data.range(filled_front + 1 ..).enumerate().filter_map(..) (found: %s): indices are no longer relative to the slot after the first hole" % " > ".join(chain), where=sa.where(), instance="sack-producer-chain")
        return
    rg = trace(sa, rng[0].args[1])
    kp = None
    if rg.kind == "rv" and rg.root[1].rv.kind == "agg" and rg.root[1].rv.j.get("adt", "").endswith("RangeFrom"):
        base, kp = int_affine(sa, rg.root[1].rv.ops[0])
        if base.last_field != "OutOfOrderQueue.filled_front":
            kp = None
    if kp == 1:
        R.ok("sack-producer-start", sa.name, "bits describe data[filled_front + 1 ..]")
    else:
        R.fail([sa.name, "sack-range-start", "filled_front%+d" % kp if kp is not None else rg.describe()[:50]], "the selective ACK no longer starts at the slot after the first hole (filled_front + 1): every bit is shifted", where=rng[0].where(), instance="sack-producer-start")
    news = [t for t in sa.calls() if call_matches(t, ("raw::selective_ack::SelectiveAck::new",))]
    R.require(len(news) == 1, "SelectiveAck::new in selective_ack")
    it = trace(sa, news[0].args[0], extra_transparent=())
    chain_ok = False
    clo = None
    if it.kind == "call" and call_matches(it.root[1], ("Iterator::filter_map",)):
        fm = it.root[1]
        inner = trace(sa, fm.args[0], extra_transparent=())
        ct = trace(sa, fm.args[1])
        if ct.kind == "rv" and ct.root[1].rv.kind == "agg" and ct.root[1].rv.j.get("ak") == "closure":
            clo = F.body(ct.root[1].rv.j["closure"])
        if inner.kind == "call" and call_matches(inner.root[1], ("Iterator::enumerate",)):
            src = trace(sa, inner.root[1].args[0], extra_transparent=())
            chain_ok = src.kind == "call" and src.root[1] is rng[0]
    if chain_ok and clo is not None:
        R.ok("sack-producer-chain", sa.name, "range(start..).enumerate().filter_map(..) with nothing in between")
        okc = True
        nsome = 0
        for ra, cls in ret_assignments(clo):
            descs = [(c, truth) for c, truth, d, *_ in controlling(clo, ra.bb)]
            dflt = [truth for c, truth in descs if c.kind == "call" and call_matches(c.call, ("stream_rx::ooq_slot_is_default",))]
            if cls.startswith("Some("):
                nsome += 1
                tt = None
                if isinstance(ra, Stmt) and ra.rv.kind == "agg" and ra.rv.ops:
                    tt, k = int_affine(clo, ra.rv.ops[0])
                if not (tt is not None and k == 0 and tt.kind == "param" and tt.root[1] == 2 and tt.fields == ["tuple.0"] and dflt == [False]):
                    okc = False
            elif cls == "None":
                if dflt != [True]:
                    okc = False
            else:
                okc = False
        if okc and nsome >= 1:
            R.ok("sack-bit=occupied-slot", clo.name, "yields the unshifted enumerate index exactly for non-default slots")
        else:
            R.fail([sa.name, "sack-filter-closure"], "the selective-ACK bit for slot i is no longer 'slot start+i is occupied' (index shifted or predicate inverted)", where=clo.where(), instance="sack-bit=occupied-slot")
    else:
        R.fail([sa.name, "sack-iterator-chain", it.describe()[:60]], "the selective-ACK index iterator is no longer data.range(start..).enumerate().filter_map(..): an extra adapter shifts or drops indices", where=news[0].where(), instance="sack-producer-chain")
    nw = R.body("raw::selective_ack::SelectiveAck::new")
    sets = [(b2, t) for b2 in [nw] + F.closures_of(nw.name) for t in b2.calls() if (t.resolved or "").endswith("::set") and len(t.args) == 3]
    R.floor("bit set sites in SelectiveAck::new", len(sets), 1)
    for b2, t in sets:
        bt, k = int_affine(b2, t.args[1])
        val = t.args[2]
        if k == 0 and val.kind == "const" and val.scalar == 1:
            R.ok("sack-new-sets-bit[idx]", b2.name)
        else:
            R.fail([nw.name, "set(idx%+d,%s)" % (k, val.scalar if val.kind == "const" else "?")], "SelectiveAck::new no longer sets exactly bit idx for each yielded index", where=t.where(), instance="sack-new-sets-bit[idx]")
    # ---------------- consumer
    ru = R.body("stream_tx_segments::Segments::remove_up_to_ack")
    subs = []
    for t in ru.calls():
        if call_matches(t, ("Sub::sub",)) and len(t.args) == 2:
            a0, k0 = int_affine(ru, t.args[0])
            a1 = trace(ru, t.args[1])
            if a0.last_field == "UtpHeader.ack_nr" and k0 != 0 and a1.kind == "call" and call_matches(a1.root[1], ("stream_tx_segments::Segments::first_seq_nr",)):
                subs.append((t, k0))
    R.require(len(subs) == 1, "sack_start_offset = (ack_nr + k) - first_seq_nr in remove_up_to_ack")
    sso, kc = subs[0]
    if kc == 2:
        R.ok("sack-consumer-start", ru.name, "bit 0 <-> sequence number ack_nr + 2")
    else:
        R.fail([ru.name, "sack_start", "ack_nr%+d" % kc], "the sender applies selective-ACK bit 0 to sequence number ack_nr%+d instead of ack_nr+2" % kc, where=sso.where(), instance="sack-consumer-start")
    if kp is not None and kp + 1 == kc:
        R.ok("sack-offsets-agree", "producer +%d, consumer +%d" % (kp, kc), "slot filled_front+k <-> seq ack_nr+1+k")
    elif kp is not None:
        R.fail(["sack-offsets-disagree", "producer=filled_front%+d" % kp, "consumer=ack_nr%+d" % kc], "receiver and sender disagree by %d on which packet a selective-ACK bit names" % (kc - kp - 1), where=sso.where(), instance="sack-offsets-agree")

    def is_sso(op, negated):
        """operand is `sack_start_offset as usize` (negated: `(-sack_start_offset) as usize`)"""
        t = trace(ru, op)
        if negated:
            if t.kind == "rv" and t.root[1].rv.kind == "un" and t.root[1].rv.op == "Neg" and not t.fields:
                t = trace(ru, t.root[1].rv.ops[0])
            else:
                return False
        return t.kind == "call" and t.root[1] is sso and not t.fields
    zips = [t for t in ru.calls() if call_matches(t, ("Iterator::zip",))]
    R.floor("zip(segments, sack bits) sites", len(zips), 2)
    seen = set()
    for z in zips:
        left = trace(ru, z.args[0], extra_transparent=SACK_ADAPTERS)
        right = trace(ru, z.args[1], extra_transparent=SACK_ADAPTERS)
        l_ok = left.kind == "call" and call_on_field(ru, left.root[1], ("VecDeque::iter_mut",), "Segments.segments")
        r_ok = right.kind == "call" and call_matches(right.root[1], ("raw::selective_ack::SelectiveAck::iter",))
        lad = [s for s in left.steps if isinstance(s, Term) and s.kind == "call" and s.callee in SACK_ADAPTERS and not call_matches(s, ("IntoIterator::into_iter",))]
        rad = [s for s in right.steps if isinstance(s, Term) and s.kind == "call" and s.callee in SACK_ADAPTERS and not call_matches(s, ("IntoIterator::into_iter",))]
        # the sign of the offset on the path to this zip
        nonneg = neg = False
        for c, truth, d, *_ in controlling(ru, z.bb):
            for r_, x_, y_ in implied(c, truth):
                if r_ == "le" and x_.kind == "const" and x_.scalar == 0 and (lambda t: t.kind == "call" and t.root[1] is sso)(trace(ru, y_)):
                    nonneg = True
                if r_ == "lt" and y_.kind == "const" and y_.scalar == 0 and (lambda t: t.kind == "call" and t.root[1] is sso)(trace(ru, x_)):
                    neg = True
        shape = "L:%s R:%s sign:%s" % (",".join(short_callee(s.resolved) for s in lad) or "-", ",".join(short_callee(s.resolved) for s in rad) or "-", "+" if nonneg else "-" if neg else "?")
        good = False
        if l_ok and r_ok and nonneg and not rad and len(lad) == 1 and call_matches(lad[0], ("Iterator::skip",)) and is_sso(lad[0].args[1], False):
            good = True
            seen.add("+")
        if l_ok and r_ok and neg and not lad and len(rad) == 1 and call_matches(rad[0], ("Iterator::skip",)) and is_sso(rad[0].args[1], True):
            good = True
            seen.add("-")
        if good:
            R.ok("sack-alignment", "offset %s 0" % (">=" if nonneg else "<"), shape)
        else:
            R.fail([ru.name, "sack-zip-alignment", shape], "segments and selective-ACK bits are paired with the wrong alignment (%s): bits are applied to the wrong sequence numbers" % shape, where=z.where(), instance="sack-alignment")
    for sgn in ("+", "-"):
        if sgn not in seen and len(zips) >= 2:
            R.fail([ru.name, "sack-zip-alignment", "no-branch-for-offset%s" % (">=0" if sgn == "+" else "<0")], "one of the two alignment cases of the selective ACK is gone", where=ru.where(), instance="sack-alignment")
    # the marking closure: (segment, bit) of the same item; delivered only under bit = true
    marks = []
    for cb in F.closures_of(ru.name):
        for s in cb.stmts():
            if written_field(cb, s) == "Segment.is_delivered":
                marks.append((cb, s))
    R.floor("is_delivered = true sites under SACK processing", len(marks), 1)
    for cb, s in marks:
        bit = False
        for c, truth, d, *_ in controlling(cb, s.bb):
            if c.kind in ("var", "multi", "field") and truth:
                tt = c.trace
                if tt.kind == "param" and tt.root[1] == 3 and not tt.fields:
                    bit = True
        val_ok = s.rv.kind == "use" and s.rv.ops[0].kind == "const" and s.rv.ops[0].scalar == 1
        # "newly" sacked means not delivered before: the counters feeding newly_sacked_{segment_count,byte_count} (they lift the
        # single-segment-after-RTO gate, C05.3) move only for a segment that was not yet marked
        first_time = any(d == "field:Segment.is_delivered=false" for c, truth, d, *_ in controlling(cb, s.bb))
        counters = [x for x in cb.stmts() if any(isinstance(p_, list) and p_ and p_[0] == "f" and p_[1] == "upvar" and "newly_sacked" in str(p_[2]) for p_ in x.place.proj)]
        cnt_ok = all(any(d == "field:Segment.is_delivered=false" for c, truth, d, *_ in controlling(cb, x.bb)) and any(c.kind in ("var", "multi", "field") and truth and c.trace.kind == "param" and c.trace.root[1] == 3 for c, truth, d, *_ in controlling(cb, x.bb)) for x in counters)
        if not (first_time and cnt_ok and counters):
            R.fail([ru.name, "newly-sacked-counted-for-already-delivered", "mark-under-!delivered=%s counters=%d guarded=%s" % (first_time, len(counters), cnt_ok)],
                   "a segment that was already marked delivered is counted as newly SACKed again when the same bit is repeated: an ACK that acknowledges nothing new lifts the single-segment-after-RTO gate and restarts the retransmission timer", where=s.where(), instance="newly-sacked=>first-time")
        else:
            R.ok("newly-sacked=>first-time", cb.name, "marking and newly_sacked_* counters only under !is_delivered && bit")
        if bit and val_ok:
            R.ok("sacked=>bit-set", cb.name, "is_delivered = true only under is_sacked")
        else:
            R.fail([ru.name, "is_delivered=true", "not-under(bit=true)"], "a segment is marked delivered without its selective-ACK bit being set: it will never be retransmitted", where=s.where(), instance="sacked=>bit-set")
        calls = [t for t in ru.calls() if t.resolved == cb.name]
        R.floor("calls of the marking closure", len(calls), 2)
        for t in calls:
            tup = trace(ru, t.args[1])
            okpair = False
            if tup.kind == "rv" and tup.root[1].rv.kind == "agg" and len(tup.root[1].rv.ops) == 2:
                a, b_ = [trace(ru, o, extra_transparent=("std::ops::Try::branch",)) for o in tup.root[1].rv.ops]
                okpair = a.fields[-1:] == ["tuple.0"] and b_.fields[-1:] == ["tuple.1"] and a.root[:2] == b_.root[:2]
            if okpair:
                R.ok("marking-closure(segment,bit)", "same zip item")
            else:
                R.fail([ru.name, "marking-closure-args"], "the marking closure is not called with (segment, bit) of one zip item", where=t.where(), instance="marking-closure(segment,bit)")


@rule("C04.7", ["C04", "C11", "C17"], ["E4"], "receive-side accessors hand out the field they are named after",
      "OutOfOrderQueue::stored_bytes returns len_bytes (it is subtracted from the advertised window), SelectiveAck::len returns len, UtpHeader::get_type returns htype (every state-machine arm "
      "dispatches on it): table frozen in engine/pinned_fns.json.")
def c04_7(R):
    n = check_getters(R, ("stream_rx::", "raw::"))
    R.floor("receive-side accessors", n, 3)
