"""C17 handshake / teardown state machine: extracted transition relation vs audited relation and docs/states.dot."""
import os
import re
from .common import *
from .c02 import VS
from utpsa.discr import DiscrTracker, bool_fn_variant_table

PIM = VS + "::process_incoming_message"
SE = "stream_dispatch::VirtualSocketState"
ALLS = ["SynReceived", "SynAckSent", "Established", "FinWait1", "FinWait2", "LastAck", "Closed"]
ALLT = ["ST_DATA", "ST_FIN", "ST_STATE", "ST_RESET", "ST_SYN"]


def fs(*xs):
    return ",".join(sorted(xs))


# audited relation: (from-set, packet types) -> to, with the reason it is legitimate.
# Guards that are value comparisons (ack_nr == our_fin ...) are not part of the relation; C04.3 / C17.4 check the ones that matter.
AUDITED_PIM = {
    (fs("LastAck"), "ST_RESET", "Closed"): "RESET that acks our FIN: clean close (seen from real peers)",
    (fs(*ALLS), "ST_RESET", "Closed"): "any state: a RESET aborts at once with Err(StResetReceived)",
    (fs("SynAckSent"), fs("ST_DATA", "ST_STATE"), "Established"): "states.dot: SynAckSent -> Established (first packet acking our SYN-ACK)",
    (fs("SynAckSent"), "ST_FIN", "Closed"): "states.dot: SynAckSent -> Closed (remote FIN)  [see KF5 for the missing sequence check]",
    (fs("Established"), "ST_FIN", "LastAck"): "states.dot: Established -> LastAck",
    (fs("FinWait1"), "ST_FIN", "Closed"): "states.dot: FinWait1 -> Closed (fin+ack)",
    (fs("FinWait1"), "ST_FIN", "LastAck"): "states.dot: FinWait1 -> LastAck (fin without ack)",
    (fs("FinWait1"), fs("ST_DATA", "ST_STATE"), "FinWait2"): "states.dot: FinWait1 -> FinWait2 (our FIN acked)",
    (fs("FinWait1"), fs("ST_DATA", "ST_STATE"), "Closed"): "extra (audited): ST_STATE with seq_nr+1 treated as FIN (some clients)",
    (fs("FinWait2"), "ST_FIN", "Closed"): "states.dot: FinWait2 -> Closed",
    (fs("LastAck"), fs("ST_DATA", "ST_FIN", "ST_STATE"), "Closed"): "states.dot: LastAck -> Closed (any packet acking our FIN)",
}


def extract_pim(R):
    b = R.body(PIM)
    dt = DiscrTracker(b, enums={SE, "raw::Type"})
    skey = None
    tkey = None
    for s in b.stmts():
        if s.rv.kind == "agg" and s.rv.j["ak"] == "tuple" and s.place.is_local and len(s.rv.ops) == 2 and trace(b, s.rv.ops[0]).last_field == "VirtualSocket.state":
            skey = ("place", s.place.local, ("tuple.0",))
            tt = trace(b, s.rv.ops[1])
            if tt.kind == "call":
                tkey = ("get", tt.root[1].resolved, trace(b, tt.root[1].args[0]).describe())
    R.require(skey is not None and tkey is not None, "(self.state, hdr.get_type()) scrutinee")
    writes = [s for s in b.stmts() if written_field(b, s) == "VirtualSocket.state"]
    wbb = {s.bb: s for s in writes}
    rel = {}

    def edge(term, tgt, label, d):
        r = dt.edge(term, tgt, label, d)
        if r is False:
            return []
        return [r]
    # record the tracker state when a write block is entered; continue through (several writes can follow one another)
    seen_at = {}

    def step(it, d):
        if isinstance(it, Stmt) and it.bb in wbb and wbb[it.bb] is it:
            seen_at.setdefault((it.bb, it.idx), set()).add(d)
        return None
    typestate(b, [frozenset()], step, edge)
    for (bb, idx), ds in seen_at.items():
        s = wbb[bb]
        to = classify(b, s.rv.ops[0]) if s.rv.ops else "?"
        to = to.split("::")[-1].split("(")[0]
        frm = set()
        typ = set()
        for d in ds:
            frm |= set(dt.possible(d, skey, SE))
            typ |= set(dt.possible(d, tkey, "raw::Type"))
        rel[(fs(*frm), fs(*typ), to, (bb, idx))] = s
    return b, rel, len(writes)


def states_dot_edges(repo):
    p = os.path.join(repo, "docs", "states.dot")
    if not os.path.exists(p):
        return None
    out = []
    for line in open(p):
        m = re.match(r"\s*(\w+)\s*->\s*(\w+)", line)
        if m:
            out.append((m.group(1), m.group(2)))
    return out


@rule("C17.1", ["C17"], ["E7"], "the state-transition relation extracted from the code equals the audited relation and covers docs/states.dot",
      "For every assignment of VirtualSocket.state the discriminant dataflow on the (state, packet type) scrutinee yields (from-set, packet types) -> to. In process_incoming_message the extracted "
      "relation must equal the audited one (each entry carries its reason); the local transitions are SynReceived|SynAckSent -> SynAckSent (maybe_send_syn_ack, after a sent SYN-ACK), "
      "{Established, SynReceived, SynAckSent} -> FinWait1 (transition_to_fin_wait_1) and any -> Closed when the socket channel closed. Every edge of docs/states.dot must be realised by some transition.")
def c17_1(R):
    F = R.facts
    b, rel, nwrites = extract_pim(R)
    R.floor("state assignments in process_incoming_message", nwrites, 11)
    got = set()
    for key4, s in sorted(rel.items(), key=lambda x: x[0][:3]):
        key = key4[:3]
        got.add(key)
        if key in AUDITED_PIM:
            R.ok("pim-transition", "(%s | %s) -> %s" % key, AUDITED_PIM[key])
        else:
            R.fail([PIM, "unaudited-transition", "from=" + key[0], "on=" + key[1], "to=" + key[2]], "process_incoming_message contains the transition (%s) --%s--> %s, which is not in the audited relation" % key, where=s.where(), instance="pim-transition")
    for k in AUDITED_PIM:
        if k not in got:
            R.fail([PIM, "missing-transition", "from=" + k[0], "on=" + k[1], "to=" + k[2]], "the audited transition (%s) --%s--> %s no longer exists in process_incoming_message" % k, where=b.where(), instance="pim-transition")
    # local transitions
    t1 = R.body(SE + "::transition_to_fin_wait_1")
    dtt = DiscrTracker(t1, enums={SE})
    froms = set()
    wsites = {(s.bb, s.idx) for s in t1.stmts() if s.place.proj == ["*"] and t1.is_param(s.place.local) and s.rv.ops and "FinWait1" in classify(t1, s.rv.ops[0])}
    keys1 = set()

    def step1(it, d):
        if isinstance(it, Stmt) and (it.bb, it.idx) in wsites:
            for k in keys1:
                froms.update(dtt.possible(d, k, SE))
        return None

    def edge1(term, tgt, label, d):
        r = dtt.edge(term, tgt, label, d)
        if r is False:
            return []
        inf = dtt.info(term)
        if inf:
            keys1.add(inf[0])
        return [r]
    typestate(t1, [frozenset()], step1, edge1)
    if froms == {"Established", "SynReceived", "SynAckSent"}:
        R.ok("local-transition", "transition_to_fin_wait_1", "{Established, SynReceived, SynAckSent} -> FinWait1")
    else:
        R.fail([t1.name, "from=" + fs(*froms)], "transition_to_fin_wait_1 fires from {%s}, audited: Established, SynReceived, SynAckSent" % fs(*froms), where=t1.where(), instance="local-transition")
    msa = R.body(VS + "::maybe_send_syn_ack")
    oks = False
    for s in msa.stmts():
        if written_field(msa, s) == "VirtualSocket.state":
            v = classify(msa, s.rv.ops[0]) if s.rv.ops else ""
            conds = [d for c, truth, d, *_ in controlling(msa, s.bb)]
            sent_true = False
            for c, truth, d, *_ in controlling(msa, s.bb):
                tr = getattr(c, "trace", None)
                if truth and tr is not None and tr.kind == "call" and call_matches(tr.root[1], ("Try::branch",)):
                    inner = trace(msa, tr.root[1].args[0])
                    if inner.kind == "call" and call_matches(inner.root[1], (VS + "::send_ack",)):
                        sent_true = True
            if "SynAckSent" in v and sent_true:
                oks = True
            else:
                R.fail([msa.name, "state-write", v], "maybe_send_syn_ack changes the state other than to SynAckSent after a sent SYN-ACK", where=s.where(), instance="local-transition")
    if oks:
        R.ok("local-transition", "maybe_send_syn_ack", "-> SynAckSent{count+1} only after send_ack() = true")
    # Closed on channel close (inside a closure of process_all_incoming_messages)
    okc = False
    for c in [R.body(VS + "::process_all_incoming_messages")] + F.closures_of(VS + "::process_all_incoming_messages"):
        for s in c.stmts():
            if written_field(c, s) == "VirtualSocket.state":
                v = classify(c, s.rv.ops[0]) if s.rv.ops else ""
                if "Closed" in v:
                    okc = True
                else:
                    R.fail([VS + "::process_all_incoming_messages", "state-write", v], "unaudited state write in process_all_incoming_messages", where=s.where(), instance="local-transition")
    if okc:
        R.ok("local-transition", "process_all_incoming_messages", "any -> Closed when the socket's channel closed (after FIN was attempted)")
    # any other writer of the state
    for bb, s in census_field_writes(F, "VirtualSocket.state"):
        fn = owner_fn(bb)
        if fn not in (PIM, VS + "::maybe_send_syn_ack", VS + "::process_all_incoming_messages"):
            R.fail([fn, "write(VirtualSocket.state)"], "connection state written at an unaudited site", where=s.where(), instance="state-writers")
    R.ok("state-writers", "3 functions + transition_to_fin_wait_1")
    # docs/states.dot
    edges = states_dot_edges(F.repo)
    if edges is None:
        R.note("docs/states.dot not found")
        return
    have = set()
    for (frm, typ, to, _site) in rel:
        for f in frm.split(","):
            have.add((f, to))
    have |= {("Established", "FinWait1"), ("SynReceived", "FinWait1"), ("SynAckSent", "FinWait1")} if froms == {"Established", "SynReceived", "SynAckSent"} else set()
    if oks:
        have |= {("SynReceived", "SynAckSent"), ("SynAckSent", "SynAckSent")}
    for e in edges:
        if e in have:
            R.ok("states.dot-edge", "%s -> %s" % e, "realised")
        else:
            R.fail(["docs/states.dot", "edge-not-realised", "%s->%s" % e], "the documented transition %s -> %s is not realised by the code" % e, instance="states.dot-edge")
    R.floor("edges in docs/states.dot", len(edges), 10)
    extra = sorted(x for x in have if x not in set(edges) and x[0] != x[1])
    R.note("code transitions not drawn in docs/states.dot (audited, reported not failed): " + ", ".join("%s->%s" % x for x in extra))


@rule("C17.2", ["C17"], ["E2", "E6", "E7"], "the SYN-ACK acknowledges the SYN, is repeated every 200 ms and at most max_segment_retransmissions times",
      "maybe_send_syn_ack: send_ack is control-dependent on `sent_count == max_segment_retransmissions.get()` = false, whose true edge returns Err(MaxSynAckRetransmissionsReached); the resend timer is "
      "armed with SYNACK_RESEND_INTERNAL = 200 ms; StreamArgs::new_incoming sets last_consumed_remote_seq_nr = remote_syn.seq_nr (so the first ACK acknowledges the SYN).")
def c17_2(R):
    F = R.facts
    b = R.body(VS + "::maybe_send_syn_ack")
    sends = [t for t in b.calls() if call_matches(t, (VS + "::send_ack",))]
    R.floor("send_ack in maybe_send_syn_ack", len(sends), 1)
    # the repetition counter: the local stored back as SynAckSent { count: L + 1 } (it starts from 0 / the state's count)
    cnt = None
    for s_ in b.stmts():
        if s_.rv.kind == "agg" and s_.rv.j.get("variant") == "SynAckSent" and s_.rv.ops:
            bt, k = int_affine(b, s_.rv.ops[0])
            if bt.kind == "multi" and not bt.fields:
                cnt = bt.root[1]
                srcs = set()
                for d_ in b.all_defs(cnt):
                    if isinstance(d_, Stmt) and d_.rv.ops:
                        srcs |= value_sources(b, d_.rv.ops[0])
                from_state = any(x[0] == "field" and x[1].endswith("SynAckSent.count") for x in srcs) and ("const", 0) in srcs
                if k == 1 and from_state:
                    R.ok("synack-counter+1", b.name, "state = SynAckSent { count: sent_count + 1 }, sent_count from 0 / the state's count")
                else:
                    R.fail([b.name, "SynAckSent.count", "sent_count%+d" % k, "from-state=%s" % from_state], "a SYN-ACK transmission no longer advances the repetition counter by one: the cap is never reached (unbounded repeats) or reached early", where=s_.where(), instance="synack-counter+1")
    R.require(cnt is not None, "state = SynAckSent { count: .. } in maybe_send_syn_ack")
    for t in sends:
        ok = False
        for c, truth, d, *_ in controlling(b, t.bb):
            for r_, x_, y_ in implied(c, truth):
                if r_ == "ne" and "max_segment_retransmissions" in trace(b, y_).describe() and (lambda tx: tx.kind == "multi" and tx.root[1] == cnt and not tx.fields)(trace(b, x_)):
                    ok = True
        if ok:
            R.ok("synack=>below-cap", b.name)
        else:
            R.fail([b.name, "send_ack-not-guarded-by(sent_count<cap)"], "the SYN-ACK can be repeated without bound", where=t.where(), instance="synack=>below-cap")
    if any("MaxSynAckRetransmissionsReached" in cls for it, cls in ret_assignments(b)):
        R.ok("synack-cap=>error", b.name)
    else:
        R.fail([b.name, "no-exit(MaxSynAckRetransmissionsReached)"], "reaching the SYN-ACK cap no longer fails the connection", where=b.where(), instance="synack-cap=>error")
    ns = const_duration_ns(F, "constants::SYNACK_RESEND_INTERNAL")
    arms = [t for t in b.calls() if call_matches(t, ("stream_dispatch::Timer::arm",)) and trace(b, t.args[0]).last_field == "Timers.syn_ack_resend"]
    if arms and not all(a.args[3].kind == "const" and a.args[3].scalar == 1 for a in arms):
        R.fail([b.name, "resend-timer", "restart=false"], "the SYN-ACK resend timer is armed without restart: the expired deadline is kept and the SYN-ACK is repeated on every poll instead of every 200 ms", where=arms[0].where(), instance="synack-resend-interval")
    elif ns == 200_000_000 and arms and all(a.args[2].const_item == "constants::SYNACK_RESEND_INTERNAL" for a in arms):
        R.ok("synack-resend-interval", b.name, "200 ms")
    else:
        R.fail([b.name, "resend-interval", "ns=%s" % ns], "the SYN-ACK resend timer is not armed with SYNACK_RESEND_INTERNAL = 200 ms", where=b.where(), instance="synack-resend-interval")
    ni = R.body("stream_dispatch::StreamArgs::new_incoming")
    for s in ni.stmts():
        if s.rv.kind == "agg" and s.rv.j.get("adt") == "stream_dispatch::StreamArgs":
            i = s.rv.j["fields"].index("last_consumed_remote_seq_nr")
            bt, k = affine_trace(ni, s.rv.ops[i])
            if bt.last_field == "UtpHeader.seq_nr" and k == 0:
                R.ok("synack-acks-the-syn", ni.name, "last_consumed_remote_seq_nr = remote_syn.seq_nr")
            else:
                R.fail([ni.name, "last_consumed_remote_seq_nr", "%s%+d" % (bt.describe(), k)], "an accepted connection no longer acknowledges the SYN's sequence number", where=s.where(), instance="synack-acks-the-syn")
            j = s.rv.j["fields"].index("state")
            if "SynReceived" in classify(ni, s.rv.ops[j]):
                R.ok("incoming-starts-in-SynReceived", ni.name)
            else:
                R.fail([ni.name, "initial-state", classify(ni, s.rv.ops[j])], "an accepted connection does not start in SynReceived", where=s.where(), instance="incoming-starts-in-SynReceived")


@rule("C17.3", ["C17", "C03"], ["E3", "E4"], "our FIN carries the sequence number following the last data segment",
      "Every fresh our_fin (the argument of transition_to_fin_wait_1 and the (Established, ST_FIN) arm) is a copy of self.seq_nr, and seq_nr += 1 follows on that path; other our_fin values are copied "
      "from the previous state; maybe_send_fin sends seq_nr = that our_fin and just_before_death uses self.seq_nr.")
def c17_3(R):
    F = R.facts
    # (a) VirtualSocket::transition_to_fin_wait_1 (closure inside log_if_changed!)
    okc = False
    for c in [R.body(VS + "::transition_to_fin_wait_1")] + F.closures_of(VS + "::transition_to_fin_wait_1"):
        for t in c.calls():
            if call_matches(t, (SE + "::transition_to_fin_wait_1",)):
                src = trace(c, t.args[1])
                inc = {x.bb for x in c.calls() if call_matches(x, ("AddAssign::add_assign",)) and trace(c, x.args[0]).last_field == "VirtualSocket.seq_nr" and x.args[1].scalar == 1}
                # the increment happens on the `true` result
                tgt = None
                for blk in c.blocks:
                    if blk.cleanup or blk.term.kind != "switch":
                        continue
                    cd, neg = switch_cond(c, blk.term)
                    if cd.kind == "call" and cd.call is t:
                        be = bool_edges(c, blk.idx)
                        tgt = be[0] if neg else be[1]
                okp = tgt is not None and must_pass_blocks(c, c.return_blocks(), inc, start=tgt)[0] and inc
                if src.last_field == "VirtualSocket.seq_nr" and okp:
                    okc = True
                    R.ok("fresh-fin=seq_nr", "local close", "our_fin = self.seq_nr; seq_nr += 1 when the transition happened")
                else:
                    R.fail([VS + "::transition_to_fin_wait_1", "our_fin-source=%s incremented=%s" % (src.describe(), bool(okp))], "the FIN of a local close does not take self.seq_nr and advance it", where=t.where(), instance="fresh-fin=seq_nr")
    if not okc:
        R.fail([VS + "::transition_to_fin_wait_1", "anchor"], "transition_to_fin_wait_1 not found in its audited shape", instance="fresh-fin=seq_nr")
    # (b) aggregates of LastAck / FinWait1 in process_incoming_message
    b = R.body(PIM)
    for s in b.stmts():
        if s.rv.kind == "agg" and s.rv.j.get("adt") == SE and s.rv.j["variant"] in ("LastAck", "FinWait1"):
            i = s.rv.j["fields"].index("our_fin")
            t = trace(b, s.rv.ops[i])
            if t.last_field == "VirtualSocket.seq_nr":
                inc = {x.bb for x in b.calls() if call_matches(x, ("AddAssign::add_assign",)) and trace(b, x.args[0]).last_field == "VirtualSocket.seq_nr" and x.args[1].scalar == 1}
                # copy taken before the increment, increment before the state write
                wr = [w for w in b.stmts() if written_field(b, w) == "VirtualSocket.state" and trace(b, w.rv.ops[0]).kind == "rv" and trace(b, w.rv.ops[0]).root[1] is s]
                okk = wr and any(i_ in b.dominators().get(wr[0].bb, ()) for i_ in inc)
                if okk:
                    R.ok("fresh-fin=seq_nr", "(Established, ST_FIN)", "our_fin = self.seq_nr; seq_nr += 1")
                else:
                    R.fail([PIM, "fresh-our_fin-without(seq_nr+=1)"], "a fresh FIN sequence number is taken without advancing seq_nr", where=s.where(), instance="fresh-fin=seq_nr")
            elif any("our_fin" in f for f in t.fields) or "our_fin" in t.describe():
                R.ok("carried-fin", "%s{our_fin}" % s.rv.j["variant"], "copied from the previous state")
            else:
                R.fail([PIM, "our_fin-source", t.describe()], "our_fin of %s comes from neither self.seq_nr nor the previous state" % s.rv.j["variant"], where=s.where(), instance="carried-fin")
    mf = R.body(VS + "::maybe_send_fin")
    okf = False
    for s in mf.stmts():
        if written_field(mf, s) == "UtpHeader.seq_nr":
            t = trace(mf, s.rv.ops[0])
            if "Some" in t.variants and t.kind == "call" and call_matches(t.root[1], (SE + "::our_fin_if_unacked",)):
                okf = True
    if okf:
        R.ok("fin-packet-seq", mf.name, "fin.seq_nr = our_fin")
    else:
        R.fail([mf.name, "fin.seq_nr-source"], "the FIN packet does not carry our_fin as its sequence number", where=mf.where(), instance="fin-packet-seq")
    # both FIN emitters type the header ST_FIN before sending it; the abort FIN of the death path takes self.seq_nr and advances it
    for fn in (VS + "::maybe_send_fin", VS + "::just_before_death"):
        fb = R.body(fn)
        sends = [t for t in fb.calls() if call_matches(t, (VS + "::send_control_packet",))]
        typed = {t.bb for t in fb.calls() if call_matches(t, ("raw::UtpHeader::set_type",)) and "ST_FIN" in classify(fb, t.args[1])}
        R.floor("send_control_packet in " + fn.split("::")[-1], len(sends), 1)
        for t in sends:
            if typed and must_pass_blocks(fb, [t.bb], typed)[0]:
                R.ok("fin-packet-typed", fn.split("::")[-1], "set_type(ST_FIN) on every path to the send")
            else:
                R.fail([fn, "send_control_packet-without(set_type(ST_FIN))"], "%s sends its closing packet without typing it ST_FIN: the peer sees a plain state packet and never learns of the close" % fn.split("::")[-1], where=t.where(), instance="fin-packet-typed")
    jb = R.body(VS + "::just_before_death")
    sends = [t for t in jb.calls() if call_matches(t, (VS + "::send_control_packet",))]
    wr = [s_ for s_ in jb.stmts() if written_field(jb, s_) == "UtpHeader.seq_nr"]
    inc = {x.bb for x in jb.calls() if call_matches(x, ("AddAssign::add_assign",)) and trace(jb, x.args[0]).last_field == "VirtualSocket.seq_nr" and x.args[1].scalar == 1}
    ok_src = wr and all(trace(jb, s_.rv.ops[0]).last_field == "VirtualSocket.seq_nr" for s_ in wr)
    ok_path = sends and all(must_pass_blocks(jb, [t.bb], {s_.bb for s_ in wr})[0] and must_pass_blocks(jb, [t.bb], inc)[0] for t in sends) and inc
    ok_order = all(point_reaches(jb, s_, x) for s_ in wr for x in jb.calls() if x.bb in inc and call_matches(x, ("AddAssign::add_assign",)))
    if ok_src and ok_path and ok_order:
        R.ok("abort-fin=seq_nr", jb.name, "fin.seq_nr = self.seq_nr; seq_nr += 1; before the send")
    else:
        R.fail([jb.name, "abort-fin", "seq-from-seq_nr=%s stamped-and-advanced-before-send=%s read-before-advance=%s" % (bool(ok_src), bool(ok_path), bool(ok_order))],
               "the FIN sent when a connection dies with an error does not carry self.seq_nr (then advanced by one): it collides with a data sequence number or is rejected as out of sequence", where=jb.where(), instance="abort-fin=seq_nr")


@rule("C17.4", ["C17", "C03"], ["E2"], "the FIN is sent only after all accepted data, and no new payload follows it",
      "poll calls transition_to_fin_wait_1 only under !unsent_data_exists() and !is_local_fin_or_later() and ((reader dropped && writer dropped) || writer shutdown); maybe_send_fin sends only under "
      "`our_fin - last_sent_seq_nr != 1` = false; poll_write pushes bytes only under !vsock_closed && !writer_shutdown && !writer_dropped; segmentation returns before the loop when is_remote_fin_or_later().")
def c17_4(R):
    poll = R.body(VS + "::poll")
    ts = [t for t in poll.calls() if call_matches(t, (VS + "::transition_to_fin_wait_1",))]
    R.floor("transition_to_fin_wait_1 call in poll", len(ts), 1)
    for t in ts:
        descs = {d for c, truth, d, *_ in controlling(poll, t.bb)}
        need = {"call:VirtualSocket::unsent_data_exists=false", "call:VirtualSocketState::is_local_fin_or_later=false"}
        if need <= descs:
            R.ok("local-fin=>all-data-sent", poll.name, "transition only when nothing is unsent")
        else:
            R.fail([poll.name, "transition_to_fin_wait_1", "missing-guards=" + ",".join(sorted(need - descs))], "the local close can start while accepted data is still unsent (FIN would precede data) or although a FIN was already scheduled", where=t.where(), instance="local-fin=>all-data-sent")
        # (reader && writer dropped) || shutdown : the call must be unreachable when all three are false
        edges = set()
        for blk in poll.blocks:
            if blk.cleanup or blk.term.kind != "switch":
                continue
            c, neg = switch_cond(poll, blk.term)
            if c.kind == "call" and call_matches(c.call, ("stream_tx::UserTx::is_writer_shutdown",)):
                be = bool_edges(poll, blk.idx)
                edges.add((blk.idx, be[0] if neg else be[1]))
            if c.kind == "call" and call_matches(c.call, ("stream_tx::UserTx::is_writer_dropped",)):
                be = bool_edges(poll, blk.idx)
                edges.add((blk.idx, be[0] if neg else be[1]))
        ok, _ = must_pass_edges(poll, [t.bb], edges)
        rd = any(call_matches(x, ("stream_rx::UserRx::is_reader_dropped",)) for x in poll.calls())
        if ok and edges and rd:
            R.ok("local-fin=>app-let-go", poll.name, "only after writer shutdown, or writer dropped (with reader dropped)")
        else:
            R.fail([poll.name, "transition_to_fin_wait_1-without-app-close"], "the connection can close itself although the application neither shut down nor dropped the stream", where=t.where(), instance="local-fin=>app-let-go")
    mf = R.body(VS + "::maybe_send_fin")
    sends = [t for t in mf.calls() if call_matches(t, (VS + "::send_control_packet",))]
    for t in sends:
        ok = False
        for c, truth, d, *_ in controlling(mf, t.bb):
            for r_, x_, y_ in implied(c, truth):
                if r_ == "eq" and y_.kind == "const" and y_.scalar == 1:
                    a = trace(mf, x_)
                    if a.kind == "call" and call_matches(a.root[1], ("Sub::sub",)) and trace(mf, a.root[1].args[1]).last_field == "VirtualSocket.last_sent_seq_nr":
                        ok = True
        if ok:
            R.ok("fin-sent=>follows-last-sent", mf.name, "FIN only when our_fin - last_sent_seq_nr == 1")
        else:
            R.fail([mf.name, "fin-send-not-guarded-by(our_fin-last_sent==1)"], "the FIN can be emitted while earlier segments have not been transmitted", where=t.where(), instance="fin-sent=>follows-last-sent")
    from .c02 import POLL_WRITE
    pw = R.body(POLL_WRITE)
    pushes = [t for t in pw.calls() if call_matches(t, ("Producer::push_slice",))]
    for t in pushes:
        descs = {d for c, truth, d, *_ in controlling(pw, t.bb)}
        need = {"field:UserTxLocked.vsock_closed=false", "field:UserTxLocked.writer_shutdown=false", "field:UserTxLocked.writer_dropped=false"}
        if need <= descs:
            R.ok("no-payload-after-close", pw.name)
        else:
            R.fail([pw.name, "push_slice", "missing-guards=" + ",".join(sorted(need - descs))], "bytes can be accepted after shutdown/close (payload after the FIN)", where=t.where(), instance="no-payload-after-close")
    sp = R.body(VS + "::split_tx_queue_into_segments")
    enq = [t for t in sp.calls() if call_matches(t, ("stream_tx_segments::Segments::enqueue",))]
    for t in enq:
        descs = {d for c, truth, d, *_ in controlling(sp, t.bb)}
        if "call:VirtualSocketState::is_remote_fin_or_later=false" in descs:
            R.ok("no-segmentation-after-remote-fin", sp.name)
        else:
            R.fail([sp.name, "enqueue-not-guarded-by(!is_remote_fin_or_later)"], "new segments are created after the remote side closed", where=t.where(), instance="no-segmentation-after-remote-fin")


@rule("C17.5", ["C17", "C03"], ["E3"], "a RESET aborts at once, with an error unless the close handshake was answered, and without a reply",
      "In both ST_RESET arms of process_incoming_message state := Closed precedes the exit, so just_before_death (which emits a FIN only under !is_local_fin_or_later()) sends nothing; the exit is "
      "Err(StResetReceived) except under LastAck with hdr.ack_nr == our_fin; is_local_fin_or_later(Closed) = true.")
def c17_5(R):
    b, rel, n = extract_pim(R)
    resets = [(k[:3], s) for k, s in rel.items() if k[1] == "ST_RESET"]
    R.floor("ST_RESET transitions", len(resets), 2)
    rets = b.return_blocks()
    for k, s in resets:
        if k[2] != "Closed":
            R.fail([PIM, "reset-transition-to", k[2]], "a RESET moves the connection to %s instead of Closed" % k[2], where=s.where(), instance="reset=>closed")
            continue
        # after the write, the function returns without touching anything that sends
        sends = {t.bb for t in b.calls() if call_matches(t, (VS + "::send_ack", VS + "::send_control_packet", VS + "::maybe_send_fin"))}
        reach = b.reachable(s.bb)
        if any(x in reach for x in sends):
            R.fail([PIM, "reset-arm-reaches-send"], "after a RESET the handler can still emit a packet", where=s.where(), instance="reset=>no-reply")
        else:
            R.ok("reset=>no-reply", "from {%s}" % k[0], "state = Closed, then return")
        kinds = set()
        for it, cls in ret_assignments(b):
            if it.bb in reach and it.bb != s.bb or it.bb == s.bb:
                if it.bb in reach or it.bb == s.bb:
                    # only the first return after the write
                    pass
        # classification of the exit that follows directly
        nxt = [cls for it, cls in ret_assignments(b) if it.bb in b.reachable(s.bb) and must_pass_blocks(b, [it.bb], {s.bb})[0]]
        if k[0] == "LastAck":
            answered = guarded(b, s.bb, "eq", lambda o: trace(b, o).last_field == "UtpHeader.ack_nr", lambda o: trace(b, o).last_field == "VirtualSocketState::LastAck.our_fin")
            if not answered:
                R.fail([PIM, "reset-LastAck-clean-close", "not-under(ack_nr==our_fin)"], "a RESET in LastAck closes cleanly although it does not acknowledge our FIN (and the one that does is reported as an error): the error/clean distinction of the close handshake is inverted", where=s.where(), instance="reset-exit")
            elif any(c.startswith("Ok") for c in nxt):
                R.ok("reset-exit", "LastAck && ack==our_fin", "clean close")
            else:
                R.fail([PIM, "reset-LastAck-exit", ",".join(sorted(set(nxt)))], "RESET acknowledging our FIN no longer closes cleanly", where=s.where(), instance="reset-exit")
        else:
            if nxt and all("StResetReceived" in c for c in nxt):
                R.ok("reset-exit", "any state", "Err(StResetReceived)")
            else:
                R.fail([PIM, "reset-exit", ",".join(sorted(set(nxt)))], "a RESET does not surface as Err(StResetReceived)", where=s.where(), instance="reset-exit")
    j = R.body(VS + "::just_before_death")
    fins = [t for t in j.calls() if call_matches(t, (VS + "::send_control_packet",))]
    for t in fins:
        descs = {d for c, truth, d, *_ in controlling(j, t.bb)}
        if "call:VirtualSocketState::is_local_fin_or_later=false" in descs:
            R.ok("death-fin-only-if-not-closed", j.name)
        else:
            R.fail([j.name, "fin-not-guarded-by(!is_local_fin_or_later)"], "the death path can emit a FIN although the connection is already closed/closing (a RESET would be answered)", where=t.where(), instance="death-fin-only-if-not-closed")


@rule("C17.6", ["C17", "C06", "C02"], ["E2", "E7"], "an unacknowledged FIN is retransmitted on timeout in every state that has one",
      "On the RTO-expired path of send_tx_queue with no data segment left, maybe_send_fin is reached for every connection state in which our FIN is unacknowledged - {FinWait1, LastAck}, the variant "
      "table of our_fin_if_unacked() = Some - i.e. the guard of that call, evaluated over the state variants, covers both; the 'nothing to send' arm (which turns the retransmit timer off for good) is "
      "therefore unreachable in those states.")
def c17_6(R):
    from .c05 import STQ
    from utpsa.discr import fn_variant_classes
    b = R.body(STQ)
    tab = fn_variant_classes(R.body(SE + "::our_fin_if_unacked"))
    R.require(tab is not None and tab.get("Some"), "variant table of our_fin_if_unacked")
    need = set(tab["Some"])
    calls = [t for t in b.calls() if call_matches(t, (VS + "::maybe_send_fin",))]
    R.floor("maybe_send_fin on the RTO path of send_tx_queue", len(calls), 1)
    for t in calls:
        covered = None
        pred = []
        expired = False
        for c, truth, d, term_, tgt_, lab_ in controlling(b, t.bb):
            if d == "call:Timer::expired=true":
                expired = True
            if c.kind == "discr":
                tr = c.trace
                vs = None
                if tr.kind == "call" and not tr.fields and tr.root[1].j.get("res_local") and tr.root[1].args and trace(b, tr.root[1].args[0]).last_field == "VirtualSocket.state":
                    tbl = fn_variant_classes(R.body(tr.root[1].resolved))
                    var = d.split("=")[-1]
                    vs = set(tbl.get(var, set())) if tbl else set()
                    pred.append("%s=%s" % (tr.root[1].resolved.split("::")[-1], var))
                elif tr.last_field == "VirtualSocket.state" and c.enum == SE:
                    vs = set(d.split("=")[-1].split("|"))
                    pred.append("state=" + d.split("=")[-1])
                if vs is not None:
                    covered = vs if covered is None else covered & vs
        if not expired:
            R.fail([STQ, "fin-rto-path-not-under(retransmit.expired)"], "the FIN retransmission is no longer on the RTO-expired path", where=t.where(), instance="fin-rto-covers-states")
            continue
        if covered is None:
            covered = set(need)
        if need <= covered:
            R.ok("fin-rto-covers-states", STQ, "FIN retransmitted on RTO in %s (guard %s)" % (",".join(sorted(need)), " && ".join(pred)))
        else:
            R.fail([STQ, "fin-rto-guard", " && ".join(pred), "not-retransmitted-in=" + ",".join(sorted(need - covered))],
                   "on a timeout the FIN is retransmitted only under %s, which excludes state(s) %s where our FIN is also unacknowledged: there the 'nothing to send' arm switches the retransmit timer off and a lost FIN is never repaired" % (" && ".join(pred), ", ".join(sorted(need - covered))),
                   where=t.where(), instance="fin-rto-covers-states")


STATE_PREDICATES = {
    # audited against docs/states.dot and the comments of the state enum: which connection states each predicate holds in
    "is_local_fin_or_later": {"true": {"FinWait1", "FinWait2", "LastAck", "Closed"}, "false": {"SynReceived", "SynAckSent", "Established"}},
    "is_remote_fin_or_later": {"true": {"LastAck", "Closed"}, "false": {"SynReceived", "SynAckSent", "Established", "FinWait1", "FinWait2"}},
    "our_fin_if_unacked": {"Some": {"FinWait1", "LastAck"}, "None": {"SynReceived", "SynAckSent", "Established", "FinWait2", "Closed"}},
    "transition_to_fin_wait_1": {"true": {"SynReceived", "SynAckSent", "Established"}, "false": {"FinWait1", "FinWait2", "LastAck", "Closed"}},
    # is_closed(wait_for_last_ack): LastAck is closed only when the last ACK is not awaited
    "is_closed": {"true": {"Closed", "LastAck"}, "false": {"SynReceived", "SynAckSent", "Established", "FinWait1", "FinWait2", "LastAck"}},
}


@rule("C17.7", ["C17", "C08", "C03", "C02"], ["E7"], "the state predicates hold in exactly the audited states",
      "The variant tables extracted from VirtualSocketState::{is_local_fin_or_later, is_remote_fin_or_later, our_fin_if_unacked, transition_to_fin_wait_1, is_closed} equal the audited tables "
      "(local FIN scheduled = FinWait1|FinWait2|LastAck|Closed, remote FIN seen = LastAck|Closed, our FIN unacknowledged = FinWait1|LastAck, closable from SynReceived|SynAckSent|Established, "
      "closed = Closed, or LastAck when the last ACK is not awaited). Every guard of the dispatcher is written in terms of these predicates - the FIN gate, the final-chance timer, the death-path FIN, "
      "the FIN retransmission, segmentation after a remote close - so a predicate that gains or loses a state silently moves all of them.")
def c17_7(R):
    from utpsa.discr import fn_variant_classes
    n = 0
    for fn, want in STATE_PREDICATES.items():
        b = R.body(SE + "::" + fn)
        tab = fn_variant_classes(b)
        n += 1
        got = {k: set(v) for k, v in (tab or {}).items()}
        if got == want:
            R.ok("state-predicate", fn, "; ".join("%s in {%s}" % (k, ",".join(sorted(v))) for k, v in sorted(want.items())))
        else:
            diff = []
            for k in sorted(set(want) | set(got)):
                extra = got.get(k, set()) - want.get(k, set())
                missing = want.get(k, set()) - got.get(k, set())
                if extra or missing:
                    diff.append("%s:+%s-%s" % (k, ",".join(sorted(extra)) or "", ",".join(sorted(missing)) or ""))
            R.fail([SE + "::" + fn, "variant-table", ";".join(diff)], "%s no longer holds in exactly the audited connection states (%s)" % (fn, "; ".join(diff)), where=b.where(), instance="state-predicate")
    R.floor("state predicates", n, 5)


@rule("C17.8", ["C17", "C03", "C08"], ["E4", "E2"], "what 'unsent data exists' and 'closed' mean to the dispatcher",
      "VirtualSocket::unsent_data_exists is true when this_poll.unsegmented_data > 0, and otherwise the result of any(|s| s.send_count() == 0) over all queued segments (iter_mut_for_sending(None)): the "
      "local FIN is scheduled only under its negation (C17.4). VirtualSocket::state_is_closed is state.is_closed(socket_opts.wait_for_last_ack).")
def c17_8(R):
    F = R.facts
    b = R.body(VS + "::unsent_data_exists")
    anyc = [t for t in b.calls() if call_matches(t, ("Iterator::any",))]
    it_ok = False
    clo_ok = False
    for t in anyc:
        src = trace(b, t.args[0])
        if src.kind == "call" and call_matches(src.root[1], ("Segments::iter_mut_for_sending",)) and classify(b, src.root[1].args[1]) == "None":
            it_ok = True
        ct = trace(b, t.args[1])
        if ct.kind == "rv" and ct.root[1].rv.kind == "agg" and ct.root[1].rv.j.get("ak") == "closure":
            cb = F.body(ct.root[1].rv.j["closure"])
            for s in cb.stmts():
                if s.place.is_local and s.place.local == 0 and s.rv.kind == "bin" and s.rv.op == "Eq":
                    srcs = [trace(cb, o) for o in s.rv.ops]
                    if any(x.kind == "call" and call_matches(x.root[1], ("SegmentForSending::send_count",)) for x in srcs) and any(o.kind == "const" and o.scalar == 0 for o in s.rv.ops):
                        clo_ok = True
    unseg = any(nonzero_test(c, True) is not None and trace(b, nonzero_test(c, True)).last_field == "ThisPoll.unsegmented_data" or nonzero_test(c, False) is not None and trace(b, nonzero_test(c, False)).last_field == "ThisPoll.unsegmented_data"
                for blk in b.blocks if not blk.cleanup and blk.term.kind == "switch" for c in [switch_cond(b, blk.term)[0]])
    if not anyc:
        # the same predicate written as an explicit loop: `for s in iter_mut_for_sending(None) { if s.send_count() == 0 { return true } } false`
        nexts = []
        for t in b.calls():
            if call_matches(t, ("Iterator::next",)) and t.args:
                src = trace(b, t.args[0])
                for _ in range(3):
                    if src.kind == "call" and call_matches(src.root[1], ("IntoIterator::into_iter", "Iterator::by_ref")) and src.root[1].args:
                        src = trace(b, src.root[1].args[0])
                if src.kind == "call" and call_matches(src.root[1], ("Segments::iter_mut_for_sending",)) and classify(b, src.root[1].args[1]) == "None":
                    nexts.append(t)
        it_ok = len(nexts) == 1
        rets = [d for d in b.all_defs(0) if isinstance(d, Stmt) and d.rv.kind == "use" and d.rv.ops[0].kind == "const"]
        falses = [d for d in rets if d.rv.ops[0].scalar in (0, False)]
        trues = [d for d in rets if d.rv.ops[0].scalar not in (0, False)]
        never_sent = False
        for d in trues:
            for c, truth, desc, *_ in controlling(b, d.bb):
                z = zero_test(c, truth)
                if z is not None:
                    zt = trace(b, z)
                    if zt.kind == "call" and call_matches(zt.root[1], ("SegmentForSending::send_count",)):
                        never_sent = True
        exhausted = bool(falses) and all(any(desc.endswith("Iterator::next=None") or (desc.startswith("discr:call:") and desc.endswith("::next=None")) for _c, _t, desc, *_ in controlling(b, d.bb)) for d in falses)
        clo_ok = never_sent and exhausted and len(rets) == len(b.all_defs(0))
    if it_ok and clo_ok and unseg:
        R.ok("unsent_data_exists", b.name, "unsegmented_data > 0 || any(send_count() == 0)")
    else:
        R.fail([b.name, "shape", "all-segments=%s never-sent-test=%s unsegmented=%s" % (it_ok, clo_ok, unseg)], "unsent_data_exists no longer means 'unsegmented bytes or a never-sent segment exist': the FIN can be scheduled before all accepted data was transmitted", where=b.where(), instance="unsent_data_exists")
    sc = R.body(VS + "::state_is_closed")
    okc = False
    for t in sc.calls():
        if call_matches(t, (SE + "::is_closed",)) and trace(sc, t.args[0]).last_field == "VirtualSocket.state" and trace(sc, t.args[1]).last_field == "ValidatedSocketOpts.wait_for_last_ack":
            okc = True
    if okc:
        R.ok("state_is_closed", sc.name, "state.is_closed(socket_opts.wait_for_last_ack)")
    else:
        R.fail([sc.name, "shape"], "state_is_closed no longer asks the state with the configured wait_for_last_ack", where=sc.where(), instance="state_is_closed")


@rule("C17.9", ["C17", "C09", "C04", "C01", "C05"], ["E4", "E7"], "a connection starts from the sequence state the handshake fixed",
      "StreamArgs::new_outgoing (from the SYN-ACK): seq_nr = ack.ack_nr + 1, last_sent_seq_nr = ack.ack_nr, last_consumed_remote_seq_nr = last_sent_ack_nr = ack.seq_nr - 1, state = Established, "
      "remote_window = ack.wnd_size. StreamArgs::new_incoming (from the SYN): seq_nr = the chosen number, last_sent_seq_nr = that - 1, last_consumed_remote_seq_nr = last_sent_ack_nr = syn.seq_nr, "
      "remote_window = 0, state = SynReceived. Everything is relative to the received header (no absolute numbers): an off-by-one here shifts every later acknowledgement / sequence number.")
def c17_9(R):
    want = {
        "stream_dispatch::StreamArgs::new_outgoing": {
            "seq_nr": ("UtpHeader.ack_nr", 1), "last_sent_seq_nr": ("UtpHeader.ack_nr", 0), "last_consumed_remote_seq_nr": ("UtpHeader.seq_nr", -1),
            "last_sent_ack_nr": ("UtpHeader.seq_nr", -1), "remote_window": ("UtpHeader.wnd_size", 0), "state": "Established"},
        "stream_dispatch::StreamArgs::new_incoming": {
            "seq_nr": ("param#1", 0), "last_sent_seq_nr": ("param#1", -1), "last_consumed_remote_seq_nr": ("UtpHeader.seq_nr", 0),
            "last_sent_ack_nr": ("UtpHeader.seq_nr", 0), "remote_window": ("const", 0), "state": "SynReceived"},
    }
    for fn, tab in want.items():
        b = R.body(fn)
        aggs = [s for s in b.stmts() if s.rv.kind == "agg" and s.rv.j.get("adt") == "stream_dispatch::StreamArgs"]
        R.require(len(aggs) == 1, "StreamArgs literal in " + fn.split("::")[-1])
        s = aggs[0]
        names = s.rv.j["fields"]
        for fld, exp in tab.items():
            op = s.rv.ops[names.index(fld)]
            if isinstance(exp, str):
                got = classify(b, op)
                ok = exp in got
                desc = got
            else:
                base, k = int_affine(b, op)
                src = base.last_field if base.last_field else ("param#%d" % base.root[1] if base.kind == "param" else ("const" if base.kind == "const" else base.describe()[:30]))
                if base.kind == "const" and exp[0] == "const":
                    ok = base.root[1].scalar == exp[1]
                    desc = "const %s" % base.root[1].scalar
                else:
                    ok = (src, k) == exp
                    desc = "%s%+d" % (src, k)
            if ok:
                R.ok("initial-sequence-state", "%s.%s" % (fn.split("::")[-1], fld), desc)
            else:
                R.fail([fn, "initial", fld, desc.replace("|", "/")], "%s initialises %s as %s, expected %s" % (fn.split("::")[-1], fld, desc, exp if isinstance(exp, str) else "%s%+d" % exp), where=s.where(), instance="initial-sequence-state")
    # ... and what the constructors are handed IS the received header: the header field of the message (or of the parked SYN) that arrived, not a
    # local copy that was edited on the way (a "default" window substituted for the advertised one, a patched sequence number)
    n = 0
    for fn in want:
        for cb, ct in call_sites_of(R.facts, fn):
            if "::tests" in cb.name or cb.name.startswith("test_util"):
                continue
            hdr = [a for a in ct.args if "UtpHeader" in ((cb.local_ty(a.place.local) if a.place is not None and a.place.is_local else "") or "")]
            for a in hdr:
                n += 1
                t = trace(cb, a)
                if t.kind in ("param", "upvar") and t.fields and t.fields[-1] in ("UtpMessage.header", "Syn.header"):
                    R.ok("constructor-gets-the-received-header", "%s <- %s" % (fn.split("::")[-1], owner_fn(cb).split("::")[-1]), t.describe())
                else:
                    R.fail([owner_fn(cb), fn.split("::")[-1] + "-header-arg", t.describe() if t.kind != "multi" else "edited-copy"],
                           "%s is not given the header that arrived but %s: what the peer advertised in the handshake (window, numbers, ids) can be replaced on the way into the connection"
                           % (fn.split("::")[-1], "a local copy that is written to before the call" if t.kind == "multi" else t.describe()), where=ct.where(), instance="constructor-gets-the-received-header")
    R.floor("call sites of the StreamArgs constructors", n, 2)


@rule("C17.10", ["C17", "C09", "C04", "C05", "C14", "C07", "C18", "C06"], ["E4", "E7"], "the connection object is wired from the handshake state and the socket's options",
      "UtpStreamStarter::new builds VirtualSocket with state, seq_nr, last_sent_seq_nr, last_consumed_remote_seq_nr, last_sent_ack_nr, conn_id_send, last_remote_timestamp <- the same-named StreamArgs "
      "field, last_remote_window <- args.remote_window (also given to the congestion controller), user_tx_segments = Segments::new(args.seq_nr), rto_retransmissions = 0, consumed_but_unacked_bytes = 0; "
      "SegmentSizes::new gets is_ipv4 from the remote address and link_mtu from the socket's options; the RX / TX buffers get vsock_rx_bufsize / vsock_tx_bufsize_bytes_initial; "
      "ThisPoll starts with transport_pending = false, restart = false, unsegmented_data = 0.")
def c17_10(R):
    sn = R.body("stream_dispatch::UtpStreamStarter::new")
    aggs = [s for s in sn.stmts() if s.rv.kind == "agg" and s.rv.j.get("adt") == "stream_dispatch::VirtualSocket"]
    R.require(len(aggs) == 1, "VirtualSocket literal in UtpStreamStarter::new")
    s = aggs[0]
    names = s.rv.j["fields"]
    same = ["state", "seq_nr", "last_sent_seq_nr", "last_consumed_remote_seq_nr", "last_sent_ack_nr", "conn_id_send", "last_remote_timestamp"]
    n = 0
    for fld in same + ["last_remote_window"]:
        src = "StreamArgs." + ("remote_window" if fld == "last_remote_window" else fld)
        t = trace(sn, s.rv.ops[names.index(fld)])
        n += 1
        if t.last_field == src:
            R.ok("vsock-wiring", fld, "<- args." + src.split(".")[1])
        else:
            R.fail([sn.name, "vsock-wiring", fld, "from=" + (t.last_field or t.describe()[:30])], "VirtualSocket.%s is initialised from %s instead of args.%s" % (fld, t.last_field or t.describe()[:30], src.split(".")[1]), where=s.where(), instance="vsock-wiring")
    for fld in ("rto_retransmissions", "consumed_but_unacked_bytes"):
        op = s.rv.ops[names.index(fld)]
        n += 1
        if op.kind == "const" and op.scalar == 0:
            R.ok("vsock-wiring", fld, "= 0")
        else:
            R.fail([sn.name, "vsock-wiring", fld, "not-zero"], "VirtualSocket.%s does not start at 0" % fld, where=s.where(), instance="vsock-wiring")
    # socket_opts: the connection reads the options the user validated for the socket - a plain clone of socket.opts(), nothing decided per connection
    if "socket_opts" in names:
        n += 1
        t = trace(sn, s.rv.ops[names.index("socket_opts")])
        inner = t  # the provenance walk looks through Clone::clone
        if t.kind == "call" and call_matches(t.root[1], ("Clone::clone",)) and not t.fields and t.root[1].args:
            inner = trace(sn, t.root[1].args[0])
        # ... and no local on the way is written through a field after it was produced (`let mut o = opts.clone(); o.nagle = false;`)
        edited = []
        for st in list(t.steps) + (list(inner.steps) if inner is not t and inner is not None else []):
            dl = st.place.local if isinstance(st, Stmt) and st.place.is_local else (st.dest.local if isinstance(st, Term) and st.kind == "call" and st.dest is not None and st.dest.is_local else None)
            if dl is not None:
                edited += [w for w in sn.defs()[1].get(dl, ()) if not getattr(w, "is_tracing", False)]
        if inner is not None and inner.kind == "call" and call_matches(inner.root[1], ("socket::UtpSocket::opts",)) and not inner.fields and not edited:
            R.ok("vsock-wiring", "socket_opts", "<- socket.opts().clone()")
        else:
            R.fail([sn.name, "vsock-wiring", "socket_opts", "edited-copy" if (t.kind == "multi" or edited) else t.describe()[:40]], "VirtualSocket.socket_opts is not a plain clone of the socket's validated options (%s): an option "
                   "the user set - Nagle, the retransmission limit, wait_for_last_ack ... - can be overridden per connection behind the user's back" % ("a copy that is written to before it is stored" if t.kind == "multi" else t.describe()[:60]),
                   where=s.where(), instance="vsock-wiring")
    # last_sent_window: "what the peer has been told" before anything was sent - our own receive buffer for a connection that is already established
    # (so that no window update goes out unprovoked), 0 otherwise; never the PEER's window, which is a number about the other direction
    if "last_sent_window" in names:
        n += 1
        t = trace(sn, s.rv.ops[names.index("last_sent_window")])
        srcs = set()
        consts = set()
        if t.kind == "multi":
            for d in t.root[3]:
                if isinstance(d, Stmt) and d.rv.ops:
                    o = d.rv.ops[0]
                    if o.kind == "const":
                        consts.add(o.scalar)
                    else:
                        srcs.add(trace(sn, o).last_field)
        else:
            srcs.add(t.last_field or t.describe())
        if srcs == {"ValidatedSocketOpts.vsock_rx_bufsize"} and consts <= {0}:
            R.ok("vsock-wiring", "last_sent_window", "<- opts.vsock_rx_bufsize when Established, else 0")
        else:
            R.fail([sn.name, "vsock-wiring", "last_sent_window", "from=" + ",".join(sorted(str(x) for x in srcs))], "VirtualSocket.last_sent_window does not start from our own receive buffer size (or 0): "
                   "initialised from %s, the first poll compares what we 'told' the peer with the real window and emits an unsolicited window update (or suppresses a due one)" % ",".join(sorted(str(x) for x in srcs)),
                   where=s.where(), instance="vsock-wiring")
    t = trace(sn, s.rv.ops[names.index("user_tx_segments")])
    n += 1
    if t.kind == "call" and call_matches(t.root[1], ("stream_tx_segments::Segments::new",)) and trace(sn, t.root[1].args[0]).last_field == "StreamArgs.seq_nr":
        R.ok("vsock-wiring", "user_tx_segments", "Segments::new(args.seq_nr)")
    else:
        R.fail([sn.name, "vsock-wiring", "user_tx_segments"], "the segment queue does not start at args.seq_nr: the first data segment is numbered differently from the header field seq_nr", where=s.where(), instance="vsock-wiring")
    for c in sn.calls():
        if call_matches(c, ("CongestionController::set_remote_window",)):
            n += 1
            if trace(sn, c.args[1]).last_field == "StreamArgs.remote_window":
                R.ok("vsock-wiring", "congestion_controller.rwnd", "<- args.remote_window")
            else:
                R.fail([sn.name, "vsock-wiring", "set_remote_window"], "the congestion controller does not start from the window the handshake advertised", where=c.where(), instance="vsock-wiring")
    for st in sn.stmts():
        if st.rv.kind == "agg" and st.rv.j.get("adt") == "mtu::SegmentSizesConfig":
            nm = st.rv.j["fields"]
            t1 = trace(sn, st.rv.ops[nm.index("is_ipv4")], through_casts=False)
            t2 = trace(sn, st.rv.ops[nm.index("link_mtu")])
            n += 2
            v4 = t1.kind == "call" and (t1.root[1].resolved or "").endswith("SocketAddr::is_ipv4") and trace(sn, t1.root[1].args[0]).kind == "param" and trace(sn, t1.root[1].args[0]).root[1] == 2
            if v4:
                R.ok("vsock-wiring", "segment_sizes.is_ipv4", "<- remote.is_ipv4()")
            else:
                R.fail([sn.name, "vsock-wiring", "is_ipv4"], "the IP header size used for segment sizing does not come from the remote address family: datagrams to IPv6 peers can exceed the link MTU by 20 bytes", where=st.where(), instance="vsock-wiring")
            if t2.last_field == "ValidatedSocketOpts.link_mtu":
                R.ok("vsock-wiring", "segment_sizes.link_mtu", "<- opts.link_mtu")
            else:
                R.fail([sn.name, "vsock-wiring", "link_mtu"], "segment sizing does not use the configured link MTU", where=st.where(), instance="vsock-wiring")
        if st.rv.kind == "agg" and st.rv.j.get("adt") == "stream_dispatch::ThisPoll":
            nm = st.rv.j["fields"]
            for fld in ("transport_pending", "restart", "unsegmented_data"):
                op = st.rv.ops[nm.index(fld)]
                n += 1
                if op.kind == "const" and op.scalar == 0:
                    R.ok("vsock-wiring", "this_poll." + fld, "= 0 / false")
                else:
                    R.fail([sn.name, "vsock-wiring", "this_poll." + fld], "ThisPoll.%s does not start cleared" % fld, where=st.where(), instance="vsock-wiring")
    for c in sn.calls():
        if call_matches(c, ("stream_rx::UserRx::build",)):
            n += 1
            if trace(sn, c.args[0]).last_field == "ValidatedSocketOpts.vsock_rx_bufsize":
                R.ok("vsock-wiring", "rx buffer", "<- opts.vsock_rx_bufsize")
            else:
                R.fail([sn.name, "vsock-wiring", "rx-bufsize"], "the receive buffer is not sized from vsock_rx_bufsize", where=c.where(), instance="vsock-wiring")
        if call_matches(c, ("stream_tx::UserTx::new",)):
            n += 1
            if trace(sn, c.args[0]).last_field == "ValidatedSocketOpts.vsock_tx_bufsize_bytes_initial":
                R.ok("vsock-wiring", "tx buffer", "<- opts.vsock_tx_bufsize_bytes_initial")
            else:
                R.fail([sn.name, "vsock-wiring", "tx-bufsize"], "the transmit buffer is not sized from vsock_tx_bufsize_bytes_initial", where=c.where(), instance="vsock-wiring")
    R.floor("wired fields of the connection object", n, 18)


def _sum_of_ring_lens(b, op, depth=0):
    """the operand is built only from slice lengths of the TX ring's as_slices() (tx_len = s.0.len() + s.1.len())"""
    if depth > 6:
        return False
    t = trace(b, op)
    if t.kind == "call" and call_matches(t.root[1], ("slice::len", "core::slice::len", "<impl [T]>::len")):
        r = trace(b, t.root[1].args[0])
        return r.kind == "call" and (r.root[1].resolved or r.root[1].callee or "").endswith("as_slices")
    if t.kind == "rv" and t.root[1].rv.kind == "bin" and t.root[1].rv.op in ("Add", "AddWithOverflow", "AddUnchecked"):
        return all(_sum_of_ring_lens(b, o, depth + 1) for o in t.root[1].rv.ops)
    return False


def _from_ring_len(b, op, seen, depth=0):
    """the value is tx_len (the sum of the ring's slice lengths) with something subtracted: a chain of Sub / saturating_sub / checked_sub on the left operand"""
    if depth > 10 or op.kind == "const":
        return False
    if _sum_of_ring_lens(b, op):
        return True
    t = trace(b, op)
    if [f for f in t.fields if not f.startswith(("tuple.", "Option::Some."))]:
        return False
    if t.kind == "rv" and t.root[1].rv.kind == "bin" and t.root[1].rv.op in ("Sub", "SubWithOverflow", "SubUnchecked"):
        return _from_ring_len(b, t.root[1].rv.ops[0], seen, depth + 1)
    if t.kind == "call" and call_matches(t.root[1], ("saturating_sub", "checked_sub", "wrapping_sub")):
        return _from_ring_len(b, t.root[1].args[0], seen, depth + 1)
    if t.kind == "multi":
        key = t.root[1]
        if key in seen:
            return False
        seen.add(key)
        # a loop variable: `remaining = tx_len - segmented_len` initially, `remaining -= payload_size` round the loop
        return any(isinstance(d, Stmt) and d.rv.ops and _from_ring_len(b, d.rv.ops[0], seen, depth + 1) for d in t.root[3])
    return False


@rule("C17.11", ["C17", "C03", "C18", "C01"], ["E2", "E6"], "the unsegmented byte count the FIN gate reads is refreshed on every exit that can leave written bytes unsegmented",
      "The local FIN is scheduled only under !unsent_data_exists() (C17.4), which reads this_poll.unsegmented_data - a value that only split_tx_queue_into_segments stores and that survives from poll to "
      "poll. Every Ok exit of that function must therefore pass a store to it, except where no byte can be waiting or the gate is not consulted: the ring is empty (tx_len == 0), or the remote "
      "FIN was already seen (is_remote_fin_or_later = LastAck|Closed, both local-FIN-or-later states, C17.7, in which the gate is closed anyway). An exit that skips the store - while an MTU probe is "
      "outstanding, when Nagle holds a tail back - leaves a stale 0 after the application wrote more and closed: the FIN goes out with the sequence number of data that was accepted and never sent.")
def c17_11(R):
    from utpsa.flow import must_pass_blocks
    b = R.body(VS + "::split_tx_queue_into_segments")
    stores = [s for s in b.stmts() if written_field(b, s) == "ThisPoll.unsegmented_data"]
    R.floor("stores to this_poll.unsegmented_data", len(stores), 1)
    # the FIN gate's predicate tables make the second exception sound
    rf = STATE_PREDICATES["is_remote_fin_or_later"]["true"]
    lf = STATE_PREDICATES["is_local_fin_or_later"]["true"]
    R.require(rf <= lf, "every remote-FIN-or-later state is a local-FIN-or-later state")
    for s in stores:
        if s.rv.ops and _from_ring_len(b, s.rv.ops[0], set()):
            R.ok("unsegmented=ring-minus-segmented", b.name, "stored value derives from tx_len by subtraction (%s)" % s.where())
        else:
            R.fail([b.name, "unsegmented_data-store", "value-not-derived-from(tx_len - ...)"], "this_poll.unsegmented_data is set to something that is not what remains of the ring length after "
                   "subtracting the segmented bytes: the FIN gate no longer sees the bytes waiting in the ring", where=s.where(), instance="unsegmented=ring-minus-segmented")
    sb = {s.bb for s in stores}
    exits = [d for d in b.all_defs(0) if isinstance(d, Stmt) and d.rv.kind == "agg" and d.rv.j.get("variant") == "Ok"]
    R.floor("Ok exits of split_tx_queue_into_segments", len(exits), 3)
    for e in exits:
        ctl = controlling(b, e.bb)
        descs = [d for _c, _t, d, *_ in ctl]
        excuse = None
        for c, truth, d, *_ in ctl:
            z = zero_test(c, truth)
            if z is not None and _sum_of_ring_lens(b, z):
                excuse = "ring empty"
            if d == "call:VirtualSocketState::is_remote_fin_or_later=true":
                excuse = "remote FIN seen: the FIN gate is closed in LastAck|Closed"
        if excuse:
            R.ok("exit-refreshes-unsegmented", b.name, "exit at %s excused: %s" % (e.where(), excuse))
            continue
        before_here = any(s.bb == e.bb and s.idx < e.idx for s in stores)
        if before_here or must_pass_blocks(b, [e.bb], sb - {e.bb})[0]:
            R.ok("exit-refreshes-unsegmented", b.name, "exit at %s passes a store to this_poll.unsegmented_data" % e.where())
        else:
            under = sorted(set(x for x in descs if not x.startswith("bin:")))
            R.fail([b.name, "Ok-exit-without(unsegmented_data store)"] + under,
                   "split_tx_queue_into_segments returns Ok without refreshing this_poll.unsegmented_data on an exit where the ring can hold bytes that were never segmented (%s): unsent_data_exists() keeps "
                   "the value of an earlier poll, so after the application writes more and closes, the FIN is sent ahead of - and with the sequence number of - data that was accepted but never transmitted"
                   % (", ".join(under) or "unconditional"), where=e.where(), instance="exit-refreshes-unsegmented")


ALL_STATES = ("Closed", "Established", "FinWait1", "FinWait2", "LastAck", "SynAckSent", "SynReceived")
AUDITED_PRE_ACK_EXITS = {
    (fs("LastAck"), fs("ST_RESET")): "a RESET that acknowledges our FIN is a clean close (nothing left to acknowledge)",
    (fs(*ALL_STATES), fs("ST_SYN")): "a stray SYN on an existing connection is ignored",
    (fs("SynAckSent"), fs("ST_DATA", "ST_STATE")): "handshake: the first packet must acknowledge our SYN-ACK, anything else is not from this conversation",
    (fs("Established", "FinWait1", "FinWait2"), fs("ST_FIN")): "a FIN out of sequence is dropped whole (C04.3)",
    (fs("LastAck"), fs("ST_DATA", "ST_FIN", "ST_STATE")): "data numbered beyond the remote FIN",
}


@rule("C05.8", ["C05", "C06", "C01", "C02", "C07"], ["E7", "E2"], "a packet's acknowledgement and window are discarded only for the audited reasons",
      "Every packet of the conversation carries ack_nr, a selective ACK and the peer's window, whatever else it is (a duplicate, a retransmission, out of order). process_incoming_message takes them "
      "in - remove_up_to_ack, recovery.on_ack, last_remote_window, congestion_controller.set_remote_window - after the state-machine match; the Ok exits that precede remove_up_to_ack are the packets "
      "dropped whole. The discriminant dataflow gives each such exit its (states, packet types); the set must equal the audited table (RESET acking our FIN, stray SYN, wrong handshake ack, FIN out "
      "of sequence, data beyond the remote FIN). A new early exit - a 'fast path' for duplicate ST_DATA - silently ignores window reductions (C05) and acknowledgements (C06: acked data retransmitted); "
      "the immediate-ACK triggers (duplicate, out of order, FIN: C07.3) also sit after the match, so a packet dropped whole is not answered at once either (C07: a retransmitted FIN stays unanswered until a timer).")
def c05_8(R):
    b = R.body(PIM)
    dt = DiscrTracker(b, enums={SE, "raw::Type"})
    skey = tkey = None
    for s in b.stmts():
        if s.rv.kind == "agg" and s.rv.j["ak"] == "tuple" and s.place.is_local and len(s.rv.ops) == 2 and trace(b, s.rv.ops[0]).last_field == "VirtualSocket.state":
            skey = ("place", s.place.local, ("tuple.0",))
            tt = trace(b, s.rv.ops[1])
            if tt.kind == "call":
                tkey = ("get", tt.root[1].resolved, trace(b, tt.root[1].args[0]).describe())
    R.require(skey is not None and tkey is not None, "(self.state, hdr.get_type()) scrutinee")
    rua = [t for t in b.calls() if call_matches(t, ("Segments::remove_up_to_ack",))]
    R.require(len(rua) == 1, "one remove_up_to_ack call in process_incoming_message")
    after = b.reachable(rua[0].j["target"])
    # ... and the window is taken in on every way from there to an Ok exit or stored before (C05.4 checks the store itself)
    exits = [d for d in b.all_defs(0) if isinstance(d, Stmt) and d.rv.kind == "agg" and d.rv.j.get("variant") == "Ok"]
    pre = {(e.bb, e.idx): e for e in exits if e.bb not in after}
    R.floor("Ok exits that precede remove_up_to_ack", len(pre), 4)
    seen_at = {}

    def edge(term, tgt, label, d):
        r = dt.edge(term, tgt, label, d)
        return [] if r is False else [r]

    def step(it, d):
        if isinstance(it, Stmt) and (it.bb, it.idx) in pre:
            seen_at.setdefault((it.bb, it.idx), set()).add(d)
        return None
    typestate(b, [frozenset()], step, edge)
    got = set()
    for k, ds in sorted(seen_at.items()):
        e = pre[k]
        frm, typ = set(), set()
        for d in ds:
            frm |= set(dt.possible(d, skey, SE))
            typ |= set(dt.possible(d, tkey, "raw::Type"))
        key = (fs(*frm), fs(*typ))
        got.add(key)
        if key in AUDITED_PRE_ACK_EXITS:
            R.ok("dropped-whole-only-as-audited", "(%s | %s)" % key, AUDITED_PRE_ACK_EXITS[key])
        else:
            R.fail([PIM, "unaudited-exit-before-ack-processing", "from=" + key[0], "on=" + key[1]],
                   "process_incoming_message returns Ok for (%s) on %s before remove_up_to_ack / the window update: the acknowledgement, selective ACK and window that packet carries are ignored - a window "
                   "reduction is not obeyed and data the peer acknowledged is retransmitted" % key, where=e.where(), instance="dropped-whole-only-as-audited")
    # the window store itself lies after the ack processing
    ws = [s for s in b.stmts() if written_field(b, s) == "VirtualSocket.last_remote_window"]
    R.floor("stores to last_remote_window in process_incoming_message", len(ws), 1)
    for s in ws:
        if s.bb in after:
            R.ok("window-taken-after-validation", PIM, "last_remote_window stored after remove_up_to_ack")


@rule("C17.12", ["C17", "C01", "C18", "C14"], ["E2", "E4"], "what remains to be segmented is computed from the queue as it is after the expired probe was taken back",
      "split_tx_queue_into_segments computes remaining = tx_len - user_tx_segments.total_len_bytes() and segments that much. pop_expired_mtu_probe may remove the newest segment (and its bytes "
      "from the count) just before: the total_len_bytes() that feeds `remaining` (the loop's initial value and the value stored in this_poll.unsegmented_data on the final exit) must be read "
      "AFTER the pop - dominated by the pop_expired_mtu_probe call - or the bytes of a probe that was given up are never segmented again: the stream stalls behind them while "
      "unsent_data_exists() says nothing is waiting.")
def c17_12(R):
    b = R.body(VS + "::split_tx_queue_into_segments")
    pops = [t for t in b.calls() if call_matches(t, ("Segments::pop_expired_mtu_probe",))]
    R.require(len(pops) == 1, "one pop_expired_mtu_probe call")
    pop = pops[0]
    dom = b.dominators()
    # the total_len_bytes() values that reach the loop variable `remaining`: walk the final store's value back to its subtraction
    stores = [s for s in b.stmts() if written_field(b, s) == "ThisPoll.unsegmented_data"]
    R.floor("stores to this_poll.unsegmented_data", len(stores), 1)
    seen = set()
    reads = []

    def walk(op, depth=0):
        if depth > 10 or op.kind == "const":
            return
        t = trace(b, op)
        if t.kind == "call" and call_matches(t.root[1], ("Segments::total_len_bytes",)):
            reads.append(t.root[1])
            return
        if t.kind == "rv" and t.root[1].rv.kind == "bin":
            for o in t.root[1].rv.ops:
                walk(o, depth + 1)
        elif t.kind == "call" and call_matches(t.root[1], ("saturating_sub", "checked_sub", "wrapping_sub")):
            for o in t.root[1].args:
                walk(o, depth + 1)
        elif t.kind == "multi":
            if t.root[1] in seen:
                return
            seen.add(t.root[1])
            for d in t.root[3]:
                if isinstance(d, Stmt) and d.rv.ops:
                    for o in d.rv.ops:
                        walk(o, depth + 1)
    for s in stores:
        if s.rv.ops:
            walk(s.rv.ops[0])
    uniq = {(t.bb, t.idx): t for t in reads}
    R.floor("total_len_bytes() reads that feed the unsegmented count", len(uniq), 1)
    for t in uniq.values():
        if pop.bb in dom.get(t.bb, ()) and (pop.bb != t.bb):
            R.ok("segmented-count-read-after-pop", b.name, "total_len_bytes() at %s is dominated by pop_expired_mtu_probe" % t.where())
        else:
            R.fail([b.name, "total_len_bytes-read-before(pop_expired_mtu_probe)"],
                   "the segmented byte count that `remaining` is computed from is read before the expired probe is popped: after a probe is given up its bytes are counted as still segmented, so they "
                   "are never cut into a new segment and the stream stalls behind them", where=t.where(), instance="segmented-count-read-after-pop")


@rule("C17.13", ["C17", "C06", "C02"], ["E2", "E6"], "last_sent_seq_nr moves forward only for a packet the transport accepted",
      "last_sent_seq_nr is what decides whether the FIN may go out (our_fin - last_sent_seq_nr == 1), what an RTO rewinds and what flight size is computed from. It is set to the sequence number "
      "of a packet at four places - the three send_data! closures (under transport_pending = false after the send) and maybe_send_fin - and in maybe_send_fin the store must be controlled by "
      "send_control_packet(..)? = true. Recorded before the send, a FIN that met a full socket is never sent (the gate our_fin - last_sent == 1 is closed from then on) and no timer was armed "
      "for it: the connection dies silently without telling the peer.")
def c17_13(R):
    b = R.body(VS + "::maybe_send_fin")
    stores = [s for s in b.stmts() if written_field(b, s) == "VirtualSocket.last_sent_seq_nr"]
    R.floor("stores to last_sent_seq_nr in maybe_send_fin", len(stores), 1)
    sends = [t for t in b.calls() if call_matches(t, (VS + "::send_control_packet",))]
    R.require(len(sends) == 1, "send_control_packet call in maybe_send_fin")
    snd = sends[0]
    for s in stores:
        ok = False
        for c, truth, d, term, *_ in controlling(b, s.bb):
            # the `true` of the bool inside the Ok the send returned
            if truth and getattr(c, "trace", None) is not None:
                t = c.trace
                if t.kind == "call" and (t.root[1] is snd or (call_matches(t.root[1], ("Try::branch", "Try>::branch")) and trace(b, t.root[1].args[0]).kind == "call" and trace(b, t.root[1].args[0]).root[1] is snd)):
                    ok = True
        if ok and point_reaches(b, snd, s):
            R.ok("fin-recorded-only-if-sent", b.name, "last_sent_seq_nr = our_fin under send_control_packet(..)? = true")
        else:
            R.fail([b.name, "last_sent_seq_nr-store-not-under(sent)"], "maybe_send_fin records the FIN's sequence number as sent before (or regardless of whether) the transport accepted the packet: after one "
                   "would-block the FIN gate stays closed, the FIN is never transmitted and no retransmission timer runs for it", where=s.where(), instance="fin-recorded-only-if-sent")
    # the three data-send closures: covered by the same condition as the ACK bookkeeping (C07.8); here only that the stores exist where expected
    n = 0
    for cb in R.facts.bodies(lambda nm: nm.startswith(VS + "::send_tx_queue::{closure")):
        for s in cb.stmts():
            if written_field(cb, s) == "VirtualSocket.last_sent_seq_nr":
                n += 1
                ds = [d for _c, _t, d, *_ in controlling(cb, s.bb)]
                if "field:ThisPoll.transport_pending=false" in ds:
                    R.ok("data-recorded-only-if-sent", cb.name, "under transport_pending = false")
                else:
                    R.fail([cb.name, "last_sent_seq_nr-store-not-under(transport_pending=false)"], "a data segment is recorded as sent although the transport may not have taken it", where=s.where(), instance="data-recorded-only-if-sent")
    R.floor("send_data! stores to last_sent_seq_nr", n, 3)
