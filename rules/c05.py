"""C05 sender obeys the peer's window and slow-start growth."""
from .common import *
from .c02 import VS, send_data_closures
from utpsa.flow import controlling_edges, describe_cond
from utpsa.bounds import Bounds, fmt as fmt_ub

STQ = VS + "::send_tx_queue"
SPLIT = VS + "::split_tx_queue_into_segments"
ITER_ADAPTERS = ("std::iter::Iterator::filter", "std::iter::Iterator::take_while", "std::iter::Iterator::skip_while", "std::iter::Iterator::take",
                 "std::iter::IntoIterator::into_iter", "std::iter::Iterator::by_ref", "std::iter::Iterator::skip")


def send_sites(R):
    """the call sites of the send_data! closures inside send_tx_queue, classified:
    'rto' (first undelivered segment), 'recovery' (through the recovery adapters), 'new' (start = last_sent_seq_nr + 1)"""
    stq = R.body(STQ)
    names = {c.name: c for c in send_data_closures(R)}
    out = []
    for t in stq.calls():
        if t.resolved not in names:
            continue
        # the closure aggregate that is being called
        ct = trace(stq, t.args[0])
        agg = ct.root[1] if ct.kind == "rv" else None
        kind = "?"
        start = None
        adapters = []
        item_local = None
        item_op = None
        if agg is not None and agg.rv.kind == "agg":
            # the captured segment: the upvar whose type is SegmentForSending (capture order is not stable)
            for o in agg.rv.ops:
                ot = trace(stq, o)
                l = ot.root[1] if ot.kind in ("multi", "undef", "param") else (o.place.local if o.place is not None else None)
                cand = []
                if ot.kind in ("multi", "undef"):
                    cand.append(ot.root[1])
                if o.place is not None:
                    cand.append(o.place.local)
                for st_ in ot.steps:
                    if isinstance(st_, Stmt) and st_.rv.place is not None:
                        cand.append(st_.rv.place.local)
                if any("SegmentForSending" in stq.local_ty(c) and "Option" not in stq.local_ty(c) and "Iterator" not in stq.local_ty(c) for c in cand):
                    item_op = o
                    break
        if item_op is not None:
            it_t = trace(stq, item_op)
            # op0 is `&mut item`: find the local and where its value comes from
            nxt = None
            if it_t.kind == "multi" or it_t.kind == "undef":
                item_local = it_t.root[1]
            if it_t.kind == "call" and call_matches(it_t.root[1], ("Iterator::next",)):
                nxt = it_t.root[1]
            elif it_t.kind in ("multi",):
                for d in it_t.root[3]:
                    if isinstance(d, Stmt) and d.rv.kind == "use":
                        tt = trace(stq, d.rv.ops[0])
                        if tt.kind == "call" and call_matches(tt.root[1], ("Iterator::next",)):
                            nxt = tt.root[1]
            if nxt is not None:
                src = trace(stq, nxt.args[0], extra_transparent=ITER_ADAPTERS)
                adapters = [short_callee(s.resolved) for s in src.steps if isinstance(s, Term) and s.kind == "call" and s.callee in ITER_ADAPTERS and not call_matches(s, ("IntoIterator::into_iter",))]
                if src.kind == "call" and call_matches(src.root[1], ("Segments::iter_mut_for_sending",)):
                    start = classify(stq, src.root[1].args[1])
                    if start == "None":
                        kind = "recovery" if adapters else "rto"
                    elif start.startswith("Some("):
                        kind = "new"
        out.append({"call": t, "closure": names[t.resolved], "kind": kind, "start": start, "adapters": adapters})
    return stq, out


@rule("C05.1", ["C05"], ["E5", "E2", "E3"], "new data is sent only while payload <= min(cwnd, peer window) - flight",
      "The new-data send site of send_tx_queue is control-dependent on `remaining_cwnd < payload_size` = false; remaining_cwnd is either Recovery::remaining_cwnd(last_remote_window) "
      "(bounded by min(rec.cwnd, last_remote_window), minus pipe) or congestion_controller.window().min(last_remote_window).saturating_sub(calc_flight_size(last_sent_seq_nr)); "
      "every successful send is followed by `remaining_cwnd -= payload_size` before the next iteration.")
def c05_1(R):
    F = R.facts
    B = Bounds(F)
    stq, sites = send_sites(R)
    new = [s for s in sites if s["kind"] == "new"]
    R.floor("send_data! call sites in send_tx_queue", len(sites), 3)
    R.require(len(new) == 1, "exactly one new-data send site (start = Some(last_sent_seq_nr + 1))")
    st = stq.body if False else stq
    site = new[0]["call"]
    # (a) guard: the send budget is whatever local the site's guard compares with the segment's payload_size
    rl = None
    ok = False
    conds = []
    for t, tgt, lab in controlling_edges(stq, site.bb):
        c, neg = switch_cond(stq, t)
        conds.append(describe_cond(stq, t, lab))
        pol = (lab[1] != 0) if lab[0] == "val" else (0 in lab[1])
        if neg:
            pol = not pol
        o = ordering(c, pol)
        if o is not None:
            lo, hi = trace(stq, o[0]), trace(stq, o[1])
            # site reached iff payload_size <= remaining_cwnd
            if lo.kind == "call" and call_matches(lo.root[1], ("SegmentForSending::payload_size",)) and hi.kind == "multi" and not hi.fields:
                ok = True
                rl = hi.root[1]
    if ok:
        R.ok("new-data-send=>fits-window", stq.name, "send only when !(remaining_cwnd < payload_size)")
    else:
        R.fail([STQ, "new-data-send", "not-guarded-by(remaining_cwnd>=payload_size)"], "new data is transmitted without checking that the segment fits min(cwnd, peer window) - flight (guards: %s)" % ", ".join(sorted(c for c in conds if "remaining" in c or "payload" in c)),
               where=site.where(), instance="new-data-send=>fits-window")
    # (b) what remaining_cwnd is
    if rl is None:
        return
    defs = stq.all_defs(rl)
    inits = [d for d in defs if not (isinstance(d, Stmt) and local_update(stq, d))]
    R.require(len(inits) >= 1, "an initialisation of the send budget")
    # every value the budget can start from, with its upper-bound tags: `opt.unwrap_or_else(|| e)` contributes the payload of
    # opt and the closure's result; `match opt { Some(r) => r, None => e }` contributes two assignments; a helper its returned call
    values = []   # (ub, where, bodies in which the value is computed)
    for d in inits:
        c, ib = None, stq
        if isinstance(d, Stmt):
            t0 = trace(stq, d.rv.ops[0]) if d.rv.kind == "use" else None
            if t0 is not None and t0.kind == "call" and not t0.fields:
                c = t0.root[1]
            else:
                values.append((B.ub(stq, d.rv.ops[0]) if d.rv.kind == "use" else B.ub(stq, d.place), d.where(), [stq]))
                continue
        else:
            c = d
        for _ in range(3):
            if not call_matches(c, ("Option::unwrap_or_else",)) and c.j.get("res_local") and F.body(c.resolved) is not None and returned_call(F.body(c.resolved)) is not None:
                ib = F.body(c.resolved)
                c = returned_call(ib)
        if call_matches(c, ("Option::unwrap_or_else",)):
            values.append((B.ub(ib, c.args[0]), c.where(), [ib]))
            ct = trace(ib, c.args[1])
            R.require(ct.kind == "rv" and ct.root[1].rv.kind == "agg" and ct.root[1].rv.j["ak"] == "closure", "closure argument of unwrap_or_else")
            cl = R.body(ct.root[1].rv.j["closure"])
            values.append((B.summary(cl.name), cl.where(), [cl]))
        else:
            values.append((B._call(ib, c, 0), c.where(), [ib]))
    RW = ("field", "VirtualSocket.last_remote_window")
    kinds = {}
    for u, wh, bods in values:
        is_rec = u is not None and {("field", "Recovering.cwnd"), RW} <= u
        is_norm = u is not None and RW in u and any(x[0] == "call" and x[1].endswith("CongestionController::window") for x in u)
        if is_rec:
            kinds.setdefault("recovery", []).append((u, wh, bods))
        elif is_norm:
            kinds.setdefault("normal", []).append((u, wh, bods))
        else:
            kinds.setdefault("unbounded", []).append((u, wh, bods))
    for u, wh, bods in kinds.get("unbounded", []):
        # say which of the two expected initialisations this one fails to be
        which = "recovery" if "recovery" not in kinds and "normal" in kinds else "normal"
        R.fail([STQ, "remaining_cwnd(%s)" % which, "ub=" + fmt_ub(u)], ("in recovery the send budget is no longer bounded by min(recovery cwnd, peer window)" if which == "recovery" else "outside recovery the send budget is no longer bounded by min(congestion window, peer window)"), where=wh, instance="remaining_cwnd<=min(cwnd,rwnd)")
    for k, label in (("recovery", "in recovery"), ("normal", "outside recovery")):
        if k in kinds:
            R.ok("remaining_cwnd<=min(cwnd,rwnd)", label, "ub = " + fmt_ub(kinds[k][0][0]))
        elif "unbounded" not in kinds:
            R.fail([STQ, "remaining_cwnd(%s)" % k, "no-such-initialisation"], "the send budget has no initialisation bounded by the %s window" % ("recovery" if k == "recovery" else "congestion"), where=stq.where(), instance="remaining_cwnd<=min(cwnd,rwnd)")
    rc = R.body("recovery::Recovery::remaining_cwnd")
    if any(call_matches(t, ("saturating_sub",)) and any(x == ("field", "Pipe.pipe") for x in value_sources(rc, t.args[1])) for t in rc.calls()):
        R.ok("remaining_cwnd-subtracts-outstanding", rc.name, "saturating_sub(pipe)")
    else:
        R.fail([rc.name, "missing-subtraction", "Pipe.pipe"], "recovery send budget no longer subtracts the pipe estimate", where=rc.where(), instance="remaining_cwnd-subtracts-outstanding")
    nb = []
    for u, wh, bods in kinds.get("normal", []) + kinds.get("unbounded", []):
        nb += [x for x in bods if x not in nb]
    if not nb:
        nb = [stq]
    if any(call_matches(t, ("saturating_sub",)) and ("call", "stream_tx_segments::Segments::calc_flight_size") in value_sources(cl_, t.args[1]) for cl_ in nb for t in cl_.calls()):
        R.ok("remaining_cwnd-subtracts-outstanding", "outside recovery", "saturating_sub(calc_flight_size(last_sent_seq_nr))")
    else:
        R.fail([STQ, "missing-subtraction", "calc_flight_size"], "the send budget no longer subtracts the bytes in flight", where=nb[0].where(), instance="remaining_cwnd-subtracts-outstanding")
    for cl_ in nb:
        for t in cl_.calls():
            if call_matches(t, ("Segments::calc_flight_size",)):
                if trace(cl_, t.args[1]).last_field == "VirtualSocket.last_sent_seq_nr":
                    R.ok("flight-size-argument", "calc_flight_size(last_sent_seq_nr)")
                else:
                    R.fail([STQ, "calc_flight_size-arg", trace(cl_, t.args[1]).describe()], "flight size computed up to something other than last_sent_seq_nr", where=t.where(), instance="flight-size-argument")
    # (c) decrement after every successful send, before the next iteration
    decs = {s.bb for s in stq.stmts() if (lambda lu: lu and lu[0] == rl and lu[1] == "-=" and any(x[0] == "call" and x[1].endswith("payload_size") for x in value_sources(stq, lu[2])))(local_update(stq, s))}
    loops = [blocks for h, blocks in stq.natural_loops() if site.bb in blocks]
    R.require(loops, "new-data send site is inside a loop")
    loop = min(loops, key=len)
    back_src = [u for (u, v) in stq.back_edges() if u in loop and v in loop]
    reach = stq.reachable(site.j["target"], removed_blocks=decs)
    if decs and not any(u in reach for u in back_src):
        R.ok("sent=>budget-decremented", stq.name, "remaining_cwnd -= payload_size on every path from a send to the next iteration")
    else:
        R.fail([STQ, "send-without(remaining_cwnd-=payload_size)"], "after a successful send the loop can continue without reducing the remaining send budget", where=site.where(), instance="sent=>budget-decremented")


def window_budget_local(sp):
    """the loop variable of split_tx_queue_into_segments that starts at last_remote_window and is decremented (identified by shape, not by name)"""
    out = []
    for i, l in enumerate(sp.locals):
        defs = sp.all_defs(i)
        if len(defs) < 2:
            continue
        init = [d for d in defs if isinstance(d, Stmt) and d.rv.kind in ("use", "cast") and value_sources(sp, d.rv.ops[0]) == {("field", "VirtualSocket.last_remote_window")}]
        dec = [d for d in defs if isinstance(d, Stmt) and (lambda lu: lu and lu[0] == i and lu[1] == "-=")(local_update(sp, d))]
        if init and dec:
            out.append(i)
    return out[0] if len(out) == 1 else None


@rule("C05.2", ["C05", "C18", "C14"], ["E5", "E2"], "segmentation stops at the peer window",
      "In split_tx_queue_into_segments the payload_len passed to Segments::enqueue is bounded by remote_window_remaining (<- last_remote_window, decremented by every enqueue) and by next_segment_size(); "
      "enqueue is control-dependent on `remote_window_remaining > 0` = true (nothing new after a zero window); Segments::enqueue is called from nowhere else.")
def c05_2(R):
    F = R.facts
    B = Bounds(F)
    sp = R.body(SPLIT)
    enq = census_calls(R, F, ("stream_tx_segments::Segments::enqueue",))
    for b, t in enq:
        if owner_fn(b) != SPLIT:
            R.fail([owner_fn(b), "call", "Segments::enqueue"], "Segments::enqueue called outside split_tx_queue_into_segments", where=t.where(), instance="enqueue-callers")
    mine = [t for b, t in enq if b.name == SPLIT]
    R.require(len(mine) == 1, "one enqueue call in split_tx_queue_into_segments")
    R.ok("enqueue-callers", SPLIT)
    t = mine[0]
    u = B.ub(sp, t.args[1])
    rw = window_budget_local(sp)
    R.require(rw is not None, "the local that starts at last_remote_window and is decremented per segment")
    need = {("field", "VirtualSocket.last_remote_window")}
    has_ss = u is not None and any(x[0] == "call" and x[1].endswith("SegmentSizes::next_segment_size") for x in u)
    if u is not None and need <= u and has_ss:
        R.ok("segment<=min(ss,peer-window)", SPLIT, "ub(payload_len) = " + fmt_ub(u))
    else:
        R.fail([SPLIT, "enqueue(payload_len)", "ub=" + fmt_ub(u)], "segment size is no longer bounded by the peer window remaining and next_segment_size()", where=t.where(), instance="segment<=min(ss,peer-window)")
    conds = [(tt, tgt, lab) for tt, tgt, lab in controlling_edges(sp, t.bb)]
    ok = False
    for tt, tgt, lab in conds:
        c, neg = switch_cond(sp, tt)
        pol = (lab[1] != 0) if lab[0] == "val" else (0 in lab[1])
        if neg:
            pol = not pol
        x = nonzero_test(c, pol)
        if x is not None:
            ta = trace(sp, x)
            if ta.kind == "multi" and ta.root[1] == rw and not ta.fields:
                ok = True
    if ok:
        R.ok("enqueue=>window-open", SPLIT, "enqueue only while remote_window_remaining > 0")
    else:
        R.fail([SPLIT, "enqueue-not-guarded-by(remote_window_remaining>0)"], "new segments can be created although the peer's window is exhausted", where=t.where(), instance="enqueue=>window-open")
    decs = {s.bb for s in sp.stmts() if (lambda lu: lu and lu[0] == rw and lu[1] == "-=")(local_update(sp, s))}
    loops = [blocks for h, blocks in sp.natural_loops() if t.bb in blocks]
    R.require(loops, "enqueue inside the segmentation loop")
    loop = min(loops, key=len)
    back_src = [u_ for (u_, v) in sp.back_edges() if u_ in loop and v in loop]
    reach = sp.reachable(t.j["target"], removed_blocks=decs)
    if decs and not any(x in reach for x in back_src):
        R.ok("enqueued=>window-decremented", SPLIT)
    else:
        R.fail([SPLIT, "enqueue-without(remote_window_remaining-=)"], "a segment is enqueued and the loop continues without reducing the peer window remaining", where=t.where(), instance="enqueued=>window-decremented")
    # the initial value
    inits = [d for d in sp.all_defs(rw) if isinstance(d, Stmt) and local_update(sp, d) is None]
    if len(inits) == 1 and value_sources(sp, inits[0].rv.ops[0]) == {("field", "VirtualSocket.last_remote_window")}:
        R.ok("window-remaining-init", SPLIT, "= last_remote_window")
    else:
        R.fail([SPLIT, "init(remote_window_remaining)"], "remote_window_remaining is not initialised from last_remote_window", where=sp.where(), instance="window-remaining-init")


@rule("C05.3", ["C05", "C06"], ["E2", "E1"], "after an RTO only the RTO path sends until new data is acknowledged",
      "The recovery and new-data send sites of send_tx_queue are control-dependent on `rto_retransmissions > 0` = false; rto_retransmissions is incremented only after the RTO-path send "
      "and reset only in process_all_incoming_messages under acked_segments_count > 0 or newly_sacked_segment_count > 0, and in the probe-expiry arm of split_tx_queue_into_segments.")
def c05_3(R):
    F = R.facts
    stq, sites = send_sites(R)
    kinds = sorted(s["kind"] for s in sites)
    R.require(kinds == ["new", "recovery", "rto"], "the three send sites classify as rto/recovery/new (got %s)" % kinds)
    for s in sites:
        if s["kind"] == "rto":
            continue
        ok = False
        for t, tgt, lab in controlling_edges(stq, s["call"].bb):
            c, neg = switch_cond(stq, t)
            pol = (lab[1] != 0) if lab[0] == "val" else (0 in lab[1])
            if neg:
                pol = not pol
            xz = zero_test(c, pol)
            if xz is not None and trace(stq, xz).last_field == "VirtualSocket.rto_retransmissions":
                ok = True
        if ok:
            R.ok("non-rto-send=>not-in-rto-mode", s["kind"], "guarded by rto_retransmissions > 0 = false")
        else:
            R.fail([STQ, s["kind"] + "-send", "not-guarded-by(rto_retransmissions==0)"], "the %s send site is reachable while an RTO retransmission is outstanding (more than a single segment after a timeout)" % s["kind"], where=s["call"].where(), instance="non-rto-send=>not-in-rto-mode")
    n = 0
    for b, st in census_field_writes(F, "VirtualSocket.rto_retransmissions"):
        fu = field_update(b, st)
        fn = owner_fn(b)
        n += 1
        if fn == STQ and fu.op == "+=":
            R.ok("rto_retransmissions-writers", fn, "+= 1 after the RTO send (C02.4)")
        elif fn == VS + "::process_all_incoming_messages" and fu.op == "=" and fu.amount is not None and fu.amount.scalar == 0:
            conds = [describe_cond(b, t, lab) for t, tgt, lab in controlling_edges(b, st.bb)]
            # the reset sits in the join of `acked > 0 || newly_sacked > 0`: it must not be reachable when both are false
            blocks_false = set()
            for blk in b.blocks:
                if blk.cleanup or blk.term.kind != "switch":
                    continue
                c, neg = switch_cond(b, blk.term)
                pass
            reach = b.reachable(0, removed_edges=set())
            # reset reachable only via: first disjunct true, or second disjunct true
            first_true = set()
            second_true = set()
            for blk in b.blocks:
                if blk.cleanup or blk.term.kind != "switch":
                    continue
                c, neg = switch_cond(b, blk.term)
                for operand_truth in (True, False):
                    xn = nonzero_test(c, operand_truth)
                    if xn is None:
                        continue
                    lf = trace(b, xn).last_field
                    be = bool_edges(b, blk.idx)
                    nz_edge = be[1] if (operand_truth != neg) else be[0]
                    if lf == "OnAckResult.acked_segments_count":
                        first_true.add((blk.idx, nz_edge))
                    if lf == "OnAckResult.newly_sacked_segment_count":
                        second_true.add((blk.idx, nz_edge))
            okk, bad = must_pass_edges(b, [st.bb], first_true | second_true)
            if okk and first_true and second_true:
                R.ok("rto_retransmissions-writers", fn, "= 0 only when the batch acked or sacked something")
            else:
                R.fail([fn, "rto_retransmissions=0", "not-guarded-by(acked>0||sacked>0)"], "RTO mode is left without any new acknowledgement", where=st.where(), instance="rto_retransmissions-writers")
        elif fn == SPLIT and fu.op == "=" and fu.amount is not None and fu.amount.scalar == 0:
            conds = [describe_cond(b, t, lab) for t, tgt, lab in controlling_edges(b, st.bb)]
            if any(c.endswith("=Expired") for c in conds):
                R.ok("rto_retransmissions-writers", fn, "= 0 in the probe-expiry arm (not a real RTO)")
            else:
                R.fail([fn, "rto_retransmissions=0", "not-under(PopExpiredProbe::Expired)"], "RTO mode reset outside the probe-expiry arm", where=st.where(), instance="rto_retransmissions-writers")
        else:
            R.fail([fn, "write(VirtualSocket.rto_retransmissions)", fu.op], "unaudited writer of rto_retransmissions", where=st.where(), instance="rto_retransmissions-writers")
    R.floor("writers of rto_retransmissions", n, 3)


@rule("C05.4", ["C05", "C15"], ["E1", "E4"], "the peer window used for sending is the one most recently advertised",
      "VirtualSocket.last_remote_window is written only in process_incoming_message from msg.header.wnd_size (and by the constructor); congestion_controller.set_remote_window receives the same value.")
def c05_4(R):
    F = R.facts
    n = 0
    for b, s in census_field_writes(F, "VirtualSocket.last_remote_window"):
        n += 1
        src = value_sources(b, s.rv.ops[0]) if s.rv.ops else set()
        if owner_fn(b) == VS + "::process_incoming_message" and src == {("field", "UtpHeader.wnd_size")}:
            R.ok("last_remote_window-writers", owner_fn(b), "<- msg.header.wnd_size")
        else:
            R.fail([owner_fn(b), "write(VirtualSocket.last_remote_window)", "sources=" + sources_str(b, s.rv.ops[0]) if s.rv.ops else "?"], "peer window written from something other than the received header", where=s.where(), instance="last_remote_window-writers")
    R.floor("writers of last_remote_window", n, 1)
    pim = R.body(VS + "::process_incoming_message")
    k = 0
    for t in pim.calls():
        if call_matches(t, ("CongestionController::set_remote_window",)):
            k += 1
            if value_sources(pim, t.args[1]) == {("field", "UtpHeader.wnd_size")}:
                R.ok("cc-remote-window", pim.name, "set_remote_window(msg.header.wnd_size)")
            else:
                R.fail([pim.name, "set_remote_window", "sources=" + sources_str(pim, t.args[1])], "congestion controller is told a peer window that is not the received one", where=t.where(), instance="cc-remote-window")
    R.floor("set_remote_window in process_incoming_message", k, 1)
    # no accepted packet leaves process_incoming_message without its window having been recorded (duplicates and
    # retransmissions carry window updates too: a zero window on a retransmitted packet must stop the sender)
    ack = [t for t in pim.calls() if call_matches(t, ("stream_tx_segments::Segments::remove_up_to_ack",))]
    R.require(len(ack) == 1, "remove_up_to_ack in process_incoming_message (the point after which a packet counts as accepted)")
    for nm, blocks in (("last_remote_window = hdr.wnd_size", {s.bb for b_, s in census_field_writes(F, "VirtualSocket.last_remote_window") if b_.name == pim.name}),
                       ("set_remote_window(hdr.wnd_size)", {t.bb for t in pim.calls() if call_matches(t, ("CongestionController::set_remote_window",))})):
        reach = pim.reachable(ack[0].j["target"], removed_blocks=blocks)
        bad = [it for it, cls in ret_assignments(pim) if cls.startswith("Ok") and it.bb in reach]
        if blocks and not bad:
            R.ok("accepted-packet=>window-recorded", nm, "on every Ok exit after remove_up_to_ack")
        else:
            R.fail([pim.name, "Ok-exit-without", nm], "an accepted packet can be processed without recording the window it advertises (%s): the sender keeps using a stale, larger window" % nm,
                   where=bad[0].where() if bad else pim.where(), witness=path_lines(pim, shortest_path(pim, ack[0].j["target"], [bad[0].bb], removed_blocks=blocks)) if bad else [], instance="accepted-packet=>window-recorded")


def fconst(op):
    if op.kind == "const":
        sc = op.j.get("scalar")
        if isinstance(sc, dict) and "f" in sc:
            return sc["f"]
        if op.const_item:
            return "item:" + op.const_item
    return None


@rule("C05.5", ["C05", "C15"], ["E7"], "initial window 2 segments, slow start adds acked bytes, RTO collapses to 1 segment",
      "Cubic::new builds cwnd = 2.0 and ssthresh = +inf; in on_ack the slow-start arm (cwnd < ssthresh) is `cwnd += len as f64 / mss as f64`; on_retransmission_timeout stores cwnd = 1.0.")
def c05_5(R):
    new = R.body("congestion::cubic::Cubic::new")
    for s in new.stmts():
        if s.rv.kind == "agg" and s.rv.j.get("adt") == "congestion::cubic::Cubic":
            names = s.rv.j["fields"]
            c = fconst(s.rv.ops[names.index("cwnd")])
            ss = fconst(s.rv.ops[names.index("ssthresh")])
            if c == "2.0":
                R.ok("initial-cwnd", new.name, "cwnd = 2.0 segments")
            else:
                R.fail([new.name, "cwnd-init", str(c)], "initial congestion window is %s segments, not 2" % c, where=s.where(), instance="initial-cwnd")
            if ss in ("inf", "item:std::f64::INFINITY", "item:core::f64::INFINITY", "item:std::f64::consts::INFINITY") or (ss or "").endswith("INFINITY"):
                R.ok("initial-ssthresh", new.name, "ssthresh = +inf")
            else:
                R.fail([new.name, "ssthresh-init", str(ss)], "initial ssthresh is %s, not +inf" % ss, where=s.where(), instance="initial-ssthresh")
    ack = R.body("<congestion::cubic::Cubic as congestion::CongestionController>::on_ack")
    found = False
    for s in ack.stmts():
        fu = field_update(ack, s)
        if fu and fu.field == "Cubic.cwnd" and fu.op == "+=" and fu.amount is not None:
            t = trace(ack, fu.amount, through_casts=False)
            if t.kind == "rv" and t.root[1].rv.kind == "bin" and t.root[1].rv.op == "Div":
                a, b_ = t.root[1].rv.ops
                if ("param", 3) in value_sources(ack, a) and ("field", "Cubic.mss") in value_sources(ack, b_):  # on_ack(self, now, len, rtte)
                    in_ss = False
                    for c_, truth_, d_, *_ in controlling(ack, s.bb):
                        if c_.kind == "bin" and c_.op in ("Lt", "Ge") and trace(ack, c_.a).last_field == "Cubic.cwnd" and trace(ack, c_.b).last_field == "Cubic.ssthresh":
                            in_ss = (c_.op == "Lt") == truth_
                    if in_ss:
                        found = True
                        R.ok("slow-start-increment", ack.name, "cwnd += len / mss under cwnd < ssthresh")
    if not found:
        R.fail([ack.name, "slow-start-increment-shape"], "slow start no longer grows the window by exactly acked_bytes / mss under cwnd < ssthresh", where=ack.where(), instance="slow-start-increment")
    rto = R.body("<congestion::cubic::Cubic as congestion::CongestionController>::on_retransmission_timeout")
    ok = False
    for s in rto.stmts():
        fu = field_update(rto, s)
        if fu and fu.field == "Cubic.cwnd" and fu.op == "=" and fu.amount is not None:
            if fconst(fu.amount) == "1.0":
                ok = True
                R.ok("rto-collapse", rto.name, "cwnd = 1.0")
            else:
                R.fail([rto.name, "cwnd-after-rto", str(fconst(fu.amount))], "after an RTO the window is not collapsed to one segment", where=s.where(), instance="rto-collapse")
    if not ok:
        R.fail([rto.name, "no-cwnd-write"], "on_retransmission_timeout no longer writes cwnd", where=rto.where(), instance="rto-collapse")


@rule("C05.6", ["C05", "C15"], ["E1", "E4"], "the congestion window is credited with exactly the newly cumulatively-acknowledged bytes",
      "CongestionController::on_ack is called only from process_incoming_message (and by the tracing wrapper, forwarding its own parameters unchanged) with len <- on_ack_result.acked_bytes alone "
      "(not a sum with the SACKed byte count: remove_up_to_ack already counts SACK-delivered segments into acked_bytes once the cumulative ACK catches up).")
def c05_6(R):
    F = R.facts
    n = 0
    for b in F.bodies():
        for t in b.calls():
            if call_matches(t, ("congestion::CongestionController::on_ack",)):
                n += 1
                fn = owner_fn(b)
                src = value_sources(b, t.args[2])
                if fn == VS + "::process_incoming_message":
                    if src == {("field", "OnAckResult.acked_bytes")}:
                        R.ok("on_ack-len-source", fn, "len <- on_ack_result.acked_bytes")
                    else:
                        R.fail([fn, "CongestionController::on_ack", "len-sources=" + sources_str(b, t.args[2])], "the congestion controller is credited with something other than exactly the cumulatively acknowledged bytes (slow start grows faster than the acknowledged data)", where=t.where(), instance="on_ack-len-source")
                elif fn.startswith("<congestion::tracing::TracingController as"):
                    if src in ({("param", 3)}, {("upvar-param", 3)}):
                        R.ok("on_ack-len-source", "TracingController", "forwards len unchanged")
                    else:
                        R.fail([fn, "CongestionController::on_ack", "len-sources=" + sources_str(b, t.args[2])], "the tracing wrapper alters the acknowledged byte count", where=t.where(), instance="on_ack-len-source")
                else:
                    R.fail([fn, "call", "CongestionController::on_ack"], "on_ack invoked from an unaudited site", where=t.where(), instance="on_ack-len-source")
    R.floor("CongestionController::on_ack call sites", n, 2)
    # the other window-changing entry points are called where expected
    for callee, allowed in (("congestion::CongestionController::on_retransmission_timeout", {STQ}), ("congestion::CongestionController::on_enter_recovery", {"recovery::Recovery::on_ack"}),
                            ("congestion::CongestionController::on_recovered", {"recovery::Recovery::on_ack"})):
        for b in F.bodies():
            for t in b.calls():
                if call_matches(t, (callee,)):
                    fn = owner_fn(b)
                    if fn in allowed or fn.startswith("<congestion::tracing::TracingController as"):
                        R.ok("cc-event-callers:" + callee.split("::")[-1], fn)
                    else:
                        R.fail([fn, "call", callee.split("::")[-1]], "%s invoked from an unaudited site" % callee.split("::")[-1], where=t.where(), instance="cc-event-callers:" + callee.split("::")[-1])


@rule("C05.7", ["C05", "C15", "C06"], ["E4", "E2"], "the flight size counts every undelivered segment up to the send cursor",
      "Segments::calc_flight_size(last_sent): the number of segments considered is (last_sent - snd_una + 1).max(0), taken from the front of the queue without skipping; a segment contributes its "
      "payload_size exactly when it is not delivered (0 otherwise). The send budget (C05.1), the recovery exit window and the congestion controller all subtract / compare this number; "
      "Segments::first_seq_nr is None for an empty queue and Some(snd_una) otherwise.")
def c05_7(R):
    F = R.facts
    b = R.body("stream_tx_segments::Segments::calc_flight_size")
    bodies = [b] + F.closures_of(b.name)
    # (a) the count
    okc = False
    for t in b.calls():
        if call_matches(t, ("Sub::sub",)) and len(t.args) == 2:
            a0, a1 = trace(b, t.args[0]), trace(b, t.args[1])
            if a0.kind == "param" and a0.root[1] == 2 and a1.last_field == "Segments.snd_una":
                # + 1, then max(.., 0)
                plus = [s for s in b.stmts() if s.rv.kind == "bin" and s.rv.op in ADD_OPS and any(o.kind == "const" and o.scalar == 1 for o in s.rv.ops) and any((lambda x: x.kind == "call" and x.root[1] is t)(trace(b, o)) for o in s.rv.ops if o.place is not None)]
                mx = [c for c in b.calls() if call_matches(c, ("Ord::max",)) and any(o.kind == "const" and o.scalar == 0 for o in c.args)]
                okc = bool(plus) and bool(mx)
    if okc:
        R.ok("flight-count", b.name, "(last_sent - snd_una + 1).max(0)")
    else:
        R.fail([b.name, "count-shape"], "calc_flight_size no longer considers (last_sent - snd_una + 1).max(0) segments: the newest sent segment is left out (or unsent ones are counted)", where=b.where(), instance="flight-count")
    takes = [c for c in b.calls() if call_matches(c, ("Iterator::take",))]
    skips = [c for c in b.calls() if call_matches(c, ("Iterator::skip", "Iterator::rev", "Iterator::step_by", "Iterator::skip_while"))]
    src_ok = any(call_on_field(b, c, ("VecDeque::iter", "VecDeque::iter_mut", "VecDeque::range"), "Segments.segments") for c in b.calls())
    if takes and not skips and src_ok:
        R.ok("flight-front-prefix", b.name, "segments.iter().take(count)")
    else:
        R.fail([b.name, "iteration-shape", "take=%d skip=%d" % (len(takes), len(skips))], "calc_flight_size no longer walks the first `count` segments of the queue", where=b.where(), instance="flight-front-prefix")
    # (b) contributions
    n = bad = 0
    for bb_ in bodies:
        for s in bb_.stmts():
            reads = [o for o in s.rv.ops if o.place is not None and o.place.last_field == "Segment.payload_size"] if s.rv else []
            if not reads:
                continue
            n += 1
            if not any(d == "field:Segment.is_delivered=false" for c, truth, d, *_ in controlling(bb_, s.bb)):
                bad += 1
    if n and not bad:
        R.ok("flight-counts-undelivered", b.name, "payload_size contributes only under !is_delivered")
    else:
        R.fail([b.name, "contribution", "reads=%d unguarded=%d" % (n, bad)], "calc_flight_size counts delivered (selectively acknowledged) segments, or nothing at all: the send budget is computed from a wrong amount of outstanding data", where=b.where(), instance="flight-counts-undelivered")
    fs = R.body("stream_tx_segments::Segments::first_seq_nr")
    cls = {}
    for it, c in ret_assignments(fs):
        cls[c.split("(")[0]] = it
    some_ok = any(s.rv.kind == "agg" and s.rv.j.get("variant") == "Some" and trace(fs, s.rv.ops[0]).last_field == "Segments.snd_una" and any("is_empty=false" in d for c, truth, d, *_ in controlling(fs, s.bb)) for s in fs.stmts())
    none_ok = "None" in cls and any("is_empty=true" in d for c, truth, d, *_ in controlling(fs, cls["None"].bb))
    if some_ok and none_ok:
        R.ok("first_seq_nr", fs.name, "empty => None, else Some(snd_una)")
    else:
        R.fail([fs.name, "shape"], "first_seq_nr is no longer `None if empty else Some(snd_una)`", where=fs.where(), instance="first_seq_nr")


@rule("C05.9", ["C05"], ["E2", "E3"], "the timeout path does not carry never-sent payload past the peer's window",
      "The RTO branch of send_tx_queue transmits the first undelivered segment. A segment can be queued without ever having been transmitted (segmented within the window of the moment, "
      "held back by cwnd or by a window that shrank since): sending it from the timeout path is a first transmission, so that path must either be restricted to segments sent before "
      "(a test of seq_nr against last_sent_seq_nr, or a restricting iterator adapter) or consult last_remote_window. Otherwise new payload goes out after a zero window.")
def c05_9(R):
    stq, sites = send_sites(R)
    rto = []
    for s in sites:
        conds = [describe_cond(stq, t, lab) for t, tgt, lab in controlling_edges(stq, s["call"].bb)]
        if any(c == "call:Timer::expired=true" for c in conds):
            rto.append((s, conds))
    R.floor("send_data! sites under timers.retransmit.expired()", len(rto), 1)
    for s, conds in rto:
        restricted = bool(s["adapters"]) or (s["start"] is not None and s["start"] != "None")
        guarded = any("last_sent_seq_nr" in c or "last_remote_window" in c for c in conds)
        # a comparison whose operand is last_sent_seq_nr / last_remote_window, however it is spelled (SeqNr compares through PartialOrd calls)
        for c, truth, desc, *_ in controlling(stq, s["call"].bb):
            ops = list(c.call.args) if c.kind == "call" and c.call is not None else []
            o = ordering(c, True)
            if o is not None:
                ops += [o[0], o[1]]
            for op in ops:
                src = value_sources(stq, op)
                if ("field", VS.split("::")[-1] + ".last_sent_seq_nr") in src or ("field", VS.split("::")[-1] + ".last_remote_window") in src:
                    guarded = True
        if restricted or guarded:
            R.ok("rto-send=>sent-before-or-fits-window", stq.name, "the timeout path is restricted (%s)" % ", ".join(sorted(c for c in conds if "last_" in c) or s["adapters"] or [str(s["start"])]))
        else:
            R.fail([STQ, "rto-send", "first-undelivered-segment", "not-restricted-to(sent-before|peer-window)"],
                   "the retransmission-timeout path sends the first undelivered segment whether or not it was ever transmitted and without looking at last_remote_window: a segment that was queued but held back "
                   "goes out for the first time after the peer advertised a zero window", where=s["call"].where(), instance="rto-send=>sent-before-or-fits-window")
