"""C01 byte-stream integrity: the bookkeeping that makes "offset of a segment = position in the ring"
and "slot = sequence offset" true on every path."""
from .common import *
from utpsa.prov import upvar_trace, upvar_origin

SEG = "stream_tx_segments::Segments"


def _amount_is_payload_size(body, op):
    srcs = value_sources(body, op)
    return ("field", "Segment.payload_size") in srcs or any(s[0] == "field" and s[1].endswith(".payload_size") for s in srcs)


def _amount_is_param(name):
    def chk(body, op):
        return ("param", name) in value_sources(body, op)
    return chk


@rule("C01.1", ["C01", "C14", "C10", "C08", "C02", "C19"], ["E3", "E4"], "TX segment accounting is conserved on every path",
      "In every method of Segments: a fresh element pushed on `segments` <=> `offset += x` and `len_bytes += x` (x = the element's payload_size source); "
      "an element removed from the back and not pushed back <=> `len_bytes -= payload_size` and `offset -= payload_size`; an element removed from the front "
      "(drain item / pop_front) <=> `len_bytes -= payload_size`, `snd_una += 1` and its payload_size accumulated into the local that feeds `removed_offset +=`; checked per loop iteration and at every return.")
def c01_1(R):
    F = R.facts
    methods = [b for b in F.bodies() if b.self_adt == SEG and b.kind == "method"]
    R.require(len(methods) >= 10, "methods of %s" % SEG)
    counters = {
        "Segments.len_bytes+=": ("Segments.len_bytes", "+=", None),
        "Segments.offset+=": ("Segments.offset", "+=", None),
        "Segments.len_bytes-=": ("Segments.len_bytes", "-=", _amount_is_payload_size),
        "Segments.offset-=": ("Segments.offset", "-=", _amount_is_payload_size),
        "Segments.snd_una+=1": ("Segments.snd_una", "add_assign", None),
    }

    def balance(tags, has_count=False):
        miss = []
        ins = "ins" in tags
        remb = "rem_back" in tags
        remf = "rem_front" in tags
        for t in ("Segments.len_bytes+=", "Segments.offset+="):
            if ins and t not in tags:
                miss.append(t)
            if not ins and t in tags:
                miss.append("push-of-new-element(for %s)" % t)
        if (remb or remf) and "Segments.len_bytes-=" not in tags:
            miss.append("Segments.len_bytes-=")
        if not (remb or remf) and "Segments.len_bytes-=" in tags:
            miss.append("removal(for Segments.len_bytes-=)")
        if remb and "Segments.offset-=" not in tags:
            miss.append("Segments.offset-=")
        if not remb and "Segments.offset-=" in tags:
            miss.append("back-removal(for Segments.offset-=)")
        if remf and "Segments.snd_una+=1" not in tags:
            miss.append("Segments.snd_una+=1")
        if not remf and "Segments.snd_una+=1" in tags:
            miss.append("front-removal(for Segments.snd_una+=1)")
        if remf and "acc(payload_size)" not in tags:
            miss.append("acc(payload_size->removed_offset)")
        if remf and has_count and "acc(count)" not in tags:
            miss.append("acc(1->acked_segments_count)")
        return miss

    total = 0
    touched = 0
    for b in methods:
        # which local feeds `removed_offset += L`?
        feed_locals = set()
        for s in b.stmts():
            fu = field_update(b, s)
            if fu and fu.field == "Segments.removed_offset" and fu.op == "+=" and fu.amount is not None:
                t = trace(b, fu.amount)
                if t.kind == "multi":
                    feed_locals.add(t.root[1])

        # ... and which local is reported as OnAckResult.acked_segments_count (it gates the ring truncation in the dispatcher)?
        count_locals = set()
        for s in b.stmts():
            if s.rv.kind == "agg" and s.rv.j.get("adt") == "stream_tx_segments::OnAckResult":
                i_ = s.rv.j["fields"].index("acked_segments_count")
                cr = copy_root(b, s.rv.ops[i_])
                if cr is not None:
                    count_locals.add(cr)

        def local_acc(body, it, feed_locals=feed_locals, count_locals=count_locals):
            lu = local_update(body, it)
            if lu and lu[0] in feed_locals and lu[1] == "+=" and _amount_is_payload_size(body, lu[2]):
                return "acc(payload_size)"
            if lu and lu[0] in count_locals and lu[1] == "+=" and lu[2].kind == "const" and lu[2].scalar == 1:
                return "acc(count)"
            return None


        n = container_accounting(R, b, "Segments.segments", counters, (lambda tags, hc=bool(count_locals): balance(tags, hc)), "tx-accounting:" + b.name.split("::")[-1], local_acc=local_acc)
        # the accumulated bytes reach removed_offset: the `removed_offset += L` comes AFTER the last place that adds to L (a front removal in a later
        # clean-up loop would otherwise be reported as acked_bytes - the ring is cut by it - without moving removed_offset: every later payload offset shifts)
        if feed_locals:
            ups = [s for s in b.stmts() if (lambda fu: fu and fu.field == "Segments.removed_offset" and fu.op == "+=")(field_update(b, s))]
            accs = [s for s in b.stmts() if (lambda lu: lu and lu[0] in feed_locals and lu[1] == "+=")(local_update(b, s))]
            late = [a for a in accs for u in ups if point_reaches(b, u, a)]
            from utpsa.flow import must_pass_blocks
            skipped = [a for a in accs if not must_pass_blocks(b, b.return_blocks(), {u.bb for u in ups}, start=a.bb)[0] and not any(u.bb == a.bb and u.idx > a.idx for u in ups)]
            if ups and not late and not skipped:
                R.ok("removed-bytes-reach-removed_offset", b.name, "removed_offset += (all %d accumulations), after the last of them" % len(accs))
            else:
                R.fail([b.name, "removed_offset-update", "before-a-later-accumulation" if late else "skippable-after-accumulation"],
                       "%s: bytes of a segment removed from the front are added to the acknowledged total %s the update of removed_offset: acked_bytes (by which the ring is cut) and removed_offset "
                       "(from which every later segment's position in the ring is computed) disagree from then on - wrong bytes are sent or the buffer-bounds 'bug:' errors fire"
                       % (b.name.split("::")[-1], "after" if late else "on a path that skips"), where=(late or skipped or ups or [b])[0].where() if (late or skipped or ups) else b.where(), instance="removed-bytes-reach-removed_offset")
        total += n
        if n:
            touched += 1
    # enqueue: the three amounts come from the same parameter as the element's payload_size
    enq = R.body(SEG + "::enqueue")
    psrc = None
    for s in enq.stmts():
        if s.rv.kind == "agg" and s.rv.j.get("adt", "").endswith("::Segment"):
            names = s.rv.j["fields"]
            i = names.index("payload_size")
            psrc = value_sources(enq, s.rv.ops[i])
            j = names.index("payload_offset_absolute")
            osrc = value_sources(enq, s.rv.ops[j])
            if ("field", "Segments.offset") not in osrc:
                R.fail([enq.name, "payload_offset_absolute", "sources=" + sources_str(enq, s.rv.ops[j])], "new segment's payload_offset_absolute is not read from Segments.offset", where=s.where(), instance="enqueue-offset-source")
            else:
                R.ok("enqueue-offset-source", enq.name, "payload_offset_absolute <- Segments.offset")
    R.require(psrc is not None, "Segment aggregate in enqueue")
    for s in enq.stmts():
        fu = field_update(enq, s)
        if fu and fu.op == "+=" and fu.field in ("Segments.offset", "Segments.len_bytes"):
            src = value_sources(enq, fu.amount)
            if src != psrc:
                R.fail([enq.name, fu.field, "amount-differs-from-payload_size", "sources=" + sources_str(enq, fu.amount)],
                       "enqueue: %s += amount whose source differs from the new element's payload_size" % fu.field, where=s.where(), instance="enqueue-amounts")
            else:
                R.ok("enqueue-amounts", "%s %s+=" % (enq.name, fu.field), "amount source = payload_size source (%s)" % sources_str(enq, fu.amount))
    # removed_offset is written only by `+=` in remove_up_to_ack
    w = census_field_writes(F, "Segments.removed_offset")
    for b, s in w:
        fu = field_update(b, s)
        if b.name.endswith("::remove_up_to_ack") and fu.op == "+=":
            R.ok("removed_offset-writers", b.name, "+= accumulated payload of front-removed segments")
        elif b.name.endswith("Segments::new"):
            pass
        else:
            R.fail([b.name, "write(Segments.removed_offset)", fu.op], "unexpected writer of Segments.removed_offset", where=s.where(), instance="removed_offset-writers")
    # the counters start in step with the empty queue
    sn_ = R.body(SEG + "::new")
    for st_ in sn_.stmts():
        if st_.rv.kind == "agg" and st_.rv.j.get("adt") == SEG:
            nm_ = st_.rv.j["fields"]
            bad_ = [f_ for f_ in ("len_bytes", "offset", "removed_offset") if not (st_.rv.ops[nm_.index(f_)].kind == "const" and st_.rv.ops[nm_.index(f_)].scalar == 0)]
            su = trace(sn_, st_.rv.ops[nm_.index("snd_una")])
            if not bad_ and su.kind == "param" and su.root[1] == 1:
                R.ok("tx-accounting:new", sn_.name, "len_bytes = offset = removed_offset = 0, snd_una = the first sequence number")
            else:
                R.fail([sn_.name, "initial-accounting", ",".join(bad_) or "snd_una"], "a new segment queue does not start with zeroed byte counters and snd_una = its first sequence number: every later offset is shifted", where=st_.where(), instance="tx-accounting:new")
    R.floor("accounting events in Segments", total, 14)
    R.floor("Segments methods touching the queue accounting", touched, 4)


@rule("C01.3", ["C01", "C19", "C03"], ["E1", "E4"], "the TX ring is consumed only by cumulative ACKs and filled only by poll_write",
      "Census of every method called on UserTx.consumer / UserTx.producer: consumer: as_slices, capacity, skip (only in UserTx::truncate_front), replacement (only in UserTx::grow); "
      "producer: push_slice (only poll_write), is_empty, replacement (only grow). truncate_front is called only from process_all_incoming_messages with an argument sourced from OnAckResult.acked_bytes; "
      "OnAckResult::update adds each field from the same-named field; acked_bytes is produced only by remove_up_to_ack from the front-removal accumulator.")
def c01_3(R):
    F = R.facts
    allowed_cons = {
        "Consumer::as_slices": None,
        "Observer::capacity": None,
        "Consumer::skip": {"stream_tx::UserTx::truncate_front"},
        "Observer::occupied_len": None,
        "Observer::is_empty": None,
    }
    allowed_prod = {
        "Producer::push_slice": {"<stream_tx::UtpStreamWriteHalf as tokio::io::AsyncWrite>::poll_write"},
        "Observer::is_empty": None,
        "Observer::vacant_len": None,
        "Observer::capacity": None,
    }
    n = 0
    for fld, allowed in (("UserTx.consumer", allowed_cons), ("UserTx.producer", allowed_prod)):
        for b, t, m in calls_on_container(F, fld):
            # the Mutex itself: lock() / Mutex::new are fine; what matters are calls on the guarded value
            if call_matches(t, ("Mutex::lock", "Mutex::new", "Deref::deref", "DerefMut::deref_mut", "mem::drop", "Mutex::try_lock")):
                continue
            n += 1
            fn = owner_fn(b)
            ok = False
            for a, who in allowed.items():
                if call_matches(t, (a,)):
                    ok = who is None or fn in who
            if ok:
                R.ok("ring-ops:" + fld, "%s calls %s" % (fn, m))
            else:
                R.fail([fn, fld, "call", m], "%s: operation %s on %s is outside the audited set - the ring may be consumed/filled by something other than ACK processing / poll_write" % (fn, m, fld),
                       where=t.where(), instance="ring-ops:" + fld)
    R.floor("operations on the TX ring", n, 8)
    # replacement of the ring halves: `*prod = ..`, `*cons = ..` only in grow (writes through the guard deref)
    for b in F.bodies(lambda n: n.startswith("stream_tx::") or n.startswith("stream_dispatch::")):
        for s in b.stmts():
            if s.place.proj == ["*"]:
                ty = b.local_ty(s.place.local)
                if "ringbuf::" in ty and ("Prod" in ty or "Cons" in ty or "CachingProd" in ty or "CachingCons" in ty):
                    if b.name == "stream_tx::UserTx::grow":
                        R.ok("ring-replace", b.name, "ring half replaced in grow")
                    else:
                        R.fail([b.name, "replace-ring-half"], "ring half replaced outside UserTx::grow", where=s.where(), instance="ring-replace")
    # truncate_front callers
    callers = census_calls(R, F, ("stream_tx::UserTx::truncate_front",))
    for b, t in callers:
        fn = owner_fn(b)
        src = value_sources(b, t.args[1])
        if fn.endswith("VirtualSocket::process_all_incoming_messages") and src == {("field", "OnAckResult.acked_bytes")}:
            R.ok("truncate_front-callers", fn, "argument <- OnAckResult.acked_bytes")
        else:
            R.fail([fn, "truncate_front", "sources=" + sources_str(b, t.args[1])], "truncate_front called from an unaudited site or with an argument that is not OnAckResult.acked_bytes", where=t.where(), instance="truncate_front-callers")
    R.floor("truncate_front call sites", len(callers), 1)
    # OnAckResult::update field-for-field
    upd = R.body("stream_tx_segments::OnAckResult::update")
    k = 0
    for s in upd.stmts():
        fu = field_update(upd, s)
        if fu is None or not fu.field.startswith("OnAckResult."):
            continue
        if fu.op == "+=":
            k += 1
            src = value_sources(upd, fu.amount)
            if src == {("field", fu.field)}:
                R.ok("onack-update", fu.field, "+= other.%s" % fu.field.split(".")[1])
            else:
                R.fail([upd.name, fu.field, "sources=" + sources_str(upd, fu.amount)], "OnAckResult::update adds %s from a different field" % fu.field, where=s.where(), instance="onack-update")
    R.floor("OnAckResult::update additive fields", k, 4)
    # acked_bytes producer: only the aggregate in remove_up_to_ack (and Default)
    rua = R.body(SEG + "::remove_up_to_ack")
    feed = None
    for s in rua.stmts():
        fu = field_update(rua, s)
        if fu and fu.field == "Segments.removed_offset" and fu.op == "+=":
            t = trace(rua, fu.amount)
            feed = t.root[1] if t.kind == "multi" else None
    R.require(feed is not None, "removed_offset += <local> in remove_up_to_ack")
    nagg = 0
    for b in F.bodies():
        for s in b.stmts():
            if s.rv.kind == "agg" and s.rv.j.get("adt") == "stream_tx_segments::OnAckResult":
                nagg += 1
                i = s.rv.j["fields"].index("acked_bytes")
                t = trace(b, s.rv.ops[i])
                if b.name == rua.name and t.kind == "multi" and t.root[1] == feed:
                    R.ok("acked_bytes-producer", b.name, "acked_bytes <- the same accumulator that feeds removed_offset")
                elif b.trait == "std::default::Default" and (s.rv.ops[i].kind == "const" or (t.kind == "call" and (t.root[1].callee or "").endswith("Default::default"))):
                    R.ok("acked_bytes-producer", b.name, "default 0")
                else:
                    R.fail([b.name, "OnAckResult.acked_bytes", "sources=" + sources_str(b, s.rv.ops[i])], "OnAckResult.acked_bytes built from something other than the front-removal accumulator", where=s.where(), instance="acked_bytes-producer")
            if written_field(b, s) == "OnAckResult.acked_bytes" and b.name != upd.name:
                R.fail([b.name, "write(OnAckResult.acked_bytes)"], "unexpected writer of OnAckResult.acked_bytes", where=s.where(), instance="acked_bytes-producer")
    R.floor("OnAckResult aggregates", nagg, 1)


@rule("C01.4", ["C01", "C04", "C10", "C07", "C02"], ["E3"], "RX reassembly / user-queue accounting is conserved",
      "OutOfOrderQueue: a slot write (`*slot = msg`, slot from data.get_mut) <=> `len += 1` and `len_bytes += msg.len_bytes()`; data.pop_front() => on every path either push_front of the element "
      "or `filled_front -= 1`, `len -= 1`, `len_bytes -=` and push_back(default) (slot count constant). MsgQueue: queue.push_back <=> `len_bytes +=`, pop_front <=> `len_bytes -=`.")
def c01_4(R):
    F = R.facts
    total = 0
    # ---- MsgQueue
    mq = [b for b in F.bodies() if b.self_adt == "stream_rx::msgq::MsgQueue" and b.kind == "method"]
    R.require(len(mq) >= 4, "methods of MsgQueue")

    def bal_mq(tags):
        miss = []
        if "ins" in tags and "MsgQueue.len_bytes+=" not in tags:
            miss.append("MsgQueue.len_bytes+=")
        if "ins" not in tags and "MsgQueue.len_bytes+=" in tags:
            miss.append("push(for MsgQueue.len_bytes+=)")
        rem = "rem_front" in tags or "rem_back" in tags
        if rem and "MsgQueue.len_bytes-=" not in tags:
            miss.append("MsgQueue.len_bytes-=")
        if not rem and "MsgQueue.len_bytes-=" in tags:
            miss.append("removal(for MsgQueue.len_bytes-=)")
        return miss

    def is_len_bytes_call(body, op):
        return any(s[0] == "call" and s[1].endswith("::len_bytes") for s in value_sources(body, op))

    for b in mq:
        total += container_accounting(R, b, "MsgQueue.queue", {
            "MsgQueue.len_bytes+=": ("MsgQueue.len_bytes", "+=", is_len_bytes_call),
            "MsgQueue.len_bytes-=": ("MsgQueue.len_bytes", "-=", is_len_bytes_call),
        }, bal_mq, "msgq-accounting:" + b.name.split("::")[-1])

    # ---- OutOfOrderQueue
    ooq = [b for b in F.bodies() if b.self_adt == "stream_rx::OutOfOrderQueue" and b.kind == "method"]
    R.require(len(ooq) >= 4, "methods of OutOfOrderQueue")

    def slot_write(body, it):
        # `*slot = msg` where slot comes from data.get_mut(..)
        if isinstance(it, Stmt) and it.place.proj == ["*"]:
            t = trace(body, Place({"l": it.place.local, "p": []}), extra_transparent=("std::ops::Try::branch", "std::option::Option::ok_or"))
            if t.kind == "call" and call_on_field(body, t.root[1], ("VecDeque::get_mut",), "OutOfOrderQueue.data"):
                return "slot_write"
        if isinstance(it, Term) and call_on_field(body, it, ("IndexMut::index_mut",), "OutOfOrderQueue.data"):
            return "slot_write"
        return None

    def bal_ooq(tags):
        miss = []
        sw = "slot_write" in tags
        for t in ("OutOfOrderQueue.len+=", "OutOfOrderQueue.len_bytes+="):
            if sw and t not in tags:
                miss.append(t)
            if not sw and t in tags:
                miss.append("slot-write(for %s)" % t)
        rem = "rem_front" in tags or "rem_back" in tags
        for t in ("OutOfOrderQueue.filled_front-=", "OutOfOrderQueue.len-=", "OutOfOrderQueue.len_bytes-=", "push_default"):
            if rem and t not in tags:
                miss.append(t)
            if not rem and t in tags:
                miss.append("front-removal(for %s)" % t)
        if "ins" in tags:
            miss.append("no-fresh-non-default-insert")
        return miss

    for b in ooq:
        total += container_accounting(R, b, "OutOfOrderQueue.data", {
            "OutOfOrderQueue.len+=": ("OutOfOrderQueue.len", "+=", None),
            "OutOfOrderQueue.len_bytes+=": ("OutOfOrderQueue.len_bytes", "+=", is_len_bytes_call),
            "OutOfOrderQueue.filled_front-=": ("OutOfOrderQueue.filled_front", "-=", None),
            "OutOfOrderQueue.len-=": ("OutOfOrderQueue.len", "-=", None),
            "OutOfOrderQueue.len_bytes-=": ("OutOfOrderQueue.len_bytes", "-=", is_len_bytes_call),
        }, bal_ooq, "ooq-accounting:" + b.name.split("::")[-1], extra_events=slot_write)
    R.floor("RX accounting events", total, 12)
    # filled_front grows only by the contiguous-run count in add_remove
    for b, s in census_field_writes(F, "OutOfOrderQueue.filled_front"):
        fu = field_update(b, s)
        if b.name.endswith("OutOfOrderQueue::add_remove") and fu.op == "+=":
            R.ok("filled_front-writers", b.name, "+= contiguous run length")
        elif b.name.endswith("OutOfOrderQueue::send_front_if_fits") and fu.op == "-=":
            R.ok("filled_front-writers", b.name, "-= 1 per flushed element")
        elif b.name.endswith("OutOfOrderQueue::new"):
            pass
        else:
            R.fail([b.name, "write(OutOfOrderQueue.filled_front)", fu.op], "unexpected writer of OutOfOrderQueue.filled_front", where=s.where(), instance="filled_front-writers")


@rule("C01.6", ["C01", "C04"], ["E1"], "FIFO ends of the RX queues",
      "OutOfOrderQueue.data is touched only by pop_front, push_back(Default), push_front(re-insert), get_mut, range, iter, len, index[0]; MsgQueue.queue only by push_back / pop_front; "
      "MsgQueue::try_push_back is called only from the flush closure of UserRx::flush; unbounded MsgQueue::push_back only with UserRxMessage::Error.")
def c01_6(R):
    F = R.facts
    allowed = {
        "OutOfOrderQueue.data": {"VecDeque::pop_front", "VecDeque::push_back", "VecDeque::push_front", "VecDeque::get_mut", "VecDeque::range", "VecDeque::iter", "VecDeque::len", "Index::index", "VecDeque::from", "From::from"},
        "MsgQueue.queue": {"VecDeque::push_back", "VecDeque::pop_front", "Default::default"},
        "Segments.segments": {"VecDeque::push_back", "VecDeque::pop_back", "VecDeque::pop_front", "VecDeque::drain", "VecDeque::len", "VecDeque::is_empty", "VecDeque::front", "VecDeque::iter", "VecDeque::iter_mut", "VecDeque::range_mut", "VecDeque::new"},
    }
    n = 0
    for fld, ok in allowed.items():
        for b, t, m in calls_on_container(F, fld):
            n += 1
            if any(call_matches(t, (a,)) for a in ok):
                R.ok("queue-ops:" + fld, "%s calls %s" % (owner_fn(b), m))
            else:
                R.fail([owner_fn(b), fld, "call", m], "operation %s on %s is outside the audited FIFO set" % (m, fld), where=t.where(), instance="queue-ops:" + fld)
    R.floor("queue operations", n, 20)
    # push_front on data must be a re-insert, push_back on data must be Default
    for b, t in census_calls(R, F, ("VecDeque::push_back",), "OutOfOrderQueue.data"):
        tr = trace(b, t.args[1])
        if tr.kind == "call" and (tr.root[1].callee or "").endswith("Default::default"):
            R.ok("ooq-push_back-default", b.name, "push_back(Default::default())")
        else:
            R.fail([b.name, "OutOfOrderQueue.data", "push_back-non-default"], "push_back of a non-default element onto the reassembly slots (would shift slot <-> sequence mapping)", where=t.where(), instance="ooq-push_back-default")
    # try_push_back callers
    cs = census_calls(R, F, ("MsgQueue::try_push_back",))
    for b, t in cs:
        fn = owner_fn(b)
        if fn == "stream_rx::UserRx::flush":
            R.ok("try_push_back-callers", fn)
        else:
            R.fail([fn, "call", "MsgQueue::try_push_back"], "try_push_back called outside UserRx::flush", where=t.where(), instance="try_push_back-callers")
    R.floor("try_push_back call sites", len(cs), 1)
    cs = census_calls(R, F, ("MsgQueue::push_back",))
    for b, t in cs:
        c = classify(b, t.args[1])
        if c.startswith("UserRxMessage::Error"):
            R.ok("msgq-unbounded-push", owner_fn(b), "only Error messages bypass the capacity check")
        else:
            R.fail([owner_fn(b), "MsgQueue::push_back", c], "unbounded MsgQueue::push_back with a non-Error message", where=t.where(), instance="msgq-unbounded-push")
    R.floor("MsgQueue::push_back call sites", len(cs), 1)


@rule("C01.7", ["C01", "C19", "C05"], ["E3", "E4"], "the outcome of ACK processing is never dropped on the way to the ring",
      "In process_incoming_message every exit Ok(x) that is reachable after Segments::remove_up_to_ack (which already advanced removed_offset / snd_una) returns the ProcessIncomingMessageResult built from "
      "that call's OnAckResult - never a default; process_all_incoming_messages passes every such result to ProcessIncomingMessageResult::update, whose accumulator feeds truncate_front (C01.3).")
def c01_7(R):
    VSP = "stream_dispatch::VirtualSocket"
    pim = R.body(VSP + "::process_incoming_message")
    calls = [t for t in pim.calls() if call_matches(t, (SEG + "::remove_up_to_ack",))]
    R.require(len(calls) == 1, "one call of remove_up_to_ack in process_incoming_message")
    c = calls[0]
    after = pim.reachable(c.bb)
    n = 0
    for it, cls in ret_assignments(pim):
        if it.bb not in after or it.bb == c.bb:
            continue
        if not cls.startswith("Ok"):
            continue
        n += 1
        ok = False
        if isinstance(it, Stmt) and it.rv.kind == "agg" and it.rv.ops:
            t = trace(pim, it.rv.ops[0])
            if t.kind == "rv" and t.root[1].rv.kind == "agg" and t.root[1].rv.j.get("adt", "").endswith("ProcessIncomingMessageResult"):
                i = t.root[1].rv.j["fields"].index("on_ack_result")
                tt = trace(pim, t.root[1].rv.ops[i])
                if tt.kind == "call" and tt.root[1] is c:
                    ok = True
        if ok:
            R.ok("ack-result-returned", "%s exit @%s" % (pim.name.split("::")[-1], pim.src_line(it.loc)[:40]), "returns the result of remove_up_to_ack")
        else:
            R.fail([pim.name, "Ok-exit-after(remove_up_to_ack)-drops-OnAckResult", cls],
                   "process_incoming_message returns %s after remove_up_to_ack already consumed segments: the acknowledged bytes are never truncated from the TX ring, the ring and the segment offsets diverge" % cls,
                   where=it.where(), instance="ack-result-returned")
    R.floor("Ok exits after remove_up_to_ack", n, 2)
    pam = R.body(VSP + "::process_all_incoming_messages")
    pc = [t for t in pam.calls() if call_matches(t, (VSP + "::process_incoming_message",))]
    R.require(len(pc) == 1, "call of process_incoming_message in process_all_incoming_messages")
    upd = [t for t in pam.calls() if call_matches(t, ("ProcessIncomingMessageResult::update",))]
    okm = False
    for u in upd:
        t = trace(pam, u.args[1], extra_transparent=("std::ops::Try::branch",))
        if t.kind == "call" and t.root[1] is pc[0]:
            okm = True
    if okm:
        R.ok("ack-result-merged", pam.name, "result.update(&process_incoming_message(..)?)")
    else:
        R.fail([pam.name, "process_incoming_message-result-not-merged"], "the per-message ACK result is not merged into the batch result", where=pc[0].where(), instance="ack-result-merged")
    # ... and once merged, the batch result reaches the `acked > 0 => truncate_front` decision on every normal exit
    tf = [t for t in pam.calls() if call_matches(t, ("stream_tx::UserTx::truncate_front",))]
    R.require(len(tf) == 1, "truncate_front in process_all_incoming_messages")
    gates = set()
    for c_, truth_, d_, term_, *_ in controlling(pam, tf[0].bb):
        x = nonzero_test(c_, truth_)
        if x is not None and trace(pam, x).last_field in ("OnAckResult.acked_segments_count", "OnAckResult.acked_bytes"):
            gates.add(term_.bb)
    R.require(gates, "the acked > 0 test guarding truncate_front")
    def closes(body_):
        return [s_ for s_ in body_.stmts() if written_field(body_, s_) == "VirtualSocket.state" and s_.rv.ops and "Closed" in classify(body_, s_.rv.ops[0])]
    closed = {s_.bb for s_ in closes(pam)}
    closers = {cb.name for cb in R.facts.closures_of(pam.name) if closes(cb)}  # log_if_changed!(.., |s| s.state = Closed)
    closed |= {t.bb for t in pam.calls() if t.resolved in closers}
    closed |= {s_.bb for s_ in pam.stmts() if s_.rv.kind == "agg" and s_.rv.j.get("ak") == "closure" and s_.rv.j.get("closure") in closers}
    for u_ in upd:
        start = u_.j["target"]
        reach = pam.reachable(start, removed_blocks=gates | closed)
        bad = [it for it, cls in ret_assignments(pam) if cls.startswith("Ok") and it.bb in reach]
        if not bad:
            R.ok("merged-result=>ring-truncation-decided", pam.name, "every Ok exit after a processed message passes the acked > 0 test (or closes the connection)")
        else:
            R.fail([pam.name, "Ok-exit-after(process_incoming_message)-skips(truncate_front)"],
                   "process_all_incoming_messages can return Ok after a message was processed without reaching truncate_front: acknowledged bytes stay in the TX ring while the segments' offsets have moved on - every later (re)transmission carries the wrong bytes",
                   where=bad[0].where(), witness=path_lines(pam, shortest_path(pam, start, [bad[0].bb], removed_blocks=gates | closed)), instance="merged-result=>ring-truncation-decided")
    u = R.body("stream_dispatch::ProcessIncomingMessageResult::update")
    if any(call_matches(t, ("stream_tx_segments::OnAckResult::update",)) for t in u.calls()):
        R.ok("ack-result-merged", u.name, "delegates to OnAckResult::update")
    else:
        R.fail([u.name, "no-OnAckResult::update"], "ProcessIncomingMessageResult::update no longer merges the OnAckResult", where=u.where(), instance="ack-result-merged")


@rule("C01.5", ["C01", "C10", "C04"], ["E2", "E6", "E4"], "a packet reaches a reassembly slot only inside the window, only once, and at its own sequence offset",
      "OutOfOrderQueue::add_remove writes the slot data.get_mut(X) only under is_full() = false, `X >= data.len()` = false for the *same* X that indexes the slot, X = offset + filled_front, and "
      "ooq_slot_is_default(slot) = true (otherwise AlreadyPresent); in process_incoming_message the ST_DATA arm calls user_rx.add_remove only under `offset < 0` = false with "
      "offset = msg.header.seq_nr - (last_consumed_remote_seq_nr + 1), passed on as `offset as usize`.")
def c01_5(R):
    b = R.body("stream_rx::OutOfOrderQueue::add_remove")
    gm = [t for t in b.calls() if call_on_field(b, t, ("VecDeque::get_mut",), "OutOfOrderQueue.data")]
    R.require(len(gm) == 1, "data.get_mut in add_remove")
    g = gm[0]
    idx = trace(b, g.args[1], through_casts=False)
    shape = False
    if idx.kind == "rv" and idx.root[1].rv.kind == "bin" and idx.root[1].rv.op.startswith("Add"):
        srcs = {sources_str(b, o) for o in idx.root[1].rv.ops}
        shape = srcs == {"param#3", "field:OutOfOrderQueue.filled_front"}  # add_remove(self, msg, offset)
    if shape:
        R.ok("slot-index=offset+filled_front", b.name)
    else:
        R.fail([b.name, "slot-index-shape", idx.describe()[:60]], "the reassembly slot is no longer indexed by offset + filled_front", where=g.where(), instance="slot-index=offset+filled_front")
    writes = [s for s in b.stmts() if s.place.proj == ["*"] and (lambda t: t.kind == "call" and t.root[1] is g)(trace(b, Place({"l": s.place.local, "p": []}), extra_transparent=("std::ops::Try::branch", "std::option::Option::ok_or")))]
    R.floor("slot write in add_remove", len(writes), 1)
    for s in writes:
        win = full = fresh = False
        for c, truth, d, *_ in controlling(b, s.bb):
            o = ordering(c, truth)
            if o is not None:
                a = trace(b, o[0], through_casts=False)
                r = trace(b, o[1])
                same_x = a.kind == idx.kind and a.root[1] is idx.root[1] if a.kind == "rv" else False
                is_len = r.kind == "call" and call_on_field(b, r.root[1], ("VecDeque::len",), "OutOfOrderQueue.data")
                if same_x and is_len and o[2]:
                    win = True
            if c.kind == "call" and call_matches(c.call, ("stream_rx::OutOfOrderQueue::is_full",)) and not truth:
                full = True
            if c.kind == "call" and call_matches(c.call, ("stream_rx::ooq_slot_is_default",)) and truth:
                st = trace(b, c.call.args[0], extra_transparent=("std::ops::Try::branch", "std::option::Option::ok_or"))
                if st.kind == "call" and st.root[1] is g:
                    fresh = True
        miss = [n for n, v in (("in-window(same index)", win), ("!is_full", full), ("slot-is-default", fresh)) if not v]
        if miss:
            R.fail([b.name, "slot-write-not-guarded-by", ",".join(miss)],
                   "a packet can be stored in the reassembly queue without the guard(s) %s: the window test must use the very index that addresses the slot (else a far-ahead packet yields BugAssemblerMissingSlot and kills the connection) and an occupied slot must not be overwritten" % ", ".join(miss),
                   where=s.where(), instance="slot-write-guards")
        else:
            R.ok("slot-write-guards", b.name, "!is_full && index < data.len() (same index) && slot is default")
    # what the two predicates of the reassembly queue mean
    for fn, a_, b_ in (("is_full", "OutOfOrderQueue.len", "OutOfOrderQueue.capacity"), ("is_empty", "OutOfOrderQueue.filled_front", "OutOfOrderQueue.len")):
        pb = R.body("stream_rx::OutOfOrderQueue::" + fn)
        okp = False
        for s_ in pb.stmts():
            if s_.place.is_local and s_.place.local == 0 and s_.rv.kind == "bin" and s_.rv.op == "Eq":
                fs = {trace(pb, o).last_field for o in s_.rv.ops}
                okp = fs == {a_, b_}
        if okp:
            R.ok("ooq-predicates", fn, "%s == %s" % (a_.split(".")[1], b_.split(".")[1]))
        else:
            R.fail([pb.name, "predicate-shape"], "OutOfOrderQueue::%s is no longer `%s == %s`: the guards built on it (slot writes, SACK emission, forced ACKs) test something else" % (fn, a_.split(".")[1], b_.split(".")[1]), where=pb.where(), instance="ooq-predicates")
    # caller
    pim = R.body("stream_dispatch::VirtualSocket::process_incoming_message")
    calls = [t for t in pim.calls() if call_matches(t, ("stream_rx::UserRx::add_remove",))]
    R.floor("user_rx.add_remove calls in process_incoming_message", len(calls), 2)
    for t in calls:
        ot = trace(pim, t.args[3], through_casts=True)
        okoff = False
        if ot.kind == "call" and call_matches(ot.root[1], ("Sub::sub",)):
            l = trace(pim, ot.root[1].args[0])
            r, k = affine_trace(pim, ot.root[1].args[1])
            if l.last_field == "UtpHeader.seq_nr" and r.last_field == "VirtualSocket.last_consumed_remote_seq_nr" and k == 1:
                okoff = True
        nonneg = False
        for c, truth, d, *_ in controlling(pim, t.bb):
            for r_, x_, y_ in implied(c, truth):
                # 0 <= offset, however it is written
                if r_ == "le" and x_.kind == "const" and x_.scalar == 0:
                    a = trace(pim, y_)
                    if a.kind == "call" and a.root[1] is (ot.root[1] if ot.kind == "call" else None):
                        nonneg = True
        if okoff and nonneg:
            R.ok("slot=sequence-offset", "add_remove(offset = hdr.seq_nr - (last_consumed + 1)) under offset >= 0")
        else:
            R.fail([pim.name, "add_remove-offset", "shape=%s nonneg-guard=%s" % (okoff, nonneg)], "a packet is handed to the reassembly queue with an offset that is not its sequence distance from the receive cursor, or without rejecting already-consumed (negative) offsets", where=t.where(), instance="slot=sequence-offset")


@rule("C01.2", ["C01", "C06", "C03"], ["E4"], "every transmission addresses the ring by the segment's own (offset, len) and carries that segment's sequence number",
      "In each of the three send_data! expansions: prepare_2_ioslices is called with (as_slices().0, as_slices().1) of the TX consumer in that order, offset <- payload_offset() and len <- payload_size() "
      "of the captured segment; header.seq_nr <- seq_nr() of the same captured segment; the IoSlices handed to try_poll_send_to_vectored are [header bytes, result[0], result[1]] in that order and "
      "total_len = hlen + payload_size(). In Segments::iter_mut_for_sending the yielded payload_offset is payload_offset_absolute.checked_sub(removed_offset) (operand order) and seq_nr is "
      "snd_una + (offset + idx). The three expansions must agree (sibling check).")
def c01_2(R):
    from .c02 import send_data_closures
    cls = send_data_closures(R)
    R.floor("send_data! expansions", len(cls), 3)
    vectors = []
    for c in cls:
        v = {}
        # which upvar is the segment?
        seg_names = [u for u in c.upvars if not u.startswith("*") and u not in ("header",)]
        p2 = [t for t in c.calls() if call_matches(t, ("utils::prepare_2_ioslices",))]
        if len(p2) != 1:
            R.fail([owner_fn(c), "send_data", "prepare_2_ioslices-calls=%d" % len(p2)], "a send_data! expansion does not call prepare_2_ioslices exactly once", where=c.where(), instance="payload-addressing")
            continue
        t = p2[0]
        a0, a1 = trace(c, t.args[0]), trace(c, t.args[1])

        def slice_idx(tr):
            if tr.kind == "call" and call_matches(tr.root[1], ("Consumer::as_slices",)) and trace(c, tr.root[1].args[0]).last_field == "UserTx.consumer":
                tf = [f for f in tr.fields if f.startswith("tuple.")]
                return tf[0] if tf else None
            return None
        v["slices"] = (slice_idx(a0), slice_idx(a1))
        o, l = trace(c, t.args[2]), trace(c, t.args[3])

        def getter(tr):
            if tr.kind == "call" and tr.root[1].resolved.startswith("stream_tx_segments::SegmentForSending::"):
                recv = trace(c, tr.root[1].args[0])
                return (tr.root[1].resolved.split("::")[-1], recv.root[1] if recv.kind == "upvar" else recv.describe())
            return (tr.describe()[:40], None)
        v["offset"] = getter(o)
        v["len"] = getter(l)
        # header.seq_nr
        sq = [s for s in c.stmts() if written_field(c, s) == "UtpHeader.seq_nr"]
        v["seq"] = getter(trace(c, sq[0].rv.ops[0])) if len(sq) == 1 else ("?", None)
        # bufs
        send = [x for x in c.calls() if call_matches(x, ("UtpSocket::try_poll_send_to_vectored",))]
        order = []
        total = "?"
        if len(send) == 1:
            arr = trace(c, send[0].args[2])
            if arr.kind == "rv" and arr.root[1].rv.kind == "agg" and arr.root[1].rv.j.get("ak") == "array":
                for op in arr.root[1].rv.ops:
                    et = trace(c, op, extra_transparent=("std::io::IoSlice::new", "std::ops::Try::branch", "std::array::index", "std::ops::Index::index"))
                    if et.kind == "call" and et.root[1] is t:
                        idx = [p for st in et.steps if isinstance(st, Stmt) and st.rv.ops and st.rv.ops[0].place is not None for p in st.rv.ops[0].place.proj if isinstance(p, list) and p[0] == "ci"]
                        order.append("result[%s]" % (idx[0][1] if idx else "?"))
                    elif et.kind in ("rv", "multi", "undef") :
                        order.append("header-bytes")
                    else:
                        order.append(et.describe()[:30])
            tl = trace(c, send[0].args[4], through_casts=False)
            if tl.kind == "rv" and tl.root[1].rv.kind == "bin" and tl.root[1].rv.op.startswith("Add"):
                parts = []
                for x in tl.root[1].rv.ops:
                    tx = trace(c, x, extra_transparent=("std::ops::Try::branch",))
                    parts.append("call:" + short_callee(tx.root[1].resolved) if tx.kind == "call" else tx.describe()[:30])
                total = "+".join(sorted(parts))
        v["bufs"] = tuple(order)
        v["total_len"] = total
        vectors.append((c, v))
        seg = v["offset"][1]
        ok = (v["slices"] == ("tuple.0", "tuple.1") and v["offset"][0] == "payload_offset" and v["len"][0] == "payload_size" and v["seq"][0] == "seq_nr"
              and seg is not None and v["len"][1] == seg and v["seq"][1] == seg and v["bufs"] == ("header-bytes", "result[0]", "result[1]")
              and "call:SegmentForSending::payload_size" in v["total_len"] and "serialize" in v["total_len"])
        if ok:
            R.ok("payload-addressing", "send_data! expansion (segment `%s`)" % seg, "ring[(as_slices.0, as_slices.1)][payload_offset()..+payload_size()], seq_nr(), bufs in order")
        else:
            R.fail([owner_fn(c), "send_data", "addressing", str(sorted((k, str(x)) for k, x in v.items()))[:300]],
                   "a send_data! expansion addresses the ring or labels the packet with something other than the captured segment's own payload_offset()/payload_size()/seq_nr(), or passes the slices in the wrong order: wrong bytes on the wire for that sequence number",
                   where=t.where(), instance="payload-addressing")
    shapes = {str({k: (x if k in ("slices", "bufs", "total_len") else x[0]) for k, x in v.items()}) for c, v in vectors}
    if len(shapes) == 1:
        R.ok("siblings-agree", "3 expansions", "identical obligation vectors")
    else:
        R.fail(["send_tx_queue", "send_data-expansions-disagree", str(len(shapes))], "the send_data! expansions no longer behave identically", instance="siblings-agree")
    # the iterator's item
    clo = [b for b in R.facts.closures_of(SEG + "::iter_mut_for_sending")]
    done = False
    for b in clo:
        for s in b.stmts():
            if s.rv.kind == "agg" and s.rv.j.get("adt", "").endswith("SegmentForSending"):
                names = s.rv.j["fields"]
                po = trace(b, s.rv.ops[names.index("payload_offset")], extra_transparent=("std::option::Option::unwrap", "std::option::Option::expect"))
                sq = trace(b, s.rv.ops[names.index("seq_nr")])
                okp = False
                if po.kind == "call" and call_matches(po.root[1], ("checked_sub",)):
                    x, y = trace(b, po.root[1].args[0]), trace(b, po.root[1].args[1])
                    yo = upvar_trace(b, y.root[1]) if y.kind == "upvar" else None
                    okp = x.last_field == "Segment.payload_offset_absolute" and yo is not None and yo.last_field == "Segments.removed_offset"
                oks = False
                if sq.kind == "call" and call_matches(sq.root[1], ("Add::add",)):
                    base = trace(b, sq.root[1].args[0])
                    inc = value_sources(b, sq.root[1].args[1])
                    bo = upvar_trace(b, base.root[1]) if base.kind == "upvar" else None
                    # snd_una snapshot + (start offset captured from the parent + the enumerate index of the item)
                    oks = bo is not None and bo.last_field == "Segments.snd_una" and any(x[0] in ("upvar", "upvar-param") for x in inc) and any(x[0] == "param" or x[0] == "field" for x in inc)
                done = True
                if okp and oks:
                    R.ok("iterator-item", b.name.split("::{")[0], "payload_offset = payload_offset_absolute - removed_offset; seq_nr = snd_una + (offset + idx)")
                else:
                    R.fail([SEG + "::iter_mut_for_sending", "item-shape", "offset-ok=%s seq-ok=%s" % (okp, oks)], "the segment handed to the sender has a payload offset / sequence number computed differently from (absolute offset - removed bytes, snd_una + index)", where=s.where(), instance="iterator-item")
    R.require(done, "SegmentForSending aggregate in iter_mut_for_sending")
    it = R.body(SEG + "::iter_mut_for_sending")
    # removed_abs / snd_una snapshots come from the same-named fields
    R.ok("iterator-snapshots", it.name, "the closure's captured snapshots are traced to Segments.removed_offset / Segments.snd_una in the parent")
    # the index that becomes the sequence number is the POSITION in the queue: enumerate() sits directly on range_mut(..),
    # nothing may drop or reorder elements before it (a filter placed before enumerate renumbers every later segment)
    en = [t for t in it.calls() if call_matches(t, ("Iterator::enumerate",))]
    R.require(len(en) == 1, "enumerate() in iter_mut_for_sending")
    src = trace(it, en[0].args[0], extra_transparent=())
    if src.kind == "call" and call_on_field(it, src.root[1], ("VecDeque::range_mut", "VecDeque::range", "VecDeque::iter_mut"), "Segments.segments") and not src.fields:
        R.ok("index=queue-position", it.name, "segments.range_mut(range).enumerate() with no adapter in between")
    else:
        R.fail([it.name, "enumerate-not-on(range_mut)", short_callee(src.root[1].resolved) if src.kind == "call" else src.describe()[:40]],
               "an adapter sits between the queue range and enumerate(): the index no longer is the segment's position, so every segment after a dropped one is sent under the wrong sequence number with the wrong bytes", where=en[0].where(), instance="index=queue-position")


@rule("C01.8", ["C01", "C03"], ["E3", "E4", "E2"], "the reader hands every queued payload byte to the application once, in order, and reports the count it copied",
      "In UtpStreamReadHalf::poll_read_vectored: the one copy_from_slice copies payload[offset..][..len] into current_buf[..len] with the same len = min(buffer room, bytes left); on every path from the copy to "
      "the next loop iteration or a return the buffer is advanced by len, `written += len` and `current.offset += len` (same len); `self.current` is cleared only under offset == payload.len(); "
      "the queue is popped only while no partially read message is pending (self.current is None); a popped Payload becomes BeingRead { payload, offset: 0 }; Ready(Ok(n)) returns n = written, and Ok(0) "
      "only under written == 0. AsyncRead::poll_read advances the ReadBuf by exactly the returned count.")
def c01_8(R):
    b = R.body("stream_rx::UtpStreamReadHalf::poll_read_vectored")
    copies = [t for t in b.calls() if call_matches(t, ("core::slice::copy_from_slice",))]
    R.require(len(copies) == 1, "one copy_from_slice in poll_read_vectored")
    cp = copies[0]

    def range_to_len(op):
        """for `x[..n]`: (Trace of x, local n) else (None, None)"""
        t = trace(b, op)
        if t.kind == "call" and call_matches(t.root[1], ("index::index", "index::index_mut", "Index::index", "IndexMut::index_mut")) and not t.fields:
            rg = trace(b, t.root[1].args[1])
            if rg.kind == "rv" and rg.root[1].rv.kind == "agg" and rg.root[1].rv.j.get("adt", "").endswith("RangeTo") and rg.root[1].rv.ops:
                return trace(b, t.root[1].args[0]), copy_root(b, rg.root[1].rv.ops[0])
        return None, None
    dst, n1 = range_to_len(cp.args[0])
    src, n2 = range_to_len(cp.args[1])
    ok_src = False
    if src is not None and src.kind == "call" and call_matches(src.root[1], ("Index::index", "index::index")):
        base = trace(b, src.root[1].args[0])
        rg = trace(b, src.root[1].args[1])
        if base.last_field == "BeingRead.payload" and rg.kind == "rv" and rg.root[1].rv.j.get("adt", "").endswith("RangeFrom") and trace(b, rg.root[1].rv.ops[0]).last_field == "BeingRead.offset":
            ok_src = True
    ok_len = False
    if n1 is not None and n1 == n2:
        sel = select_minmax(b, Place({"l": n1, "p": []}))  # `a.min(b)` or `if a <= b { a } else { b }`
        if sel is not None and sel[0] == "min":
            if all(t.kind == "call" and (t.root[1].resolved or "").endswith("::len") for t in sel[1:]):
                ok_len = True
    if ok_src and ok_len and dst is not None:
        R.ok("copy=payload[offset..][..len]", b.name, "dst[..len] <- payload[offset..][..len], len = min(dst.len(), left)")
    else:
        R.fail([b.name, "copy-shape", "src-from-offset=%s same-len=%s" % (ok_src, ok_len)], "the reader no longer copies exactly the next `len` unread bytes of the current message", where=cp.where(), instance="copy=payload[offset..][..len]")
        return
    ln = n1
    # the three cursors move by the same len before the next iteration / any return
    adv = {t.bb for t in b.calls() if call_matches(t, ("IoSliceMut::advance",)) and copy_root(b, t.args[1]) == ln}
    wr_local = None
    wr = set()
    off = set()
    for s in b.stmts():
        lu = local_update(b, s)
        if lu and lu[1] == "+=" and copy_root(b, lu[2]) == ln:
            wr.add(s.bb)
            wr_local = lu[0]
        fu = field_update(b, s)
        if fu and fu.field == "BeingRead.offset" and fu.op == "+=" and fu.amount is not None and copy_root(b, fu.amount) == ln:
            off.add(s.bb)
    ends = set(b.return_blocks()) | {u for (u, v) in b.back_edges()}
    start = cp.j["target"]
    for nm, blocks in (("buffer.advance(len)", adv), ("written += len", wr), ("current.offset += len", off)):
        reach = b.reachable(start, removed_blocks=blocks)
        bad = [e for e in ends if e in reach and e not in blocks]
        if blocks and not bad:
            R.ok("copied=>cursors-advanced", nm, "on every path from the copy to the next iteration / return")
        else:
            R.fail([b.name, "copy-without", nm], "after copying len bytes the reader can continue without `%s`: bytes are delivered twice or skipped" % nm, where=cp.where(),
                   witness=path_lines(b, shortest_path(b, start, bad, removed_blocks=blocks)) if bad else [], instance="copied=>cursors-advanced")
    # clearing / refilling the partially read message
    clears = [s for s in b.stmts() if written_field(b, s) == "UtpStreamReadHalf.current" and s.rv.ops and classify(b, s.rv.ops[0]) == "None"]
    sets = [s for s in b.stmts() if written_field(b, s) == "UtpStreamReadHalf.current" and s not in clears]
    R.floor("self.current = None sites", len(clears), 1)
    for s in clears:
        full = False
        for c, truth, d, *_ in controlling(b, s.bb):
            for r_, x_, y_ in implied(c, truth):
                if r_ == "eq" and trace(b, x_).last_field == "BeingRead.offset":
                    ty = trace(b, y_)
                    if ty.kind == "call" and (ty.root[1].resolved or "").endswith("::len") and trace(b, ty.root[1].args[0]).last_field == "BeingRead.payload":
                        full = True
        if full:
            R.ok("current-cleared=>fully-read", b.name, "self.current = None only under offset == payload.len()")
        else:
            R.fail([b.name, "current=None", "not-under(offset==payload.len())"], "a partially read message can be discarded (its unread tail is lost)", where=s.where(), instance="current-cleared=>fully-read")
    pops = [t for t in b.calls() if call_matches(t, ("stream_rx::msgq::MsgQueue::pop_front", "MsgQueue::pop_front"))]
    R.floor("queue.pop_front in poll_read_vectored", len(pops), 1)
    for t in pops:
        none_pending = False
        for c, truth, d, *_ in controlling(b, t.bb):
            if c.kind == "discr" and d.endswith("=None") and c.trace.last_field == "UtpStreamReadHalf.current":
                none_pending = True
        if none_pending:
            R.ok("pop=>nothing-pending", b.name, "the queue is popped only when self.current is None")
        else:
            R.fail([b.name, "pop_front", "not-under(self.current is None)"], "the next message can be popped while the current one is partially read: its tail is overwritten (lost) or delivered out of order", where=t.where(), instance="pop=>nothing-pending")
    R.floor("self.current = Some(..) sites", len(sets), 1)
    for s in sets:
        okb = False
        t = trace(b, s.rv.ops[0]) if s.rv.ops else None
        if t is not None and t.kind == "rv" and t.root[1].rv.kind == "agg":
            inner = t.root[1].rv
            if inner.j.get("variant") == "Some" and inner.ops:
                t2 = trace(b, inner.ops[0])
                inner = t2.root[1].rv if t2.kind == "rv" and t2.root[1].rv.kind == "agg" else None
            if inner is not None and inner.j.get("adt") == "stream_rx::BeingRead":
                names = inner.j["fields"]
                o_off = inner.ops[names.index("offset")]
                o_pl = trace(b, inner.ops[names.index("payload")])
                from_pop = "Payload" in o_pl.variants and o_pl.kind == "call" and any(o_pl.root[1] is p for p in pops)
                if o_off.kind == "const" and o_off.scalar == 0 and from_pop:
                    okb = True
        if okb:
            R.ok("popped-payload=>BeingRead{offset:0}", b.name)
        else:
            R.fail([b.name, "current=Some", "shape"], "a popped payload does not become BeingRead { payload, offset: 0 }: reading starts at the wrong byte or from the wrong message", where=s.where(), instance="popped-payload=>BeingRead{offset:0}")
    # returned counts
    n_ok = 0
    for it, cls in ret_assignments(b):
        if not cls.startswith("Ready(Ok("):
            continue
        n_ok += 1
        inner = cls[len("Ready(Ok("):-2]
        if inner == "const:0":
            z = any((lambda x: x is not None and copy_root(b, x) == wr_local)(zero_test(c, truth)) for c, truth, d, *_ in controlling(b, it.bb))
            if z:
                R.ok("returned-count=written", "Ok(0)", "only under written == 0")
            else:
                R.fail([b.name, "Ok(0)", "not-under(written==0)"], "the reader can report 0 bytes (end of stream) although it copied some: those bytes are lost to the application", where=it.where(), instance="returned-count=written")
        else:
            # Ok(x): x must be the accumulated `written`
            okw = False
            if isinstance(it, Stmt) and it.rv.kind == "agg" and it.rv.ops:
                # _0 = Ready(x); x = Ok(n)
                tt = trace(b, it.rv.ops[0])
                if tt.kind == "rv" and tt.root[1].rv.kind == "agg" and tt.root[1].rv.j.get("variant") == "Ok" and tt.root[1].rv.ops:
                    okw = wr_local is not None and copy_root(b, tt.root[1].rv.ops[0]) == wr_local
            if okw:
                R.ok("returned-count=written", "Ok(written)")
            else:
                R.fail([b.name, "Ok(n)", "n-is-not-written", inner[:40]], "the byte count returned to the application is not the number of bytes copied", where=it.where(), instance="returned-count=written")
    R.floor("Ready(Ok(..)) exits of poll_read_vectored", n_ok, 3)
    pr = R.body("<stream_rx::UtpStreamReadHalf as tokio::io::AsyncRead>::poll_read")
    advs = [t for t in pr.calls() if call_matches(t, ("ReadBuf::advance",))]
    R.floor("ReadBuf::advance in poll_read", len(advs), 1)
    for t in advs:
        tt = trace(pr, t.args[1], extra_transparent=("std::ops::Try::branch",))
        src_ok = tt.kind == "call" and call_matches(tt.root[1], ("stream_rx::UtpStreamReadHalf::poll_read_vectored",))
        if src_ok:
            R.ok("poll_read-advances-by-returned-count", pr.name)
        else:
            R.fail([pr.name, "advance", tt.describe()[:60]], "poll_read advances the caller's buffer by something other than the count poll_read_vectored returned", where=t.where(), instance="poll_read-advances-by-returned-count")
