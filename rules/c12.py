"""C12 isolation and limit: routing by (src addr, header conn-id); inserts dominated by 'not full' and 'key absent'."""
from .common import *

D = "socket::Dispatcher"
STREAMS = "Dispatcher.streams"


def fn_bodies(F, fname):
    b = F.body(fname)
    return ([b] if b is not None else []) + F.closures_of(fname)


def key_tuple(body, op):
    """for a `&(a, b)` key operand: (desc of a, affine Trace of b, offset) or None"""
    t = trace(body, op)
    if t.kind == "rv" and t.root[1].rv.j.get("ak") == "tuple" and len(t.root[1].rv.ops) == 2 and not t.fields:
        a, b_ = t.root[1].rv.ops
        bt, k = affine_trace(body, b_)
        return trace(body, a), bt, k
    return None


@rule("C12.1", ["C12", "C10"], ["E4", "E1"], "a datagram is delivered only to the stream named by its (source address, connection id)",
      "The only UnboundedSender<UtpMessage>::send is in on_recv, on the sender returned by streams.get(&key) with key = (addr, message.header.connection_id), where addr and message are on_recv's "
      "parameters; run_once passes recv_from's address and the message parsed from that datagram; the stale-entry removal uses the same key; packets for unknown keys reach only on_maybe_connect_ack "
      "(ST_STATE) or on_syn (ST_SYN), everything else is dropped.")
def c12_1(R):
    F = R.facts
    n = 0
    for b in F.bodies():
        for t in b.calls():
            if call_matches(t, ("UnboundedSender::send",)) and "message::UtpMessage" in " ".join(t.j.get("targs", [])):
                n += 1
                fn = owner_fn(b)
                if fn != D + "::on_recv":
                    R.fail([fn, "send(UtpMessage)"], "a UtpMessage is pushed into a stream channel outside on_recv", where=t.where(), instance="route-by-key")
                    continue
                st = trace(b, t.args[0])
                okr = False
                detail = st.describe()
                if st.kind == "call" and call_on_field(b, st.root[1], ("HashMap::get",), STREAMS):
                    kt = key_tuple(b, st.root[1].args[1])
                    if kt:
                        a, bt, k = kt
                        detail = "key=(%s, %s%+d)" % (a.describe(), bt.describe(), k)
                        if is_fn_param(b, a, 2) and not a.fields and is_fn_param(b, bt, 3) and bt.fields[-2:] == ["UtpMessage.header", "UtpHeader.connection_id"] and k == 0:  # on_recv(self, addr, message)
                            okr = True
                    mt = trace(b, t.args[1])
                    if not (is_fn_param(b, mt, 3) and not mt.fields):
                        okr = False
                        detail += " msg=" + mt.describe()
                if okr:
                    R.ok("route-by-key", fn, "streams.get(&(addr, message.header.connection_id)).send(message)")
                else:
                    R.fail([fn, "send(UtpMessage)", detail], "the datagram is routed with a key other than (source address, header connection id), or a different message is delivered", where=t.where(), instance="route-by-key")
    R.floor("UtpMessage send sites", n, 1)
    # a stream whose task is gone (send failed) is dropped from the table with the same key it was looked up under
    nrem = 0
    for b in fn_bodies(F, D + "::on_recv"):
        for t in b.calls():
            if call_on_field(b, t, ("HashMap::remove",), STREAMS):
                nrem += 1
                kt = key_tuple(b, t.args[1])
                okk = False
                if kt:
                    a, bt, k = kt
                    okk = is_fn_param(b, a, 2) and is_fn_param(b, bt, 3) and bt.fields[-2:] == ["UtpMessage.header", "UtpHeader.connection_id"] and k == 0
                else:
                    # the same `key` local that was used for the lookup
                    gets = [x for x in b.calls() if call_on_field(b, x, ("HashMap::get",), STREAMS)]
                    okk = bool(gets) and trace(b, t.args[1]).key() == trace(b, gets[0].args[1]).key()
                err = any(d.endswith("=Err") or "is_err=true" in d for c, truth, d, *_ in controlling(b, t.bb))
                if okk and err:
                    R.ok("dead-stream=>entry-removed", D + "::on_recv", "streams.remove(&key) when the stream's channel is closed")
                else:
                    R.fail([D + "::on_recv", "stale-entry-removal", "same-key=%s on-send-error=%s" % (okk, err)], "on_recv removes a table entry other than the one whose delivery failed (or not on failure)", where=t.where(), instance="dead-stream=>entry-removed")
    if nrem == 0:
        R.fail([D + "::on_recv", "no-stale-entry-removal"], "a stream whose task has ended is never dropped from the table by on_recv: every later datagram for that key is swallowed and the slot stays occupied if the guard's Shutdown was lost", instance="dead-stream=>entry-removed")
    # run_once: on_recv(addr, message) with addr from recv_from and message from deserialize(&read_buf[..len])
    okc = False
    for b in fn_bodies(F, D + "::run_once"):
        for t in b.calls():
            if call_matches(t, (D + "::on_recv",)):
                at = trace(b, t.args[1])
                mt = trace(b, t.args[2], extra_transparent=("std::ops::Try::branch",))
                m_ok = ("Some" in mt.variants and mt.kind == "call" and call_matches(mt.root[1], ("message::UtpMessage::deserialize",))) or any(isinstance(s, Term) and s.kind == "call" and call_matches(s, ("message::UtpMessage::deserialize",)) for s in mt.steps)
                if not m_ok and mt.kind == "multi":
                    for d in mt.root[3]:
                        if isinstance(d, Stmt) and d.rv.ops:
                            t2 = trace(b, d.rv.ops[0])
                            if t2.kind == "call" and call_matches(t2.root[1], ("message::UtpMessage::deserialize",)):
                                m_ok = True
                a_ok = "tuple.1" in at.fields or "addr" in at.describe()
                if m_ok and a_ok:
                    okc = True
                    R.ok("recv=>on_recv(addr,msg)", D + "::run_once", "on_recv(addr of recv_from, deserialize(datagram))")
                else:
                    R.fail([D + "::run_once", "on_recv-args", at.describe(), mt.describe()], "on_recv is not called with recv_from's address and the message parsed from that datagram", where=t.where(), instance="recv=>on_recv(addr,msg)")
    if not okc:
        R.fail([D + "::run_once", "no-on_recv-call"], "run_once no longer hands received datagrams to on_recv", instance="recv=>on_recv(addr,msg)")
    # unknown keys
    seen = set()
    for b in fn_bodies(F, D + "::on_recv"):
        for t in b.calls():
            for callee, typ in ((D + "::on_maybe_connect_ack", "ST_STATE"), (D + "::on_syn", "ST_SYN")):
                if call_matches(t, (callee,)):
                    descs = [d for c, truth, d, *_ in controlling(b, t.bb)]
                    miss = any(d.startswith("discr:") and "HashMap" in d and d.endswith("=None") for d in descs) or any("HashMap::get" in d and d.endswith("=None") for d in descs)
                    ty = any(d.endswith("=" + typ) for d in descs)
                    a1, a2 = trace(b, t.args[1]), trace(b, t.args[2])
                    same = is_fn_param(b, a1, 2) and is_fn_param(b, a2, 3) and not a1.fields and not a2.fields
                    if miss and ty and same:
                        seen.add(typ)
                        R.ok("unknown-key-dispatch", "%s -> %s" % (typ, callee.split("::")[-1]), "only on lookup miss, with on_recv's own addr/message")
                    else:
                        R.fail([D + "::on_recv", "call", callee.split("::")[-1], "miss=%s type=%s same-args=%s" % (miss, ty, same)], "%s is reached other than by a %s packet for an unknown key with the received addr/message" % (callee.split("::")[-1], typ), where=t.where(), instance="unknown-key-dispatch")
    R.floor("unknown-key handlers", len(seen), 2)


@rule("C12.2", ["C12", "C08", "C13", "C04", "C10", "C01"], ["E2", "E6"], "every table insert is dominated by 'not full' and 'key absent'",
      "Both Dispatcher.streams.insert sites are control-dependent on streams_full() = false; match_syn_with_accept additionally on streams.contains_key(&recv_key) = false for the very key it inserts; "
      "on_maybe_connect_ack inserts (addr, msg.header.connection_id), the key whose lookup just missed in on_recv (C12.1). streams_full is `streams.len() >= max_active_streams.get()`; "
      "ConnectRequest is refused under streams_full() = true; get_next_free_conn_id advances while the candidate key is present.")
def c12_2(R):
    F = R.facts
    n = 0
    for b in F.bodies():
        for t in b.calls():
            if call_on_field(b, t, ("HashMap::insert",), STREAMS):
                n += 1
                fn = owner_fn(b)
                descs = [(c, truth, d) for c, truth, d, *_ in controlling(b, t.bb)]
                notfull = any(d == "call:Dispatcher::streams_full=false" for c, truth, d in descs)
                if not notfull:
                    R.fail([fn, "streams.insert-not-guarded-by(!streams_full)"], "a stream is inserted without checking the connection limit", where=t.where(), instance="insert=>not-full")
                else:
                    R.ok("insert=>not-full", fn)
                if fn == D + "::match_syn_with_accept":
                    kdesc = trace(b, t.args[1]).describe()
                    absent = False
                    for c, truth, d in descs:
                        if c.kind == "call" and call_on_field(b, c.call, ("HashMap::contains_key",), STREAMS) and not truth:
                            if trace(b, c.call.args[1]).key() == trace(b, t.args[1]).key():
                                absent = True
                    if absent:
                        R.ok("insert=>key-absent", fn, "contains_key(&recv_key) = false for the inserted key")
                    else:
                        R.fail([fn, "streams.insert-not-guarded-by(!contains_key(same key))"], "an incoming connection can overwrite (evict) a live stream with the same key", where=t.where(), instance="insert=>key-absent")
                elif fn == D + "::on_maybe_connect_ack":
                    kt = key_tuple(b, t.args[1])
                    okk = False
                    if kt:
                        a, bt, k = kt
                        okk = is_fn_param(b, a, 2) and is_fn_param(b, bt, 3) and bt.fields[-2:] == ["UtpMessage.header", "UtpHeader.connection_id"] and k == 0  # on_maybe_connect_ack(self, addr, msg)
                    if okk:
                        R.ok("insert=>key-absent", fn, "inserts (addr, msg.header.connection_id): the key that just missed in on_recv")
                    else:
                        R.fail([fn, "streams.insert-key-differs-from-looked-up-key"], "the SYN-ACK path inserts a key other than the one on_recv looked up", where=t.where(), instance="insert=>key-absent")
                else:
                    R.fail([fn, "streams.insert"], "unaudited insert into the stream table", where=t.where(), instance="insert=>key-absent")
    R.floor("streams.insert sites", n, 2)
    sf = R.body(D + "::streams_full")
    shape = None
    for s in sf.stmts():
        if s.place.local == 0 and s.rv.kind == "bin":
            a, c = trace(sf, s.rv.ops[0]), trace(sf, s.rv.ops[1])
            shape = (s.rv.op, a.kind == "call" and call_on_field(sf, a.root[1], ("HashMap::len",), STREAMS), c.last_field or c.describe())
    if shape and shape[0] == "Ge" and shape[1] and "max_active_streams" in shape[2]:
        R.ok("streams_full-shape", sf.name, "streams.len() >= max_active_streams")
    else:
        R.fail([sf.name, "shape", str(shape)], "streams_full is no longer `streams.len() >= max_active_streams` (off-by-one admits one connection too many)", where=sf.where(), instance="streams_full-shape")
    # connect request refused when full
    okr = False
    for b in fn_bodies(F, D + "::on_control"):
        for t in b.calls():
            if call_matches(t, (D + "::get_next_free_conn_id",)):
                descs = [d for c, truth, d, *_ in controlling(b, t.bb)]
                if "call:Dispatcher::streams_full=false" in descs:
                    okr = True
    if okr:
        R.ok("connect=>not-full", D + "::on_control", "ConnectRequest proceeds only when !streams_full()")
    else:
        R.fail([D + "::on_control", "connect-not-guarded-by(!streams_full)"], "a connect request proceeds although the connection limit is reached", instance="connect=>not-full")
    g = R.body(D + "::get_next_free_conn_id")
    okl = False
    for t in g.calls():
        if call_matches(t, ("AddAssign::add_assign",)) and trace(g, t.args[0]).last_field == "Dispatcher.next_connection_id" and t.args[1].scalar == 2:
            descs = [d for c, truth, d, *_ in controlling(g, t.bb)]
            if any("contains_key=true" in d for d in descs):
                okl = True
    rets = [cls for it, cls in ret_assignments(g)]
    if okl:
        R.ok("fresh-conn-id", g.name, "advances by 2 while (addr, id) is a live key")
    else:
        R.fail([g.name, "loop-shape"], "get_next_free_conn_id no longer skips ids whose key is live", where=g.where(), instance="fresh-conn-id")


def deep_fields(body, op, depth=0, seen=None):
    """every field read in the backward slice of a value, looking through calls (unwrap_or, try_into, map ...) and multi-definition locals"""
    seen = seen if seen is not None else set()
    out = set()
    if depth > 10 or op is None:
        return out
    if isinstance(op, Operand) and op.kind == "const":
        return out
    t = trace(body, op, through_casts=True)
    for f in t.fields:
        out.add(f)
    k = t.key()
    if k in seen:
        return out
    seen.add(k)
    if t.kind == "call":
        for a in t.root[1].args:
            out |= deep_fields(body, a, depth + 1, seen)
    elif t.kind == "rv":
        for a in t.root[1].rv.ops:
            out |= deep_fields(body, a, depth + 1, seen)
        if t.root[1].rv.place is not None:
            out |= deep_fields(body, t.root[1].rv.place, depth + 1, seen)
    elif t.kind == "multi":
        for d in t.root[3]:
            if isinstance(d, Stmt):
                for a in d.rv.ops:
                    out |= deep_fields(body, a, depth + 1, seen)
            elif isinstance(d, Term) and d.kind == "call":
                for a in d.args:
                    out |= deep_fields(body, a, depth + 1, seen)
    return out


@rule("C12.3", ["C12", "C19", "C18", "C08", "C17", "C06", "C03", "C14", "C15", "C04"], ["E4", "E7"], "the configuration the user gave is the configuration the code reads",
      "SocketOpts::validate builds ValidatedSocketOpts field by field from the option of the same meaning: nagle = !disable_nagle, wait_for_last_ack = !dont_wait_for_lastack, "
      "max_active_streams <- max_live_vsocks, max_segment_retransmissions <- max_retransmissions, vsock_tx_bufsize_bytes_{initial,max} <- the same-named options, remote_inactivity_timeout, "
      "mtu_probe_max_retransmissions, congestion, link_mtu <- link_mtu, vsock_rx_bufsize <- vsock_rx_bufsize_bytes; UtpSocket::opts hands out UtpSocket.opts.")
def c12_3(R):
    v = R.body("socket::SocketOpts::validate")
    want = {
        "nagle": ("SocketOpts.disable_nagle", True),
        "wait_for_last_ack": ("SocketOpts.dont_wait_for_lastack", True),
        "max_active_streams": ("SocketOpts.max_live_vsocks", False),
        "max_segment_retransmissions": ("SocketOpts.max_retransmissions", False),
        "vsock_tx_bufsize_bytes_initial": ("SocketOpts.vsock_tx_bufsize_bytes_initial", False),
        "vsock_tx_bufsize_bytes_max": ("SocketOpts.vsock_tx_bufsize_bytes_max", False),
        "remote_inactivity_timeout": ("SocketOpts.remote_inactivity_timeout", False),
        "mtu_probe_max_retransmissions": ("SocketOpts.mtu_probe_max_retransmissions", False),
        "congestion": ("SocketOpts.congestion", False),
        "link_mtu": ("SocketOpts.link_mtu", False),
        "vsock_rx_bufsize": ("SocketOpts.vsock_rx_bufsize_bytes", False),
    }
    seen = 0
    for s in v.stmts():
        if s.rv.kind == "agg" and s.rv.j.get("adt") == "socket::ValidatedSocketOpts":
            names = s.rv.j["fields"]
            for fld, (src, negated) in want.items():
                if fld not in names:
                    R.fail([v.name, "field-missing", fld], "ValidatedSocketOpts.%s is gone" % fld, where=s.where(), instance="config-wiring")
                    continue
                seen += 1
                op = s.rv.ops[names.index(fld)]
                vs = {x for x in deep_fields(v, op) if x.startswith("SocketOpts.")}
                t = trace(v, op, through_casts=False)
                is_not = t.kind == "rv" and t.root[1].rv.kind == "un" and t.root[1].rv.op == "Not"
                if vs == {src} and is_not == negated:
                    R.ok("config-wiring", fld, "<- %s%s" % ("!" if negated else "", src.split(".")[1]))
                else:
                    R.fail([v.name, "config-wiring", fld, "from=%s%s" % ("!" if is_not else "", ",".join(sorted(x.split(".")[1] for x in vs)) or "?")],
                           "ValidatedSocketOpts.%s is built from %s%s instead of %s%s: the option the user set does not reach the code it configures" % (fld, "!" if is_not else "", ",".join(sorted(x.split(".")[1] for x in vs)) or "nothing", "!" if negated else "", src.split(".")[1]),
                           where=s.where(), instance="config-wiring")
    R.floor("ValidatedSocketOpts fields wired", seen, 11)
    n = check_getters(R, ("socket::UtpSocket::opts",))
    R.floor("UtpSocket::opts accessor", n, 1)
