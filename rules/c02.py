"""C02 progress / no lost wake-up: the wake, registration and timer discipline."""
from .common import *
from utpsa.wake import check_wake, check_registered, WakeSummaries, variant_of_edge

POLL_WRITE = "<stream_tx::UtpStreamWriteHalf as tokio::io::AsyncWrite>::poll_write"
POLL_FLUSH = "<stream_tx::UtpStreamWriteHalf as tokio::io::AsyncWrite>::poll_flush"
POLL_SHUTDOWN = "<stream_tx::UtpStreamWriteHalf as tokio::io::AsyncWrite>::poll_shutdown"
POLL_READV = "stream_rx::UtpStreamReadHalf::poll_read_vectored"
VS = "stream_dispatch::VirtualSocket"

FLAG_WAKES = [
    # (flag written true, waker that must be taken+woken, who sleeps on it)
    ("UserTxLocked.writer_shutdown", "UserTxLocked.dispatcher_waker", "dispatcher must emit the FIN"),
    ("UserTxLocked.writer_dropped", "UserTxLocked.dispatcher_waker", "dispatcher must notice the writer is gone"),
    ("UserTxLocked.vsock_closed", "UserTxLocked.writer_waker", "blocked write/flush/shutdown must fail or finish"),
    ("UserRxSharedLocked.reader_dropped", "UserRxSharedLocked.dispatcher_waker", "dispatcher must notice the reader is gone"),
    ("UserRxSharedLocked.vsock_closed", "UserRxSharedLocked.reader_waker", "blocked read must return error/EOF"),
]


def not_error_exit(cls):
    return cls is None or not (cls == "Residual" or cls.startswith("Err") or cls.startswith("Ready(Err"))


@rule("C02.1", ["C02", "C19", "C08", "C17", "C03"], ["E3"], "every cross-task state change wakes its counterpart",
      "For each (event, waker field): on every path from the event to a (non-error) exit of the function, Option::take is called on the waker field and Waker::wake on its Some branch "
      "(a None result discharges: nobody waits). Events: writes of true to writer_shutdown / writer_dropped (-> UserTxLocked.dispatcher_waker), UserTxLocked.vsock_closed (-> writer_waker), "
      "reader_dropped (-> UserRxSharedLocked.dispatcher_waker), UserRxSharedLocked.vsock_closed (-> reader_waker); calls UserTx::truncate_front and UserTx::grow=Some (-> writer_waker); "
      "an element moved to the user queue in UserRx::flush and MsgQueue::push_back of an error (-> reader_waker); exits Ready(Ok(n)) of poll_write (-> dispatcher_waker) and Ready(Ok(n>0)) of "
      "poll_read_vectored (-> dispatcher_waker). Branches on zero-ness of local counters are evaluated (predicate bits).")
def c02_1(R):
    F = R.facts
    S = WakeSummaries(F)
    # ---- A: flag writes, scanned over every body of the crate
    for flag, waker, why in FLAG_WAKES:
        def ev(body, it, flag=flag):
            if written_field(body, it) != flag:
                return False
            fu = field_update(body, it)
            return fu is not None and fu.op == "=" and fu.amount is not None and fu.amount.kind == "const" and fu.amount.scalar == 1
        n = 0
        for b in F.bodies():
            if not any(ev(b, s) for s in b.stmts()):
                continue
            n += check_wake(R, b, "flag:%s->%s" % (flag, waker), waker, event=ev, summaries=S, what="write(%s=true)" % flag, exit_filter=None)
        R.floor("writers of %s" % flag, n, 1)

    # ---- B: call events in the dispatcher
    def ev_trunc(body, it):
        return isinstance(it, Term) and call_matches(it, ("stream_tx::UserTx::truncate_front",))
    n = 0
    for b in F.bodies():
        if any(ev_trunc(b, t) for t in b.calls()):
            n += check_wake(R, b, "truncate_front->writer_waker", "UserTxLocked.writer_waker", event=ev_trunc, summaries=S, what="call(UserTx::truncate_front)", exit_filter=not_error_exit)
    R.floor("callers of truncate_front", n, 1)

    def edge_grow(body, term, tgt, label):
        c, var = variant_of_edge(body, term, label)
        if c is None or var != "Some":
            return False
        t = c.trace
        return t.kind == "call" and not t.fields and call_matches(t.root[1], ("stream_tx::UserTx::grow",))
    n = 0
    for b in F.bodies():
        if any(call_matches(t, ("stream_tx::UserTx::grow",)) for t in b.calls()):
            n += check_wake(R, b, "grow=Some->writer_waker", "UserTxLocked.writer_waker", edge_event=edge_grow, summaries=S, what="UserTx::grow()=Some", exit_filter=not_error_exit)
    R.floor("callers of grow", n, 1)

    def ev_errpush(body, it):
        return isinstance(it, Term) and call_matches(it, ("MsgQueue::push_back",))
    n = 0
    for b in F.bodies():
        if b.self_adt == "stream_rx::msgq::MsgQueue":
            continue
        if any(ev_errpush(b, t) for t in b.calls()):
            n += check_wake(R, b, "error-enqueued->reader_waker", "UserRxSharedLocked.reader_waker", event=ev_errpush, summaries=S, what="call(MsgQueue::push_back)")
    R.floor("callers of MsgQueue::push_back", n, 1)

    def edge_flushed(body, term, tgt, label):
        c, var = variant_of_edge(body, term, label)
        if c is None or var != "Some":
            return False
        t = c.trace
        return t.kind == "call" and not t.fields and call_matches(t.root[1], ("OutOfOrderQueue::send_front_if_fits",))
    n = 0
    for b in F.bodies():
        if any(call_matches(t, ("OutOfOrderQueue::send_front_if_fits",)) for t in b.calls()):
            n += check_wake(R, b, "flushed-to-user-queue->reader_waker", "UserRxSharedLocked.reader_waker", edge_event=edge_flushed, summaries=S, what="send_front_if_fits()=Some", exit_filter=not_error_exit)
    R.floor("callers of send_front_if_fits", n, 1)

    # ---- C: must-pass-through on data-plane exits
    pw = R.body(POLL_WRITE)
    check_wake(R, pw, "poll_write:Ready(Ok)->dispatcher_waker", "UserTxLocked.dispatcher_waker", init_owed=True, summaries=S, what="bytes-pushed",
               exit_filter=lambda c: c is not None and c.startswith("Ready(Ok("))
    pr = R.body(POLL_READV)
    check_wake(R, pr, "poll_read:Ready(Ok(n>0))->dispatcher_waker", "UserRxSharedLocked.dispatcher_waker", init_owed=True, summaries=S, what="bytes-consumed",
               exit_filter=lambda c: c is not None and c.startswith("Ready(Ok(") and c != "Ready(Ok(const:0))")


@rule("C02.2", ["C02", "C19"], ["E3"], "no Poll::Pending without a registered waker (stream halves)",
      "In poll_write, poll_flush, poll_shutdown and poll_read_vectored every exit whose value is Poll::Pending is preceded on all paths by update_optional_waker(<own waker field>, cx) "
      "or cx.waker().wake_by_ref(); boolean / zero-ness guards on locals are evaluated.")
def c02_2(R):
    n = 0
    for name, own in ((POLL_WRITE, {"UserTxLocked.writer_waker"}), (POLL_FLUSH, {"UserTxLocked.writer_waker"}), (POLL_SHUTDOWN, {"UserTxLocked.writer_waker"}),
                      (POLL_READV, {"UserRxSharedLocked.reader_waker"})):
        b = R.body(name)
        n += check_registered(R, b, "pending-registered:" + name.split("::")[-1], own)
    R.floor("Pending exit states in the four poll fns", n, 5)
