"""C02 progress / no lost wake-up: the wake, registration and timer discipline."""
from .common import *
from utpsa.wake import check_wake, check_registered, WakeSummaries, variant_of_edge

POLL_WRITE = "<stream_tx::UtpStreamWriteHalf as tokio::io::AsyncWrite>::poll_write"
POLL_FLUSH = "<stream_tx::UtpStreamWriteHalf as tokio::io::AsyncWrite>::poll_flush"
POLL_SHUTDOWN = "<stream_tx::UtpStreamWriteHalf as tokio::io::AsyncWrite>::poll_shutdown"
POLL_READV = "stream_rx::UtpStreamReadHalf::poll_read_vectored"
VS = "stream_dispatch::VirtualSocket"

FLAG_WAKES = [
    # (flag written true, waker that must be taken+woken, who sleeps on it)
    ("UserTxLocked.writer_shutdown", "UserTxLocked.dispatcher_waker", "dispatcher must emit the FIN"),
    ("UserTxLocked.writer_dropped", "UserTxLocked.dispatcher_waker", "dispatcher must notice the writer is gone"),
    ("UserTxLocked.vsock_closed", "UserTxLocked.writer_waker", "blocked write/flush/shutdown must fail or finish"),
    ("UserRxSharedLocked.reader_dropped", "UserRxSharedLocked.dispatcher_waker", "dispatcher must notice the reader is gone"),
    ("UserRxSharedLocked.vsock_closed", "UserRxSharedLocked.reader_waker", "blocked read must return error/EOF"),
]


def not_error_exit(cls):
    return cls is None or not (cls == "Residual" or cls.startswith("Err") or cls.startswith("Ready(Err"))


@rule("C02.1", ["C02", "C19", "C08", "C17", "C03", "C07"], ["E3"], "every cross-task state change wakes its counterpart",
      "For each (event, waker field): on every path from the event to a (non-error) exit of the function, Option::take is called on the waker field and Waker::wake on its Some branch "
      "(a None result discharges: nobody waits). Events: writes of true to writer_shutdown / writer_dropped (-> UserTxLocked.dispatcher_waker), UserTxLocked.vsock_closed (-> writer_waker), "
      "reader_dropped (-> UserRxSharedLocked.dispatcher_waker), UserRxSharedLocked.vsock_closed (-> reader_waker); calls UserTx::truncate_front and UserTx::grow=Some (-> writer_waker); "
      "an element moved to the user queue in UserRx::flush and MsgQueue::push_back of an error (-> reader_waker); exits Ready(Ok(n)) of poll_write (-> dispatcher_waker) and Ready(Ok(n>0)) of "
      "poll_read_vectored (-> dispatcher_waker). Branches on zero-ness of local counters are evaluated (predicate bits).")
def c02_1(R):
    F = R.facts
    S = WakeSummaries(F)
    # ---- A: flag writes, scanned over every body of the crate
    for flag, waker, why in FLAG_WAKES:
        def ev(body, it, flag=flag):
            if written_field(body, it) != flag:
                return False
            fu = field_update(body, it)
            return fu is not None and fu.op == "=" and fu.amount is not None and fu.amount.kind == "const" and fu.amount.scalar == 1
        n = 0
        for b in F.bodies():
            if not any(ev(b, s) for s in b.stmts()):
                continue
            n += check_wake(R, b, "flag:%s->%s" % (flag, waker), waker, event=ev, summaries=S, what="write(%s=true)" % flag, exit_filter=None)
        R.floor("writers of %s" % flag, n, 1)

    # ---- B: call events in the dispatcher
    def ev_trunc(body, it):
        return isinstance(it, Term) and call_matches(it, ("stream_tx::UserTx::truncate_front",))
    n = 0
    for b in F.bodies():
        if any(ev_trunc(b, t) for t in b.calls()):
            n += check_wake(R, b, "truncate_front->writer_waker", "UserTxLocked.writer_waker", event=ev_trunc, summaries=S, what="call(UserTx::truncate_front)", exit_filter=not_error_exit)
    R.floor("callers of truncate_front", n, 1)

    def edge_grow(body, term, tgt, label):
        c, var = variant_of_edge(body, term, label)
        if c is None or var != "Some":
            return False
        t = c.trace
        return t.kind == "call" and not t.fields and call_matches(t.root[1], ("stream_tx::UserTx::grow",))
    n = 0
    for b in F.bodies():
        if any(call_matches(t, ("stream_tx::UserTx::grow",)) for t in b.calls()):
            n += check_wake(R, b, "grow=Some->writer_waker", "UserTxLocked.writer_waker", edge_event=edge_grow, summaries=S, what="UserTx::grow()=Some", exit_filter=not_error_exit)
    R.floor("callers of grow", n, 1)

    def ev_errpush(body, it):
        return isinstance(it, Term) and call_matches(it, ("MsgQueue::push_back",))
    n = 0
    for b in F.bodies():
        if b.self_adt == "stream_rx::msgq::MsgQueue":
            continue
        if any(ev_errpush(b, t) for t in b.calls()):
            n += check_wake(R, b, "error-enqueued->reader_waker", "UserRxSharedLocked.reader_waker", event=ev_errpush, summaries=S, what="call(MsgQueue::push_back)")
    R.floor("callers of MsgQueue::push_back", n, 1)

    def edge_flushed(body, term, tgt, label):
        c, var = variant_of_edge(body, term, label)
        if c is None or var != "Some":
            return False
        t = c.trace
        return t.kind == "call" and not t.fields and call_matches(t.root[1], ("OutOfOrderQueue::send_front_if_fits",))
    n = 0
    for b in F.bodies():
        if any(call_matches(t, ("OutOfOrderQueue::send_front_if_fits",)) for t in b.calls()):
            n += check_wake(R, b, "flushed-to-user-queue->reader_waker", "UserRxSharedLocked.reader_waker", edge_event=edge_flushed, summaries=S, what="send_front_if_fits()=Some", exit_filter=not_error_exit)
    R.floor("callers of send_front_if_fits", n, 1)

    # ---- C: must-pass-through on data-plane exits
    pw = R.body(POLL_WRITE)
    check_wake(R, pw, "poll_write:Ready(Ok)->dispatcher_waker", "UserTxLocked.dispatcher_waker", init_owed=True, summaries=S, what="bytes-pushed",
               exit_filter=lambda c: c is not None and c.startswith("Ready(Ok("))
    pr = R.body(POLL_READV)
    check_wake(R, pr, "poll_read:Ready(Ok(n>0))->dispatcher_waker", "UserRxSharedLocked.dispatcher_waker", init_owed=True, summaries=S, what="bytes-consumed",
               exit_filter=lambda c: c is not None and c.startswith("Ready(Ok(") and c != "Ready(Ok(const:0))")


@rule("C02.2", ["C02", "C19", "C03"], ["E3"], "no Poll::Pending without a registered waker (stream halves)",
      "In poll_write, poll_flush, poll_shutdown and poll_read_vectored every exit whose value is Poll::Pending is preceded on all paths by update_optional_waker(<own waker field>, cx) "
      "or cx.waker().wake_by_ref(); boolean / zero-ness guards on locals are evaluated.")
def c02_2(R):
    n = 0
    for name, own in ((POLL_WRITE, {"UserTxLocked.writer_waker"}), (POLL_FLUSH, {"UserTxLocked.writer_waker"}), (POLL_SHUTDOWN, {"UserTxLocked.writer_waker"}),
                      (POLL_READV, {"UserRxSharedLocked.reader_waker"})):
        b = R.body(name)
        n += check_registered(R, b, "pending-registered:" + name.split("::")[-1], own)
    R.floor("Pending exit states in the four poll fns", n, 5)
    # the registration primitive itself: whatever the slot held, it holds the CURRENT task's waker afterwards
    # (keeping an old waker when the future moved to another task is a lost wake-up)
    uw = R.body("utils::update_optional_waker")

    def from_cx_waker(op):
        t = trace(uw, op)
        return t.kind == "call" and call_matches(t.root[1], ("std::task::Context::waker", "Context::waker")) and trace(uw, t.root[1].args[0]).kind == "param" and trace(uw, t.root[1].args[0]).root[1] == 2
    stores = set()
    for t in uw.calls():
        if call_matches(t, ("Clone::clone_from",)) and len(t.args) == 2:
            dst = trace(uw, t.args[0])
            if dst.kind == "param" and dst.root[1] == 1 and from_cx_waker(t.args[1]):
                stores.add(t.bb)
        if call_matches(t, ("Option::replace", "Option::insert", "Option::get_or_insert")) and len(t.args) == 2:
            dst = trace(uw, t.args[0])
            if dst.kind == "param" and dst.root[1] == 1 and not dst.fields and from_cx_waker(t.args[1]):
                stores.add(t.bb)
    for s_ in uw.stmts():
        if s_.place.local == 1 and s_.place.proj == ["*"] and s_.rv.kind == "agg" and s_.rv.j.get("variant") == "Some" and s_.rv.ops and from_cx_waker(s_.rv.ops[0]):
            stores.add(s_.bb)
    ok, bad = must_pass_blocks(uw, uw.return_blocks(), stores)
    if stores and ok:
        R.ok("registration-stores-current-waker", uw.name, "every path stores cx.waker() into the slot (clone_from / replace)")
    else:
        R.fail([uw.name, "path-without-store(cx.waker())"], "update_optional_waker can return without storing the current task's waker: a slot that already holds a waker keeps the old one, and a future that was moved to another task is never woken", where=uw.where(),
               witness=path_lines(uw, shortest_path(uw, 0, uw.return_blocks(), removed_blocks=stores)), instance="registration-stores-current-waker")


# ------------------------------------------------------------------------------------------------
TIMERS = "stream_dispatch::Timers"


def timer_fields(F):
    adt = F.adt(TIMERS)
    if adt is None:
        return None
    return ["Timers." + f["name"] for f in adt["variants"][0]["fields"] if f["ty"].startswith("stream_dispatch::Timer<")]


def timer_calls(F, method, field):
    """call sites of Timer::<method> whose receiver is Timers.<field>"""
    out = []
    for b in F.bodies(lambda n: "stream_dispatch" in n):
        for t in b.calls():
            if call_matches(t, ("stream_dispatch::Timer::" + method,)) and t.args:
                tr = trace(b, t.args[0])
                if tr.last_field == field:
                    out.append((b, t))
    return out


@rule("C02.3", ["C02", "C07"], ["E1"], "every protocol timer feeds the re-poll deadline and is armed and checked somewhere",
      "Every field of Timers of type Timer<_> is read through Timer::poll_at inside next_timer_to_poll (directly or via take()); each has >= 1 arm/set site and >= 1 expired site "
      "(recovery_pipe_expiry is audited as re-poll-only: its expiry only needs to cause a poll).")
def c02_3(R):
    F = R.facts
    tf = timer_fields(F)
    R.require(tf is not None and len(tf) >= 5, "struct Timers with >= 5 Timer<_> fields")
    ntp = R.body(VS + "::next_timer_to_poll")
    polled = set()
    for t in ntp.calls():
        if call_matches(t, ("stream_dispatch::Timer::poll_at",)):
            tr = trace(ntp, t.args[0])
            if tr.last_field in tf:
                polled.add(tr.last_field)
            elif tr.kind == "call" and call_matches(tr.root[1], ("stream_dispatch::Timer::take",)):
                tr2 = trace(ntp, tr.root[1].args[0])
                if tr2.last_field in tf:
                    polled.add(tr2.last_field)
    # which of them are polled on the path that is taken when the transport is NOT pending (the common path)?
    for f in tf:
        if f in polled:
            R.ok("timer-polled:" + f, ntp.name, "poll_at() feeds next_timer_to_poll")
        else:
            R.fail([ntp.name, "timer-not-in-deadline", f], "timer %s is never read by next_timer_to_poll: its expiry cannot wake the connection task" % f, where=ntp.where(), instance="timer-polled:" + f)
        arms = timer_calls(F, "arm", f) + timer_calls(F, "set", f)
        exps = timer_calls(F, "expired", f)
        if not arms:
            R.fail(["timer-never-armed", f], "timer %s has no arm/set site" % f, instance="timer-armed:" + f)
        else:
            R.ok("timer-armed:" + f, ",".join(sorted({owner_fn(b).split("::")[-1] for b, _ in arms})), "%d arm/set sites" % len(arms))
        if f == "Timers.recovery_pipe_expiry":
            R.ok("timer-checked:" + f, "audited", "re-poll-only timer: expiry only has to trigger a poll (calc_pipe is recomputed on every ACK batch)")
        elif not exps:
            R.fail(["timer-never-checked", f], "timer %s has no expired() site" % f, instance="timer-checked:" + f)
        else:
            R.ok("timer-checked:" + f, ",".join(sorted({owner_fn(b).split("::")[-1] for b, _ in exps})), "%d expired() sites" % len(exps))
    # the min over all five is what is returned on the not-transport-pending path
    R.floor("timers polled in next_timer_to_poll", len(polled), 5)
    maxes = [t for t in ntp.calls() if any((t.resolved or "").endswith(x) or (t.callee or "").endswith(x) for x in ("Iterator::max", "Ord::max", "Iterator::max_by", "Iterator::max_by_key", "Iterator::last"))]
    mins = [t for t in ntp.calls() if any((t.callee or "").endswith(x) for x in ("Iterator::min", "Ord::min", "Iterator::min_by", "Iterator::min_by_key", "PartialOrd::lt", "PartialOrd::le", "PartialOrd::gt", "PartialOrd::ge"))]
    if mins and not maxes:
        R.ok("deadline=earliest", ntp.name, "the deadlines are combined by a minimum")
    else:
        R.fail([ntp.name, "deadline-not-the-earliest", short_callee(maxes[0].resolved) if maxes else "no-min"], "next_timer_to_poll does not return the earliest deadline: the task sleeps through the delayed-ACK / retransmission timers", where=(maxes[0].where() if maxes else ntp.where()), instance="deadline=earliest")
    # ... and that path is the one taken when the transport is writable
    wrong = []
    for t in ntp.calls():
        if call_matches(t, ("stream_dispatch::Timer::poll_at",)) and trace(ntp, t.args[0]).last_field in (tf - {"Timers.remote_inactivity_timer"} if isinstance(tf, set) else [x for x in tf if x != "Timers.remote_inactivity_timer"]):
            if any(d == "field:ThisPoll.transport_pending=true" for c, truth, d, *_ in controlling(ntp, t.bb)):
                wrong.append(t)
    if not wrong:
        R.ok("deadline-path", ntp.name, "all timers are consulted when the transport is not pending")
    else:
        R.fail([ntp.name, "timers-only-under(transport_pending)"], "the protocol timers are consulted only while the transport is blocked: in the normal case only the inactivity timer can wake the task", where=wrong[0].where(), instance="deadline-path")


def send_data_closures(R):
    F = R.facts
    out = []
    for b in F.closures_of(VS + "::send_tx_queue"):
        if any(call_matches(t, ("UtpSocket::try_poll_send_to_vectored",)) for t in b.calls()):
            out.append(b)
    return out


def must_call_before_exits(R, body, instance, is_call, exit_pred, what, key_extra=()):
    """E3 must-pass-through: every exit whose class satisfies exit_pred has passed a call matching is_call"""
    from utpsa.wake import ret_class_of

    def step(it, s):
        done, cls = s
        ch = False
        c = ret_class_of(body, it)
        if c is not None and c != cls:
            cls = c
            ch = True
        if not done and isinstance(it, Term) and it.kind == "call" and is_call(body, it):
            done = True
            ch = True
        return (done, cls) if ch else None

    res = typestate(body, [(False, None)], step)
    n = 0
    bad = None
    for bb, states in res.exits.items():
        for s in states:
            if exit_pred(s[1]):
                n += 1
                if not s[0] and bad is None:
                    bad = (bb, s)
    if n == 0:
        R.fail([owner_fn(body), "no-exit-of-class", what], "%s: no exit of the expected class found (anchor drift)" % body.name, where=body.where(), instance=instance)
        return 0
    if bad:
        R.fail([owner_fn(body)] + list(key_extra) + ["exit-without", what], "%s: an exit of the selected class is reachable without %s" % (body.name, what), where=body.where(),
               witness=res.witness_lines(*bad), instance=instance)
    else:
        R.ok(instance, body.name, "%s on all %d selected exit states" % (what, n))
    return n


@rule("C02.4", ["C02", "C06"], ["E3", "E1"], "(re)transmission arms the retransmission timer",
      "Each of the ST_DATA send closures (send_data! expansions) returns Ok(true) only after timers.retransmit.arm(..); maybe_send_fin returns Ok(true) only after arming it; "
      "the RTO path increments rto_retransmissions only after timers.retransmit.arm(.., restart = true); timers.retransmit.turn_off is called only at the three audited sites.")
def c02_4(R):
    F = R.facts

    def arm_rto(body, t):
        return call_matches(t, ("stream_dispatch::Timer::arm",)) and trace(body, t.args[0]).last_field == "Timers.retransmit"

    cl = send_data_closures(R)
    R.floor("send_data! expansions", len(cl), 3)
    for i, b in enumerate(cl):
        must_call_before_exits(R, b, "data-sent=>rto-armed", arm_rto, lambda c: c == "Ok(const:1)", "arm(Timers.retransmit)", key_extra=["send_data"])
    msf = R.body(VS + "::maybe_send_fin")
    must_call_before_exits(R, msf, "fin-sent=>rto-armed", arm_rto, lambda c: c == "Ok(const:1)", "arm(Timers.retransmit)")
    # RTO path: rto_retransmissions += 1 dominated by arm(restart=true)
    stq = R.body(VS + "::send_tx_queue")
    incs = [s for s in stq.stmts() if (lambda fu: fu and fu.field == "VirtualSocket.rto_retransmissions" and fu.op == "+=")(field_update(stq, s))]
    R.floor("rto_retransmissions += 1 sites", len(incs), 1)
    arm_blocks = [t.bb for t in stq.calls() if arm_rto(stq, t) and t.args[3].kind == "const" and t.args[3].scalar == 1]
    ok, bad = must_pass_blocks(stq, [s.bb for s in incs], set(arm_blocks))
    if ok and arm_blocks:
        R.ok("rto-send=>restart-arm", stq.name, "rto_retransmissions += 1 is dominated by retransmit.arm(restart=true)")
    else:
        R.fail([stq.name, "rto-retransmission-without-restart-arm"], "RTO retransmission is counted without re-arming the retransmit timer with restart=true (back-off would never take effect)", where=incs[0].where() if incs else stq.where(), instance="rto-send=>restart-arm")
    # FIN RTO path: the three on_rto calls are followed by arm(restart=true): checked in C06.5
    offs = timer_calls(F, "turn_off", "Timers.retransmit")
    allowed = {VS + "::send_tx_queue", VS + "::split_tx_queue_into_segments", VS + "::process_all_incoming_messages"}
    for b, t in offs:
        fn = owner_fn(b)
        if fn in allowed:
            R.ok("rto-turn_off-sites", fn, "audited turn_off site")
        else:
            R.fail([fn, "turn_off(Timers.retransmit)"], "retransmit timer turned off at an unaudited site", where=t.where(), instance="rto-turn_off-sites")
    R.floor("retransmit.turn_off sites", len(offs), 3)


@rule("C02.5", ["C02", "C08"], ["E3"], "the dispatcher registers on the reader channel before sleeping",
      "Every non-error exit of UserRx::flush (which dominates the final Pending of poll, C02.6) has passed update_optional_waker(UserRxSharedLocked.dispatcher_waker, cx): "
      "otherwise a reader that is dropped (or reads) while the dispatcher sleeps wakes nobody.")
def c02_5(R):
    b = R.body("stream_rx::UserRx::flush")

    def reg(body, t):
        return call_matches(t, ("utils::update_optional_waker",)) and trace(body, t.args[0]).last_field == "UserRxSharedLocked.dispatcher_waker"
    from utpsa.wake import ret_class_of

    def step(it, s):
        done, cls = s
        ch = False
        c = ret_class_of(b, it)
        if c is not None and c != cls:
            cls, ch = c, True
        if not done and isinstance(it, Term) and it.kind == "call" and reg(b, it):
            done, ch = True, True
        return (done, cls) if ch else None
    res = typestate(b, [(False, None)], step)
    bad = None
    n = 0
    for bb, states in res.exits.items():
        for s in states:
            if not_error_exit(s[1]):
                n += 1
                if not s[0] and bad is None:
                    bad = (bb, s)
    nreg = sum(1 for t in b.calls() if reg(b, t))
    R.floor("registration sites of UserRxSharedLocked.dispatcher_waker in flush", nreg, 1)
    if bad:
        R.fail([b.name, "exit-without-registering(UserRxSharedLocked.dispatcher_waker)"],
               "UserRx::flush can return without registering the dispatcher's waker on the reader channel (it registers only when the window is nearly closed): a reader dropped last on an idle connection wakes nobody",
               where=b.where(), witness=res.witness_lines(*bad), instance="flush-registers-dispatcher")
    else:
        R.ok("flush-registers-dispatcher", b.name, "registered on all %d non-error exits" % n)


STAGES = [
    ("maybe_send_syn_ack", ("VirtualSocket::maybe_send_syn_ack",)),
    ("process_all_incoming_messages", ("VirtualSocket::process_all_incoming_messages",)),
    ("user_rx.flush", ("stream_rx::UserRx::flush",)),
    ("inactivity-check", None),
    ("split_tx_queue_into_segments", ("VirtualSocket::split_tx_queue_into_segments",)),
    ("send_tx_queue", ("VirtualSocket::send_tx_queue",)),
    ("maybe_send_fin", ("VirtualSocket::maybe_send_fin",)),
    ("maybe_send_ack", ("VirtualSocket::maybe_send_ack",)),
]


def poll_final_pending(R, poll):
    """the Pending exit(s) that are not the transport-pending early returns: dominated by next_timer_to_poll"""
    ntp = [t.bb for t in poll.calls() if call_matches(t, ("VirtualSocket::next_timer_to_poll",))]
    R.require(len(ntp) >= 1, "call to next_timer_to_poll in poll")
    dom = poll.dominators()
    pend = [s for s in poll.stmts() if s.place.local == 0 and s.place.is_local and s.rv.kind == "agg" and s.rv.j.get("variant") == "Pending"]
    final = [s for s in pend if any(n in dom.get(s.bb, ()) for n in ntp)]
    return pend, final, ntp


@rule("C02.6", ["C02", "C07", "C03", "C10", "C17", "C08"], ["E2"], "the dispatcher never sleeps without having run every stage, in order",
      "The final Poll::Pending of VirtualSocket::poll is dominated by calls to maybe_send_syn_ack, process_all_incoming_messages, user_rx.flush, the remote-inactivity check, "
      "split_tx_queue_into_segments, send_tx_queue, maybe_send_fin and maybe_send_ack, each dominating the next; every other Pending exit is control-dependent on this_poll.transport_pending = true; "
      "after next_timer_to_poll() = Some the sleep is armed (Timers::arm_in) or the task self-wakes.")
def c02_6(R):
    poll = R.body(VS + "::poll")
    pend, final, ntp = poll_final_pending(R, poll)
    R.require(len(final) >= 1, "final Pending in poll")
    dom = poll.dominators()
    stage_bbs = []
    for name, callees in STAGES:
        if callees is None:
            bbs = [t.bb for t in poll.calls() if call_matches(t, ("stream_dispatch::Timer::expired",)) and trace(poll, t.args[0]).last_field == "Timers.remote_inactivity_timer"]
        else:
            bbs = [t.bb for t in poll.calls() if call_matches(t, callees)]
        stage_bbs.append((name, bbs))
    prev = None
    for name, bbs in stage_bbs:
        if not bbs:
            R.fail([poll.name, "stage-missing", name], "poll no longer calls stage %s" % name, where=poll.where(), instance="stage:" + name)
            continue
        okdom = all(any(b in dom.get(f.bb, ()) for b in bbs) for f in final)
        okorder = prev is None or any(any(p in dom.get(b, ()) for p in prev[1]) for b in bbs)
        if okdom and okorder:
            R.ok("stage:" + name, poll.name, "dominates the final Pending" + ("" if prev is None else " and is dominated by " + prev[0]))
        elif not okdom:
            path = shortest_path(poll, 0, [final[0].bb], removed_blocks=set(bbs))
            R.fail([poll.name, "stage-skippable", name], "the final Pending of poll is reachable without running stage %s" % name, where=final[0].where(), witness=path_lines(poll, path), instance="stage:" + name)
        else:
            R.fail([poll.name, "stage-order", prev[0] + "<" + name], "stage %s is no longer dominated by stage %s (stages reordered)" % (name, prev[0]), where=poll.where(), instance="stage:" + name)
        prev = (name, bbs)
    # register-then-check: the application-side flags that decide the local close (reader / writer dropped, writer shut down) are read AFTER the
    # stages in which the task registers its wakers with the two halves (user_rx.flush, split_tx_queue_into_segments) and after send_tx_queue.
    # A value sampled earlier in the iteration is stale by then: a drop that happens in between finds no waker yet and is not seen either.
    stq_bbs = dict(stage_bbs).get("send_tx_queue") or []
    flag_reads = [t for t in poll.calls() if call_matches(t, ("UserRx::is_reader_dropped", "UserTx::is_writer_dropped", "UserTx::is_writer_shutdown"))]
    if flag_reads and stq_bbs:
        early = [t for t in flag_reads if not any(b in dom.get(t.bb, ()) for b in stq_bbs)]
        if early:
            R.fail([poll.name, "app-flags-read-before(send_tx_queue)", short_callee(early[0].resolved)],
                   "poll samples %s before the stages that register its wakers and send: the decision to close is taken on a value from the start of the iteration - a stream dropped in between is "
                   "neither seen nor able to wake the task (no waker was registered yet), so the FIN waits for an unrelated event" % short_callee(early[0].resolved), where=early[0].where(), instance="register-then-check")
        else:
            R.ok("register-then-check", poll.name, "%d reads of the reader/writer done-flags, all after send_tx_queue" % len(flag_reads))
    else:
        R.fail([poll.name, "app-flags-not-read"], "poll no longer reads the reader/writer done-flags (or the send stage is gone)", where=poll.where(), instance="register-then-check")
    # every iteration starts from a clean slate: transport_pending := false (otherwise one would-block send silences the
    # connection for good) and now := env.now() (timers are compared against this value)
    first = stage_bbs[0][1] if stage_bbs and stage_bbs[0][1] else []
    for what, blocks in (("transport_pending = false", {s_.bb for s_ in poll.stmts() if written_field(poll, s_) == "ThisPoll.transport_pending" and s_.rv.kind == "use" and s_.rv.ops[0].kind == "const" and s_.rv.ops[0].scalar == 0}),
                         ("now = env.now()", {s_.bb for s_ in poll.stmts() if written_field(poll, s_) == "ThisPoll.now" and (lambda t_: t_.kind == "call" and (t_.root[1].resolved or "").endswith("::now"))(trace(poll, s_.rv.ops[0]))})):
        # on every path around the loop (back edge -> first stage) as well as from entry
        heads = {0} | {v for (u, v) in poll.back_edges()}
        bad = [h for h in heads if first and any(f in poll.reachable(h, removed_blocks=blocks) for f in first) and h not in blocks]
        if blocks and first and not bad:
            R.ok("iteration-reset", what, "on every path to the first stage of an iteration")
        else:
            R.fail([poll.name, "iteration-without", what], "a poll iteration can start without `%s`: %s" % (what, "after one would-block send nothing is ever sent again" if "pending" in what else "timers are compared with a stale clock"), where=poll.where(), instance="iteration-reset")
    # the other Pending exits: only under transport_pending = true
    tp_edges = set()
    for blk in poll.blocks:
        if blk.cleanup or blk.term.kind != "switch":
            continue
        c, neg = switch_cond(poll, blk.term)
        if c.kind == "field" and c.trace.last_field == "ThisPoll.transport_pending":
            be = bool_edges(poll, blk.idx)
            if be:
                tp_edges.add((blk.idx, be[0] if neg else be[1]))
    others = [s for s in pend if s not in final]
    for s in others:
        ok, bad = must_pass_edges(poll, [s.bb], tp_edges)
        if ok:
            R.ok("early-pending=>transport_pending", "%s line-of-stage %s" % (poll.name, poll.src_line(s.loc)[:50]), "guarded by this_poll.transport_pending = true (transport registered the waker)")
        else:
            path = shortest_path(poll, 0, [s.bb], removed_edges=tp_edges)
            R.fail([poll.name, "early-Pending-not-guarded-by-transport_pending"], "a Poll::Pending exit of poll is reachable without transport_pending being true and without arming the sleep", where=s.where(), witness=path_lines(poll, path), instance="early-pending=>transport_pending")
    R.floor("early Pending exits in poll", len(others), 5)
    # sleep arming
    from utpsa.wake import variant_of_edge

    def step(it, s):
        if isinstance(it, Term) and it.kind == "call":
            if call_matches(it, ("VirtualSocket::next_timer_to_poll",)):
                return "asked"
            if call_matches(it, ("stream_dispatch::Timers::arm_in",)) and s == "need-arm":
                return "armed?"
            if call_matches(it, ("Waker::wake_by_ref",)) and s in ("need-self-wake", "need-arm"):
                return "ok"
        return None

    def edge(term, tgt, label, s):
        if term.kind != "switch":
            return None
        if s == "asked":
            c, var = variant_of_edge(poll, term, label)
            if c is not None and c.trace.kind == "call" and call_matches(c.trace.root[1], ("VirtualSocket::next_timer_to_poll",)):
                if var == "Some":
                    return ["need-arm"]
                return ["ok-no-timer"]
        if s == "armed?":
            c, neg = switch_cond(poll, term)
            if c.kind == "call" and call_matches(c.call, ("stream_dispatch::Timers::arm_in",)):
                be = bool_edges(poll, term.bb)
                truthy = (tgt == be[1]) != neg
                return ["ok"] if truthy else ["need-self-wake"]
        return None
    res = typestate(poll, ["start"], step, edge, stop_blocks={f.bb for f in final})
    badst = set()
    for bb, states in res.exits.items():
        if bb in {f.bb for f in final}:
            for s in states:
                if s not in ("ok", "ok-no-timer"):
                    badst.add((bb, s))
    if badst:
        bb, s = sorted(badst)[0]
        R.fail([poll.name, "sleep-not-armed", s], "poll returns its final Pending after next_timer_to_poll()=Some without arming the sleep or self-waking (state %s)" % s, where=final[0].where(), witness=res.witness_lines(bb, s), instance="deadline=>sleep-armed")
    else:
        R.ok("deadline=>sleep-armed", poll.name, "next_timer_to_poll()=Some => arm_in()=true or wake_by_ref before the final Pending")


@rule("C02.8", ["C02", "C03"], ["E2"], "liveness timers are not switched off while accepted bytes remain",
      "A site that turns off timers.retransmit together with timers.remote_inactivity_timer must be control-dependent on 'the TX ring is empty' (this_poll.unsegmented_data / the ring's slices), "
      "not merely on 'no segments': with a zero peer window the ring holds accepted bytes while no segment exists.")
def c02_8(R):
    F = R.facts
    from utpsa.flow import controlling_edges, describe_cond
    sites = 0
    for b in F.bodies(lambda n: n.startswith(VS)):
        offs_r = [t for t in b.calls() if call_matches(t, ("stream_dispatch::Timer::turn_off",)) and trace(b, t.args[0]).last_field == "Timers.retransmit"]
        offs_i = [t for t in b.calls() if call_matches(t, ("stream_dispatch::Timer::turn_off",)) and trace(b, t.args[0]).last_field == "Timers.remote_inactivity_timer"]
        dom = b.dominators()
        for r in offs_r:
            both = [i for i in offs_i if r.bb in dom.get(i.bb, ()) or i.bb in dom.get(r.bb, ())]
            if not both:
                continue
            sites += 1
            conds = [describe_cond(b, t, lab) for t, tgt, lab in controlling_edges(b, r.bb)]
            ring = [c for c in conds if "ThisPoll.unsegmented_data" in c or "as_slices" in c or "Observer::is_empty" in c or "occupied_len" in c]
            seg = sorted(c for c in conds if "Segments::is_empty" in c or "our_fin_if_unacked" in c or "is_none" in c)
            if ring:
                R.ok("both-liveness-timers-off=>ring-empty", owner_fn(b), "guarded by " + ",".join(ring))
            else:
                R.fail([owner_fn(b), "turn_off(retransmit+remote_inactivity_timer)", "guards=" + ",".join(seg), "missing=tx-ring-empty"],
                       "both liveness timers are switched off under {%s} without checking that the TX ring is empty: with peer window 0 and a lost window update every timer is idle and the connection is silent forever" % ", ".join(seg),
                       where=r.where(), instance="both-liveness-timers-off=>ring-empty")
    R.floor("sites turning off both liveness timers", sites, 1)


def tx_len_zero_edges(sp):
    """[(test block, target taken when the TX ring is empty)] in split_tx_queue_into_segments: the tests of `first.len() + second.len() == 0`"""
    out = []
    for blk in sp.blocks:
        if blk.cleanup or blk.term.kind != "switch" or blk.idx not in sp.live_blocks():
            continue
        c, neg = switch_cond(sp, blk.term)
        for operand_truth in (True, False):
            xz = zero_test(c, operand_truth)
            if xz is None:
                continue
            ta = trace(sp, xz, through_casts=False)
            from_slices = False
            if ta.kind == "rv" and ta.root[1].rv.kind == "bin" and ta.root[1].rv.op.startswith("Add"):
                from_slices = all((lambda t: t.kind == "call" and (t.root[1].resolved or "").endswith("slice::len"))(trace(sp, o)) for o in ta.root[1].rv.ops)
            if from_slices:
                be = bool_edges(sp, blk.idx)
                edge_truth_ = operand_truth != neg
                out.append((blk.idx, be[1] if edge_truth_ else be[0]))
    return out


@rule("C02.9", ["C02", "C19"], ["E3"], "the dispatcher registers with the writer before it goes idle on an empty TX ring",
      "In split_tx_queue_into_segments every return taken under tx_len == 0 (nothing buffered) is preceded by update_optional_waker(UserTxLocked.dispatcher_waker, cx), under the same "
      "UserTx.locked write guard that the length was read under: poll_write's wake (C02.1) only reaches a dispatcher that registered here - the mechanism behind 'a write on an idle "
      "connection is transmitted at once'.")
def c02_9(R):
    sp = R.body(VS + "::split_tx_queue_into_segments")
    regs = {t.bb for t in sp.calls() if call_matches(t, ("utils::update_optional_waker",)) and trace(sp, t.args[0]).last_field == "UserTxLocked.dispatcher_waker"}
    R.floor("registration of UserTxLocked.dispatcher_waker in split_tx_queue_into_segments", len(regs), 1)
    zero_targets = [tgt for blk_, tgt in tx_len_zero_edges(sp)]
    R.require(len(zero_targets) >= 1, "test of tx_len == 0 in split_tx_queue_into_segments")
    rets = sp.return_blocks()
    bad = False
    for zt_ in zero_targets:
        # returns reachable from the zero edge before any segmentation work: they must pass the registration
        ok, _ = must_pass_blocks(sp, rets, regs, start=zt_)
        if not ok:
            bad = True
            path = shortest_path(sp, zt_, rets, removed_blocks=regs)
            R.fail([sp.name, "idle-return-without-registering(UserTxLocked.dispatcher_waker)"],
                   "with an empty TX ring the dispatcher can return from segmentation without registering its waker with the writer: the next write wakes nobody and sits in the ring until an unrelated poll",
                   where=sp.blocks[zt_].term.where(), witness=path_lines(sp, path), instance="idle=>registered-with-writer")
    if not bad:
        R.ok("idle=>registered-with-writer", sp.name, "tx_len == 0 => update_optional_waker(dispatcher_waker) before returning")
    # the length is read and the waker registered under the same write guard (no window for a lost wake)
    locks = [t for t in sp.calls() if call_matches(t, ("RwLock::write",)) and trace(sp, t.args[0]).last_field == "UserTx.locked"]
    if locks and all(any(l.bb in sp.dominators().get(r, ()) for l in locks) for r in regs):
        R.ok("registered-under-lock", sp.name, "registration dominated by user_tx.locked.write()")
    else:
        R.fail([sp.name, "registration-not-under(UserTx.locked.write)"], "the dispatcher waker is registered without holding the lock the writer takes: a write can slip between the emptiness test and the registration", where=sp.where(), instance="registered-under-lock")


@rule("C02.7", ["C02", "C19"], ["E3"], "the lock-order relation is acyclic and no lock is re-acquired while held",
      "Over every body of the crate: locks are identified by their field (UserTx.locked / .producer / .consumer, UserRxShared.locked); the guard is live from the lock()/read()/write() call to the "
      "Drop of the local holding it (moves followed) or mem::drop; a call made while a guard is live contributes every lock its callee (or a closure passed to it) may acquire. The resulting "
      "held-while-acquiring relation must be irreflexive (parking_lot locks are not re-entrant) and acyclic: a cycle is a writer-vs-dispatcher deadlock no single-task test can show.")
def c02_7(R):
    from utpsa.locks import LockGraph
    F = R.facts
    G = LockGraph(F)
    for b in F.bodies():
        if any(lc for lc in (lock_like(b, it) for it in b.items()) if lc):
            G.analyse(b)
    R.floor("lock acquisition sites", G.nlock_sites, 15)
    R.floor("held-while-acquiring edges", len(G.edges), 3)
    cyc = G.cycles()
    for c in cyc:
        sites = ["%s -> %s at %s (%s)" % (a, b_, G.edges[(a, b_)][1], G.edges[(a, b_)][0].split("::")[-1]) for a, b_ in zip(c, c[1:]) if (a, b_) in G.edges]
        R.fail(["lock-order-cycle", "->".join(c)], "locks can be acquired in a cyclic order (%s): two tasks taking them from different ends deadlock" % " -> ".join(c), where=G.edges[(c[0], c[1])][1] if (c[0], c[1]) in G.edges else None, witness=sites, instance="lock-order-acyclic")
    if not cyc:
        R.ok("lock-order-acyclic", "crate", "edges: " + ", ".join("%s->%s" % e for e in sorted(G.edges)))
    for (a, b_), (fn, where) in sorted(G.edges.items()):
        R.ok("lock-edge", "%s -> %s" % (a, b_), "%s at %s" % (fn.split("::")[-1], where), verdict="recorded")


def lock_like(b, it):
    from utpsa.locks import lock_call
    return lock_call(b, it)


@rule("C02.10", ["C02", "C07", "C06", "C08"], ["E7", "E4"], "the timer primitive does what its callers assume",
      "Timer::arm stores Armed { now + delay } when idle or when restart is requested, and Armed { min(old deadline, now + delay) } otherwise (a non-restarting arm never postpones); turn_off and take "
      "leave the timer Idle (take hands back the old value); set stores Armed { the given instant }; poll_at is None when idle and Some(expires_at) when armed; expired is expires_at <= now (C07.4); "
      "restart_remote_inactivity_timer arms the inactivity timer from this_poll.now with socket_opts.remote_inactivity_timeout and restart = true.")
def c02_10(R):
    T = "stream_dispatch::Timer"
    arm = R.body(T + "::arm")

    def is_sum(t):
        return t.kind == "call" and "Add" in (t.root[1].callee_full or t.root[1].resolved or "") and len(t.root[1].args) == 2 and (lambda a, b: a.kind == "param" and a.root[1] == 2 and b.kind == "param" and b.root[1] == 3)(trace(arm, t.root[1].args[0]), trace(arm, t.root[1].args[1]))
    n = 0
    for s in arm.stmts():
        if s.rv.kind == "agg" and s.rv.j.get("variant") == "Armed" and s.rv.ops:
            n += 1
            descs = [d for c, truth, d, *_ in controlling(arm, s.bb)]
            restart_false = any(d in ("var:param#4=false",) or (d.startswith("var:") and "param#4" in d and d.endswith("=false")) for d in descs)
            x = trace(arm, s.rv.ops[0])
            if restart_false:
                sel = select_minmax(arm, s.rv.ops[0])
                ok = sel is not None and sel[0] == "min" and any(a.last_field == "Timer::Armed.expires_at" and is_sum(b_) for a, b_ in ((sel[1], sel[2]), (sel[2], sel[1])))
                what = "armed && !restart => min(old, now + delay)"
            else:
                ok = is_sum(x)
                what = "idle or restart => now + delay"
            if ok:
                R.ok("timer-arm", what)
            else:
                R.fail([arm.name, "deadline", "restart=false" if restart_false else "idle-or-restart", x.describe()[:50]], "Timer::arm no longer stores %s" % what.split("=> ")[1] + (": a non-restarting arm can postpone an already pending deadline (delayed ACK / retransmission fire late)" if restart_false else ""), where=s.where(), instance="timer-arm")
    R.floor("Armed { .. } stores in Timer::arm", n, 2)  # the idle and the restart arm may be merged
    for fn in ("turn_off", "take"):
        b = R.body(T + "::" + fn)
        idle = [s for s in b.stmts() if s.place.proj == ["*"] and s.place.local == 1 and s.rv.ops and classify(b, s.rv.ops[0]).endswith("Idle")]
        if idle and all(must_pass_blocks(b, b.return_blocks(), {s.bb for s in idle})[0] for _ in (0,)):
            R.ok("timer-" + fn, b.name, "*self = Idle on every path")
        else:
            R.fail([b.name, "does-not-idle"], "Timer::%s can return with the timer still armed" % fn, where=b.where(), instance="timer-" + fn)
    st = R.body(T + "::set")
    def armed_with_param(s):
        if s.place.proj != ["*"] or not s.rv.ops:
            return False
        t = trace(st, s.rv.ops[0])
        return t.kind == "rv" and t.root[1].rv.kind == "agg" and t.root[1].rv.j.get("variant") == "Armed" and (lambda x: x.kind == "param" and x.root[1] == 2)(trace(st, t.root[1].rv.ops[0]))
    oks = any(armed_with_param(s) for s in st.stmts())
    if oks:
        R.ok("timer-set", st.name, "*self = Armed { expires_at }")
    else:
        R.fail([st.name, "shape"], "Timer::set no longer stores the given instant", where=st.where(), instance="timer-set")
    pa = R.body(T + "::poll_at")
    cls = sorted(set(c for it, c in ret_assignments(pa)))
    some_ok = any(s.rv.kind == "agg" and s.rv.j.get("variant") == "Some" and trace(pa, s.rv.ops[0]).last_field == "Timer::Armed.expires_at" for s in pa.stmts())
    if "None" in cls and some_ok:
        R.ok("timer-poll_at", pa.name, "Idle => None, Armed => Some(expires_at)")
    else:
        R.fail([pa.name, "shape", ",".join(cls)], "Timer::poll_at no longer reports the armed deadline", where=pa.where(), instance="timer-poll_at")
    ri = R.body(VS + "::restart_remote_inactivity_timer")
    arms = [t for t in ri.calls() if call_matches(t, (T + "::arm",))]
    okr = len(arms) == 1 and trace(ri, arms[0].args[0]).last_field == "Timers.remote_inactivity_timer" and trace(ri, arms[0].args[1]).last_field == "ThisPoll.now" \
        and trace(ri, arms[0].args[2]).last_field == "ValidatedSocketOpts.remote_inactivity_timeout" and arms[0].args[3].kind == "const" and arms[0].args[3].scalar == 1
    if okr:
        R.ok("restart-inactivity", ri.name, "arm(now, remote_inactivity_timeout, restart = true)")
    else:
        R.fail([ri.name, "shape"], "restart_remote_inactivity_timer no longer re-arms the inactivity timer from now with the configured timeout and restart = true", where=ri.where(), instance="restart-inactivity")


def _ok_value_of_send(b, op, depth=0):
    """the operand is the Ok value of UtpSocket::try_poll_send_to(_vectored), reached only through `?` / map_err / plain match on the Result"""
    if depth > 8:
        return None
    t = trace(b, op)
    if t.kind != "call":
        return None
    c = t.root[1]
    r = c.resolved or c.callee or ""
    if r.split("<")[0].endswith(("UtpSocket::try_poll_send_to", "UtpSocket::try_poll_send_to_vectored")) or r.endswith(("::try_poll_send_to", "::try_poll_send_to_vectored")):
        return c if [f for f in t.fields if not f.startswith(("ControlFlow::Continue.", "Result::Ok."))] == [] else None
    if r.endswith(("Try>::branch", "Try::branch")):
        if [f for f in t.fields if not f.startswith("ControlFlow::Continue.")]:
            return None
        return _ok_value_of_send(b, c.args[0], depth + 1)
    if call_matches(c, ("Result::map_err",)):
        return _ok_value_of_send(b, c.args[0], depth + 1)
    return None


@rule("C02.11", ["C02", "C08", "C03"], ["E4", "E6"], "'the transport is blocked' is only ever concluded from the transport's own Pending",
      "poll returns Pending early - before any timer is armed (C02.6) - whenever this_poll.transport_pending is true, on the strength of the transport having taken the task's waker. That is true only "
      "if (a) every non-constant store to the flag is the Ok value of UtpSocket::try_poll_send_to / try_poll_send_to_vectored, reached through `?`/map_err alone, the only constant ever stored is "
      "false, and (b) those two functions return Ok(true) only in the Poll::Pending arm of Transport::poll_send_to(_vectored). A send *error* turned into 'pending' (an ENOBUFS treated as a full "
      "socket) parks the task with no waker and no timer: it never ends and never frees its slot.")
def c02_11(R):
    F = R.facts
    n = 0
    for b in F.bodies(lambda nm: nm.startswith("stream_dispatch::")):
        for s in b.stmts():
            if written_field(b, s) != "ThisPoll.transport_pending":
                continue
            n += 1
            o = s.rv.ops[0] if s.rv.ops else None
            if o is not None and o.kind == "const":
                if o.scalar in (0, False):
                    R.ok("transport_pending<-transport", b.name, "reset to false")
                else:
                    R.fail([b.name, "transport_pending=const-true"], "this_poll.transport_pending is set to true unconditionally: no transport call registered the waker", where=s.where(), instance="transport_pending<-transport")
                continue
            c = _ok_value_of_send(b, o) if o is not None and s.rv.kind == "use" else None
            if c is not None:
                R.ok("transport_pending<-transport", b.name, "Ok value of %s via `?`" % short_callee(c.resolved or c.callee))
            else:
                R.fail([b.name, "transport_pending<-not-the-send-result", trace(b, o).describe() if o is not None else s.rv.kind],
                       "this_poll.transport_pending is not simply the Ok value of try_poll_send_to*: some other outcome (an error arm, a default) can set it, and poll then sleeps with neither the transport's "
                       "wake-up nor a timer", where=s.where(), instance="transport_pending<-transport")
    R.floor("stores to this_poll.transport_pending", n, 5)
    for fn, pollfn in (("socket::UtpSocket::try_poll_send_to", "poll_send_to"), ("socket::UtpSocket::try_poll_send_to_vectored", "poll_send_to_vectored")):
        b = R.body(fn)
        trues = [d for d in b.all_defs(0) if isinstance(d, Stmt) and d.rv.kind == "agg" and d.rv.j.get("variant") == "Ok" and not (d.rv.ops and d.rv.ops[0].kind == "const" and d.rv.ops[0].scalar in (0, False))]
        R.floor("Ok(<not false>) exits of " + fn, len(trues), 1)
        for d in trues:
            ds = [x for _c, _t, x, *_ in controlling(b, d.bb)]
            if any(x.startswith("discr:call:") and x.endswith("::%s=Pending" % pollfn) for x in ds):
                R.ok("Ok(true)=>Pending", fn, "only in the Poll::Pending arm of %s" % pollfn)
            else:
                R.fail([fn, "Ok(true)-not-under(Poll::Pending)"] + sorted(ds)[:3], "%s reports 'pending' for an outcome that is not the transport's Poll::Pending: the waker was not registered" % fn, where=d.where(), instance="Ok(true)=>Pending")


@rule("C02.12", ["C02", "C07", "C06", "C03"], ["E1", "E4"], "protocol timers are consulted in place; only the re-poll-only timer is consumed",
      "Timer::take empties the slot it reads. The only audited use is next_timer_to_poll on timers.recovery_pipe_expiry (a timer whose expiry merely has to cause one more poll). Every "
      "Timer::expired / Timer::poll_at on the other timers reads the Timers field itself: an `ack_delay_timer.take().expired(now)` disarms an armed, unexpired timer on every poll, so "
      "the deadline slides with each arriving packet (the 40 ms / RTO / inactivity bounds stop being bounds).")
def c02_12(R):
    F = R.facts
    tf = timer_fields(F)
    R.require(tf is not None and len(tf) >= 5, "struct Timers with >= 5 Timer<_> fields")
    n = 0
    for b in F.bodies(lambda nm: nm.startswith("stream_dispatch::")):
        for t in b.calls():
            if not t.args:
                continue
            if call_matches(t, ("stream_dispatch::Timer::take",)):
                n += 1
                f = trace(b, t.args[0]).last_field
                if owner_fn(b).endswith("::next_timer_to_poll") and f == "Timers.recovery_pipe_expiry":
                    R.ok("timer-consumed-only-as-audited", owner_fn(b), "take() on the re-poll-only timer")
                else:
                    R.fail([owner_fn(b), "Timer::take", str(f)], "%s consumes timer %s with take(): an armed timer that has not expired is disarmed by merely looking at it" % (owner_fn(b).split("::")[-1], f),
                           where=t.where(), instance="timer-consumed-only-as-audited")
            elif call_matches(t, ("stream_dispatch::Timer::expired",)):
                src = trace(b, t.args[0])
                if src.last_field in tf and src.kind != "call":
                    R.ok("timer-read-in-place", owner_fn(b), "%s.expired()" % src.last_field)
                else:
                    R.fail([owner_fn(b), "Timer::expired-on-a-copy", src.describe()], "%s asks a detached copy of a timer whether it expired (%s): the stored timer is not the one being tested"
                           % (owner_fn(b).split("::")[-1], src.describe()), where=t.where(), instance="timer-read-in-place")
    R.floor("Timer::take sites", n, 1)


def _guards_in(body, op, seen=None, depth=0):
    """lock guards an operand's value was read through (the provenance walk looks through lock()/write()/read(): collect those steps' destinations);
    follows arithmetic, call arguments and every definition of a re-assigned local (a window sampled once and then decremented in a loop)"""
    out = set()
    if seen is None:
        seen = set()
    if op is None or getattr(op, "kind", None) == "const" or depth > 8:
        return out
    t = trace(body, op)
    for st in t.steps:
        if isinstance(st, Term) and st.kind == "call" and st.dest is not None and st.dest.is_local and "Guard" in (body.local_ty(st.dest.local) or ""):
            out.add(st.dest.local)
    if t.kind == "rv" and isinstance(t.root[1], Stmt) and t.root[1].rv.kind == "bin":
        for o in t.root[1].rv.ops:
            out |= _guards_in(body, o, seen, depth + 1)
    elif t.kind == "call" and not out:
        for a in t.root[1].args[:2]:
            out |= _guards_in(body, a, seen, depth + 1)
    elif t.kind == "multi":
        key = t.root[1]
        if key not in seen:
            seen.add(key)
            for d in t.root[3]:
                if isinstance(d, Stmt):
                    for o in d.rv.ops:
                        out |= _guards_in(body, o, seen, depth + 1)
                    if d.rv.kind == "ref" and d.rv.place is not None:
                        out |= _guards_in(body, d.rv.place, seen, depth + 1)
                elif isinstance(d, Term) and d.kind == "call":
                    if d.dest is not None and d.dest.is_local and "Guard" in (body.local_ty(d.dest.local) or ""):
                        out.add(d.dest.local)
                    for a in d.args[:2]:
                        out |= _guards_in(body, a, seen, depth + 1)
    return out


@rule("C02.13", ["C02", "C07", "C19", "C03"], ["E2", "E4"], "a task decides to wait and registers its waker inside one critical section",
      "Every update_optional_waker(&mut guard.field, cx) stores the waker through a lock guard. The shared state that made the task decide to wait - each condition controlling that call - must "
      "have been read through the same guard (or be task-local). If it was sampled in an earlier critical section (a guard that is gone by the time the waker is stored), the other side can "
      "change the state and look for a waker in between: it finds none, and the task then sleeps on a condition that no longer holds (check-then-register race).")
def c02_13(R):
    F = R.facts
    n = 0
    for b in F.bodies(lambda nm: "::tests" not in nm and not nm.startswith(("test_util", "e2e_tests"))):
        for r in b.calls():
            if not (call_matches(r, ("utils::update_optional_waker",)) and r.args):
                continue
            n += 1
            gs = _guards_in(b, r.args[0])
            if len(gs) != 1:
                R.fail([b.name, "waker-not-stored-through-one-guard", str(len(gs))], "the waker slot is not reached through exactly one lock guard here", where=r.where(), instance="check+register-atomic")
                continue
            g = next(iter(gs))
            foreign = []
            for c, truth, d, term, *_ in controlling(b, r.bb):
                ops = []
                if c.kind == "bin":
                    ops = [c.a, c.b]
                elif c.kind == "call":
                    ops = list(c.call.args)
                elif getattr(c, "trace", None) is not None and getattr(c, "op", None) is not None:
                    ops = [c.op]
                elif getattr(c, "place", None) is not None:
                    ops = [c.place]
                for o in ops:
                    try:
                        og = _guards_in(b, o)
                    except Exception:
                        og = set()
                    if og and g not in og:
                        # a second lock taken WHILE the waker's guard is already held (the ring's mutex inside the state lock) is part of the same critical section
                        gdef = b.unique_def(g)
                        nested = gdef is not None and all(b.unique_def(x) is not None and point_reaches(b, gdef, b.unique_def(x)) and not point_reaches(b, b.unique_def(x), gdef) for x in og)
                        if not nested:
                            foreign.append(d)
            if foreign:
                R.fail([b.name, "decision-read-under-another-guard"] + sorted(set(foreign))[:2],
                       "%s stores its waker under one lock acquisition but decided to wait on state read under an earlier one (%s): a change made in between finds no waker to wake and is not seen either"
                       % (b.name.split("::")[-1], ", ".join(sorted(set(foreign))[:2])), where=r.where(), instance="check+register-atomic")
            else:
                R.ok("check+register-atomic", b.name, "registration at %s: every shared condition was read through the guard that holds the waker slot" % r.where())
    R.floor("waker registration sites", n, 7)
