"""C07 acknowledgement timeliness: delayed-ACK bound and immediate-ACK triggers."""
from .common import *
from .c02 import VS, send_data_closures, timer_calls
from utpsa.wake import variant_of_edge

PIM = VS + "::process_incoming_message"
MSA = VS + "::maybe_send_ack"
CBU = "VirtualSocket.consumed_but_unacked_bytes"


@rule("C07.1", ["C07"], ["E7"], "delayed-ACK constants", "constants::ACK_DELAY evaluates to 40 ms and IMMEDIATE_ACK_EVERY_RMSS to 2.")
def c07_1(R):
    F = R.facts
    ns = const_duration_ns(F, "constants::ACK_DELAY")
    R.require(ns is not None, "const constants::ACK_DELAY")
    if ns == 40_000_000:
        R.ok("ACK_DELAY", "constants", "= 40 ms")
    else:
        R.fail(["constants::ACK_DELAY", "ns=%d" % ns], "ACK_DELAY is %d ns, the property states 40 ms" % ns, instance="ACK_DELAY")
    v = F.const_scalar("constants::IMMEDIATE_ACK_EVERY_RMSS")
    if v == 2:
        R.ok("IMMEDIATE_ACK_EVERY_RMSS", "constants", "= 2")
    else:
        R.fail(["constants::IMMEDIATE_ACK_EVERY_RMSS", str(v)], "IMMEDIATE_ACK_EVERY_RMSS is %s, the property states 2" % v, instance="IMMEDIATE_ACK_EVERY_RMSS")


@rule("C07.2", ["C07"], ["E6"], "immediate ACK iff unacknowledged bytes >= 2 * MSS",
      "immediate_ack_to_transmit returns consumed_but_unacked_bytes >= IMMEDIATE_ACK_EVERY_RMSS * segment_sizes.mss() (operand order and comparison checked; any equivalent form of >= is accepted).")
def c07_2(R):
    b = R.body(VS + "::immediate_ack_to_transmit")
    ok = False
    shape = "?"
    for s in b.stmts():
        if s.place.local == 0 and s.rv.kind == "bin":
            op = s.rv.op
            a, c = s.rv.ops
            ta, tc = trace(b, a, through_casts=False), trace(b, c, through_casts=False)

            def is_cnt(t):
                return t.last_field == CBU

            def is_thresh(t):
                if t.kind == "rv" and t.root[1].rv.kind == "bin" and t.root[1].rv.op.startswith("Mul"):
                    x, y = t.root[1].rv.ops
                    sx, sy = value_sources(b, x), value_sources(b, y)
                    both = sx | sy
                    return ("const", "constants::IMMEDIATE_ACK_EVERY_RMSS") in both and ("call", "mtu::SegmentSizes::mss") in both
                return False
            shape = "%s(%s, %s)" % (op, ta.describe(), tc.describe())
            if (op == "Ge" and is_cnt(ta) and is_thresh(tc)) or (op == "Le" and is_thresh(ta) and is_cnt(tc)):
                ok = True
    if ok:
        R.ok("immediate-ack-threshold", b.name, "consumed_but_unacked_bytes >= IMMEDIATE_ACK_EVERY_RMSS * mss()")
    else:
        R.fail([b.name, "threshold-shape", shape], "the immediate-ACK threshold is no longer `unacked bytes >= 2 * MSS` (%s)" % shape, where=b.where(), instance="immediate-ack-threshold")
    f = R.body(VS + "::force_immediate_ack")
    okf = False
    for s in f.stmts():
        if written_field(f, s) == CBU and s.rv.ops and s.rv.ops[0].kind == "const" and (s.rv.ops[0].const_item or "").endswith("::MAX"):
            okf = True
    if okf:
        R.ok("force=>counter=MAX", f.name, "consumed_but_unacked_bytes = usize::MAX (>= any threshold)")
    else:
        R.fail([f.name, "no-write(%s=MAX)" % CBU], "force_immediate_ack no longer saturates the unacked counter", where=f.where(), instance="force=>counter=MAX")


@rule("C07.3", ["C07", "C02"], ["E3", "E2"], "forced immediate ACK on duplicate / out-of-order or gap-fill / FIN",
      "In process_incoming_message: every path through `offset < 0` = true in the ST_DATA arm calls force_immediate_ack before returning; every path on which the assembler is or was non-empty "
      "calls force_immediate_ack and then send_ack; every path through the ST_FIN arm calls force_immediate_ack.")
def c07_3(R):
    b = R.body(PIM)
    force = [t for t in b.calls() if call_matches(t, (VS + "::force_immediate_ack",))]
    R.floor("force_immediate_ack call sites", len(force), 3)
    fb = {t.bb for t in force}
    rets = b.return_blocks()
    sa = {t.bb for t in b.calls() if call_matches(t, (VS + "::send_ack",))}
    # (a) duplicate
    dup_targets = []
    ooo_targets = []
    fin_targets = []
    for blk in b.blocks:
        if blk.cleanup or blk.term.kind != "switch" or blk.idx not in b.live_blocks():
            continue
        c, neg = switch_cond(b, blk.term)
        for operand_truth in (True, False):
            o = ordering(c, operand_truth)
            # (seq_nr - expected) < 0 : an already consumed packet
            if o is not None and o[2] and o[1].kind == "const" and o[1].scalar == 0:
                ta = trace(b, o[0])
                in_data_arm = any(d_.endswith("=ST_DATA") for c_, t_, d_, *_ in controlling(b, blk.idx))
                if in_data_arm and ta.kind == "call" and call_matches(ta.root[1], ("Sub::sub",)):
                    be = bool_edges(b, blk.idx)
                    dup_targets.append(be[1] if (operand_truth != neg) else be[0])
        if c.kind == "call" and call_matches(c.call, ("stream_rx::UserRx::assembler_empty",)):
            be = bool_edges(b, blk.idx)
            # the edge on which assembler_empty() is false
            ooo_targets.append(be[1] if neg else be[0])
        if c.kind == "multi" or c.kind == "var":
            pass
    # `!assembler_was_empty` branches on a named local
    for blk in b.blocks:
        if blk.cleanup or blk.term.kind != "switch" or blk.idx not in b.live_blocks():
            continue
        op = blk.term.op
        if op.place is not None and op.place.is_local:
            d = b.unique_def(op.place.local)
            neg = False
            if isinstance(d, Stmt) and d.rv.kind == "un" and d.rv.op == "Not" and d.rv.ops[0].place is not None:
                l = d.rv.ops[0].place.local
                dd = b.unique_def(l)
                if isinstance(dd, Stmt) and dd.rv.kind == "use" and dd.rv.ops[0].place is not None:
                    l = dd.rv.ops[0].place.local
                dl = b.unique_def(l)
                # the snapshot `let x = self.user_rx.assembler_empty()` taken before add_remove, whatever it is called
                if isinstance(dl, Term) and call_matches(dl, ("stream_rx::UserRx::assembler_empty",)):
                    be = bool_edges(b, blk.idx)
                    ooo_targets.append(be[1])  # !was_empty == true
    dt_fin = []
    for blk in b.blocks:
        if blk.cleanup or blk.term.kind != "switch" or blk.idx not in b.live_blocks():
            continue
        for tgt, lab in b.edges(blk.idx):
            c, var = variant_of_edge(b, blk.term, lab)
            if c is not None and var == "ST_FIN" and c.trace.kind == "call" and call_matches(c.trace.root[1], ("raw::UtpHeader::get_type",)) and not c.place.fields:
                fin_targets.append(tgt)
    R.floor("out-of-order / gap-fill trigger edges (assembler non-empty after, or before, add_remove)", len(set(ooo_targets)), 2)
    for name, targets, need_ack in (("duplicate", dup_targets, False), ("out-of-order/gap-fill", ooo_targets, True), ("fin", fin_targets, False)):
        if not targets:
            R.fail([PIM, "trigger-anchor-missing", name], "could not locate the %s trigger in process_incoming_message (anchor drift)" % name, where=b.where(), instance="forced-ack:" + name)
            continue
        bad = False
        for tg in targets:
            ok, _ = must_pass_blocks(b, rets, fb, start=tg)
            if not ok:
                bad = True
                path = shortest_path(b, tg, rets, removed_blocks=fb)
                R.fail([PIM, "trigger", name, "exit-without(force_immediate_ack)"], "a %s packet can be processed without forcing an immediate ACK" % name, where=b.blocks[tg].term.where(), witness=path_lines(b, path), instance="forced-ack:" + name)
                break
            if need_ack:
                # force ... then send_ack (error exits of send_ack itself excepted)
                ok2 = True
                for f in force:
                    if f.bb in b.reachable(tg) and not any(x in b.reachable(f.bb) for x in sa):
                        ok2 = False
                okk, _ = must_pass_blocks(b, rets, sa, start=tg)
                if not okk:
                    bad = True
                    R.fail([PIM, "trigger", name, "exit-without(send_ack)"], "an out-of-order / gap-filling packet is not acknowledged at once (send_ack is skipped on some path)", where=b.blocks[tg].term.where(), instance="forced-ack:" + name)
                    break
        if not bad:
            R.ok("forced-ack:" + name, PIM, "%d trigger edge(s): force_immediate_ack%s on every path to return" % (len(targets), " + send_ack" if need_ack else ""))


@rule("C07.4", ["C07", "C02"], ["E2", "E7"], "ACK decision: immediate threshold, window update, delayed-ACK timer (non-restarting, 40 ms)",
      "maybe_send_ack calls send_ack under immediate_ack_to_transmit() = true, under should_send_window_update() = true, and under ack_delay_timer.expired() = true && ack_to_transmit() = true; "
      "otherwise under consumed_but_unacked_bytes > 0 it arms ack_delay_timer with (constants::ACK_DELAY, restart = false): a restarting arm would let a packet stream postpone the ACK forever.")
def c07_4(R):
    b = R.body(MSA)
    sends = [t for t in b.calls() if call_matches(t, (VS + "::send_ack",))]
    R.floor("send_ack sites in maybe_send_ack", len(sends), 3)
    seen = set()
    for t in sends:
        conds = {d for c, truth, d, *_ in controlling(b, t.bb)}
        if "call:VirtualSocket::immediate_ack_to_transmit=true" in conds:
            seen.add("immediate")
        elif "call:VirtualSocket::should_send_window_update=true" in conds:
            seen.add("window-update")
        elif "call:Timer::expired=true" in conds and "call:VirtualSocket::ack_to_transmit=true" in conds:
            seen.add("delayed")
    for k in ("immediate", "window-update", "delayed"):
        if k in seen:
            R.ok("ack-trigger:" + k, MSA)
        else:
            R.fail([MSA, "missing-ack-trigger", k], "maybe_send_ack no longer sends an ACK for the %s trigger" % k, where=b.where(), instance="ack-trigger:" + k)
    arms = [t for t in b.calls() if call_matches(t, ("stream_dispatch::Timer::arm",)) and trace(b, t.args[0]).last_field == "Timers.ack_delay_timer"]
    R.floor("ack_delay_timer.arm in maybe_send_ack", len(arms), 1)
    for t in arms:
        delay, restart = t.args[2], t.args[3]
        if not (delay.kind == "const" and delay.const_item == "constants::ACK_DELAY"):
            R.fail([MSA, "ack_delay_timer.arm", "delay=" + repr(delay)], "the delayed-ACK timer is armed with something other than ACK_DELAY", where=t.where(), instance="delayed-ack-arm")
        elif not (restart.kind == "const" and restart.scalar == 0):
            R.fail([MSA, "ack_delay_timer.arm", "restart=" + repr(restart)], "the delayed-ACK timer is armed with restart=true: every new packet postpones the ACK, the 40 ms bound is lost", where=t.where(), instance="delayed-ack-arm")
        else:
            nz = [nonzero_test(c, truth) for c, truth, d, *_ in controlling(b, t.bb)]
            if any(x is not None and trace(b, x).last_field == CBU for x in nz):
                R.ok("delayed-ack-arm", MSA, "arm(ACK_DELAY, restart=false) under consumed_but_unacked_bytes > 0")
            else:
                R.fail([MSA, "ack_delay_timer.arm", "not-under(consumed_but_unacked_bytes>0)"], "delayed-ACK arm is no longer controlled by 'there are unacknowledged bytes'", where=t.where(), instance="delayed-ack-arm")
    # Timer::arm semantics for restart=false: never moves the deadline later
    ta = R.body("stream_dispatch::Timer::arm")
    mins = [t for t in ta.calls() if call_matches(t, ("Ord::min",))]
    if mins:
        R.ok("arm-non-restarting-keeps-earliest", ta.name, "Armed && !restart => expires_at.min(new)")
    else:
        R.fail([ta.name, "no-min(expires_at,new)"], "Timer::arm without restart no longer keeps the earlier deadline", where=ta.where(), instance="arm-non-restarting-keeps-earliest")
    te = R.body("stream_dispatch::Timer::expired")
    shape = None
    for it in te.items():
        if isinstance(it, Term) and it.kind == "call" and it.dest.local == 0 and call_matches(it, ("PartialOrd::le", "PartialOrd::ge", "PartialOrd::lt", "PartialOrd::gt")):
            a, c = trace(te, it.args[0]), trace(te, it.args[1])
            nm = it.callee.split("::")[-1]
            lo, hi, strict = {"le": (a, c, False), "ge": (c, a, False), "lt": (a, c, True), "gt": (c, a, True)}[nm]

            def side(x):
                return "expires_at" if (x.last_field or "").endswith(".expires_at") else ("now" if x.kind == "param" and x.root[1] == 2 and not x.fields else x.describe())
            shape = "%s %s %s" % (side(lo), "<" if strict else "<=", side(hi))
    if shape == "expires_at <= now":  # expired(&self, now), in any spelling of the comparison
        R.ok("expired<=>expires_at<=now", te.name, shape)
    else:
        R.fail([te.name, "expired-shape", str(shape)], "Timer::expired is no longer `expires_at <= now` (%s)" % shape, where=te.where(), instance="expired<=>expires_at<=now")


@rule("C07.5", ["C07"], ["E1", "E6"], "the unacked counter and the delayed-ACK timer are cleared only when a packet carrying the ACK was sent",
      "consumed_but_unacked_bytes := 0 and ack_delay_timer.turn_off occur only in on_packet_sent (on_packet_sent! expansions: the method and the three send_data! closures) and the "
      "'expired but nothing to send' arm of maybe_send_ack; on_packet_sent also records last_sent_ack_nr / last_sent_window from the header; should_send_window_update is "
      "(rx_window() == 0) xor (last_sent_window == 0).")
def c07_5(R):
    F = R.facts
    allowed = {VS + "::on_packet_sent", VS + "::send_tx_queue"}
    n = 0
    for b, s in census_field_writes(F, CBU):
        fu = field_update(b, s)
        fn = owner_fn(b)
        if fu.op == "=" and fu.amount is not None and fu.amount.kind == "const" and fu.amount.scalar == 0:
            n += 1
            in_send_closure = b.kind == "closure" and any(call_matches(t, ("UtpSocket::try_poll_send_to_vectored",)) for t in b.calls())
            if fn == VS + "::on_packet_sent" or (fn == VS + "::send_tx_queue" and in_send_closure):
                # in the closures: only after the transport accepted the datagram
                if in_send_closure:
                    sends = {t.bb for t in b.calls() if call_matches(t, ("UtpSocket::try_poll_send_to_vectored",))}
                    ok, _ = must_pass_blocks(b, [s.bb], sends)
                    conds = {d for c, truth, d, *_ in controlling(b, s.bb)}
                    if ok and any("transport_pending" in d and d.endswith("=false") for d in conds):
                        R.ok("unacked-counter-reset", "send_data! expansion", "after a successful transmit")
                    else:
                        R.fail([fn, "send_data", "counter-reset-not-after-successful-send"], "the unacked counter is cleared although no packet was sent", where=s.where(), instance="unacked-counter-reset")
                else:
                    R.ok("unacked-counter-reset", fn)
            else:
                R.fail([fn, "write(%s=0)" % CBU], "the unacked-bytes counter is cleared outside on_packet_sent: a pending ACK is forgotten", where=s.where(), instance="unacked-counter-reset")
    R.floor("resets of consumed_but_unacked_bytes", n, 4)
    # every other write keeps the forced mark (usize::MAX) absorbing: `= MAX` or `= self.saturating_add(bytes)`
    nup = 0
    for b, s in census_field_writes(F, CBU):
        fu = field_update(b, s)
        if fu.op == "=" and fu.amount is not None and fu.amount.kind == "const" and fu.amount.scalar == 0:
            continue
        fn = owner_fn(b)
        kind = None
        if fu.op == "=" and fu.amount is not None:
            t = trace(b, fu.amount)
            if t.kind == "const" and (t.root[1].scalar == 2 ** 64 - 1 or (t.root[1].const_item or "").endswith("usize::MAX")):
                kind = "mark"
            elif t.kind == "call" and not t.fields and (t.root[1].resolved or "").endswith("saturating_add") and trace(b, t.root[1].args[0]).last_field == CBU:
                kind = "saturating"
                srcs = value_sources(b, t.root[1].args[1])
                if not any(x[0] == "field" and x[1].endswith("Consumed.bytes") for x in srcs):
                    kind = "saturating-by:" + sources_str(b, t.root[1].args[1])
        if kind in ("mark", "saturating"):
            nup += 1
            R.ok("unacked-counter-update", fn, "forced mark" if kind == "mark" else "saturating_add(consumed bytes): a forced mark survives")
        else:
            how = kind or (fu.op if fu.op != "=" else (short_callee(trace(b, fu.amount).root[1].resolved) if fu.amount is not None and trace(b, fu.amount).kind == "call" else "other"))
            R.fail([fn, "update(%s)" % CBU, how], "the unacknowledged-bytes counter is updated by something other than saturating_add(consumed bytes): a pending forced ACK (usize::MAX) can wrap away, or bytes are miscounted", where=s.where(), instance="unacked-counter-update")
    R.floor("non-reset updates of consumed_but_unacked_bytes", nup, 2)
    offs = timer_calls(F, "turn_off", "Timers.ack_delay_timer")
    for b, t in offs:
        fn = owner_fn(b)
        if fn in allowed:
            R.ok("ack_delay_timer-turn_off", fn)
        elif fn == MSA:
            conds = {d for c, truth, d, *_ in controlling(b, t.bb)}
            if "call:VirtualSocket::ack_to_transmit=false" in conds:
                R.ok("ack_delay_timer-turn_off", fn, "expired but nothing to acknowledge")
            else:
                R.fail([fn, "turn_off(Timers.ack_delay_timer)", "not-under(!ack_to_transmit)"], "delayed-ACK timer turned off although an ACK is owed", where=t.where(), instance="ack_delay_timer-turn_off")
        else:
            R.fail([fn, "turn_off(Timers.ack_delay_timer)"], "delayed-ACK timer turned off at an unaudited site", where=t.where(), instance="ack_delay_timer-turn_off")
    R.floor("ack_delay_timer.turn_off sites", len(offs), 5)
    # send_control_packet: on_packet_sent only when sent
    scp = R.body(VS + "::send_control_packet")
    ops = [t for t in scp.calls() if call_matches(t, (VS + "::on_packet_sent",))]
    R.floor("on_packet_sent in send_control_packet", len(ops), 1)
    for t in ops:
        sends = {x.bb for x in scp.calls() if call_matches(x, ("UtpSocket::try_poll_send_to",))}
        ok, _ = must_pass_blocks(scp, [t.bb], sends)
        conds = {d for c, truth, d, *_ in controlling(scp, t.bb)}
        if ok and any(d.startswith("var:") and d.endswith("=true") or "transport_pending" in d and d.endswith("=false") for d in conds):
            R.ok("control-packet-sent=>on_packet_sent", scp.name)
        else:
            R.fail([scp.name, "on_packet_sent-not-after-successful-send"], "on_packet_sent is invoked although the control packet was not handed to the transport", where=t.where(), instance="control-packet-sent=>on_packet_sent")
    # ... and never claims to have sent (Ok(true)) without having passed the transport call
    sends = {x.bb for x in scp.calls() if call_matches(x, ("UtpSocket::try_poll_send_to",))}
    lied = [it for it, cls in ret_assignments(scp) if cls.startswith("Ok(") and cls != "Ok(const:0)" and not must_pass_blocks(scp, [it.bb], sends)[0]]
    if sends and not lied:
        R.ok("control-packet: Ok(true)=>handed-to-transport", scp.name, "only Ok(false) is returned without passing try_poll_send_to")
    else:
        R.fail([scp.name, "Ok(sent)-without-send"], "send_control_packet can report a packet as sent without handing it to the transport: callers arm timers / advance state for a FIN or ACK that never left", where=(lied[0].where() if lied else scp.where()), instance="control-packet: Ok(true)=>handed-to-transport")
    # window update predicate
    w = R.body(VS + "::should_send_window_update")
    okx = False
    for s in w.stmts():
        if s.rv.kind == "bin" and s.rv.op in ("BitXor", "Ne"):
            parts = []
            for o in s.rv.ops:
                t = trace(w, o, through_casts=False)
                if t.kind == "rv" and t.root[1].rv.kind == "bin" and t.root[1].rv.op == "Eq" and t.root[1].rv.ops[1].kind == "const" and t.root[1].rv.ops[1].scalar == 0:
                    parts.append(sources_str(w, t.root[1].rv.ops[0]))
            if sorted(parts) == ["call:VirtualSocket::rx_window", "field:VirtualSocket.last_sent_window"]:
                okx = True
    if okx:
        R.ok("window-update-predicate", w.name, "(rx_window()==0) xor (last_sent_window==0)")
    else:
        R.fail([w.name, "window-update-predicate-shape"], "should_send_window_update is no longer (current window == 0) xor (last sent window == 0)", where=w.where(), instance="window-update-predicate")


@rule("C07.6", ["C07", "C04"], ["E6", "E7"], "window updates are suppressed only after the remote side closed",
      "should_send_window_update returns false early only under state.is_remote_fin_or_later() = true, which holds exactly for {LastAck, Closed} (the peer will send no more data); every other false is "
      "the 'window did not cross zero' case. (While we have only closed our own direction - FinWait1/FinWait2 - the peer still sends and must learn that the window re-opened.)")
def c07_6(R):
    from utpsa.discr import bool_fn_variant_table
    w = R.body(VS + "::should_send_window_update")
    n = 0
    for it, cls in ret_assignments(w):
        if cls != "const:0":
            continue
        n += 1
        descs = [d for c, truth, d, *_ in controlling(w, it.bb)]
        calls = [d for d in descs if d.startswith("call:")]
        if any(d == "call:VirtualSocketState::is_remote_fin_or_later=true" for d in calls):
            R.ok("no-update-after-remote-fin", w.name, "early false under is_remote_fin_or_later()")
        elif any(d.startswith("call:") and d.endswith("=true") for d in calls):
            R.fail([w.name, "early-false-under", ",".join(sorted(calls))], "window updates are suppressed under %s, not (only) after the remote FIN: a peer that still sends never learns that the window re-opened" % ", ".join(sorted(calls)), where=it.where(), instance="no-update-after-remote-fin")
        else:
            R.ok("false=not-changed", w.name, "window did not cross zero")
    R.floor("false exits of should_send_window_update", n, 2)
    tab = bool_fn_variant_table(R.body("stream_dispatch::VirtualSocketState::is_remote_fin_or_later"))
    if tab and tab[True] == {"LastAck", "Closed"}:
        R.ok("is_remote_fin_or_later-table", "VirtualSocketState", "true for {LastAck, Closed}")
    else:
        R.fail(["VirtualSocketState::is_remote_fin_or_later", "table", str(sorted(tab[True]) if tab else None)], "is_remote_fin_or_later is no longer true exactly for LastAck/Closed", instance="is_remote_fin_or_later-table")


@rule("C07.7", ["C07", "C04"], ["E4"], "there is something to acknowledge exactly when the receive cursor is ahead of the last ACK sent",
      "VirtualSocket::ack_to_transmit is `last_consumed_remote_seq_nr > last_sent_ack_nr` in modular order (PartialOrd::gt on SeqNr): the delayed-ACK expiry sends only under it, and stays silent otherwise.")
def c07_7(R):
    b = R.body(VS + "::ack_to_transmit")
    ok = False
    for t in b.calls():
        if call_matches(t, ("PartialOrd::gt", "PartialOrd::lt")) and len(t.args) == 2 and t.dest is not None and copy_root(b, Place({"l": 0, "p": []})) in (t.dest.local, 0):
            a0, a1 = trace(b, t.args[0]).last_field, trace(b, t.args[1]).last_field
            if call_matches(t, ("PartialOrd::lt",)):
                a0, a1 = a1, a0
            ok = (a0, a1) == ("VirtualSocket.last_consumed_remote_seq_nr", "VirtualSocket.last_sent_ack_nr") and "seq_nr::SeqNr" in (t.callee_full or t.resolved or "")
    if ok:
        R.ok("ack_to_transmit", b.name, "last_consumed_remote_seq_nr > last_sent_ack_nr (SeqNr order)")
    else:
        R.fail([b.name, "shape"], "ack_to_transmit is no longer the modular comparison last_consumed_remote_seq_nr > last_sent_ack_nr", where=b.where(), instance="ack_to_transmit")


SENT_FIELDS = ("VirtualSocket.last_sent_ack_nr", "VirtualSocket.last_sent_window")


@rule("C07.8", ["C07", "C02", "C09", "C04"], ["E2", "E6"], "the 'an ACK went out' bookkeeping runs only for a datagram the transport accepted",
      "last_sent_ack_nr / last_sent_window (and with them consumed_but_unacked_bytes = 0 and turning the delayed-ACK timer off) are what every ACK trigger is measured against. They are stored by the "
      "on_packet_sent! expansion in the three send_data! closures and in VirtualSocket::on_packet_sent (called from send_control_packet). Each of these stores - for the fn, each call of it - must be "
      "controlled by this_poll.transport_pending = false tested after the try_poll_send_to* call of the same body: if the UDP socket was not writable nothing left, and recording the ACK as sent "
      "cancels the delayed ACK, the window update and every immediate trigger that was due.")
def c07_8(R):
    F = R.facts
    sites = []
    for b in F.bodies(lambda n: n.startswith("stream_dispatch::VirtualSocket::")):
        st = [s for s in b.stmts() if written_field(b, s) in SENT_FIELDS]
        if not st:
            continue
        # a body that does nothing but the bookkeeping (the fn wrapper of the macro): judge its call sites instead
        sends = [t for t in b.calls() if (t.resolved or t.callee or "").split("<")[0].endswith(("try_poll_send_to", "try_poll_send_to_vectored"))]
        if not sends and b.kind != "closure":
            cs = call_sites_of(F, b.name)
            R.require(cs, "call sites of %s" % b.name)
            for cb, ct in cs:
                sites.append((cb, ct, "call(%s)" % b.name.split("::")[-1]))
        else:
            for s in st:
                sites.append((b, s, "store(%s)" % written_field(b, s)))
    R.floor("sent-bookkeeping sites", len(sites), 7)
    # every place that does the bookkeeping does ALL of it, and every body that hands a datagram to the transport does it (directly or via on_packet_sent)
    full = ("VirtualSocket.last_sent_ack_nr", "VirtualSocket.last_sent_window", "VirtualSocket.consumed_but_unacked_bytes")
    doers = set()
    for b in F.bodies(lambda n: n.startswith("stream_dispatch::VirtualSocket::")):
        wrote = {written_field(b, s) for s in b.stmts()} & set(full)
        if not wrote:
            continue
        toff = any(call_matches(t, ("stream_dispatch::Timer::turn_off",)) and t.args and trace(b, t.args[0]).last_field == "Timers.ack_delay_timer" for t in b.calls())
        missing = sorted(set(full) - wrote) + ([] if toff else ["ack_delay_timer.turn_off"])
        # consumed_but_unacked_bytes is also updated elsewhere (receive path): only bodies that store one of the two last_sent_* fields are bookkeeping sites
        if not (wrote & set(SENT_FIELDS)):
            continue
        doers.add(b.name)
        if missing:
            R.fail([b.name, "partial-sent-bookkeeping", "missing=" + ",".join(x.split(".")[-1] for x in missing)],
                   "a packet that was sent updates only part of the 'what the peer has been told' state (%s missing): every outgoing packet carries ack_nr and window, so all of last_sent_ack_nr, "
                   "last_sent_window, consumed_but_unacked_bytes and the delayed-ACK timer move together - otherwise ack_to_transmit() keeps comparing against an ever older ack" % ", ".join(missing),
                   where=b.where(), instance="sent-bookkeeping-complete")
        else:
            R.ok("sent-bookkeeping-complete", b.name, "last_sent_ack_nr, last_sent_window, consumed_but_unacked_bytes = 0, ack_delay_timer.turn_off")
    for b in F.bodies(lambda n: n.startswith("stream_dispatch::VirtualSocket::")):
        if any((t.resolved or t.callee or "").split("<")[0].endswith(("try_poll_send_to", "try_poll_send_to_vectored")) for t in b.calls()):
            via = [t for t in b.calls() if (t.resolved or "") in doers]
            if b.name in doers or via:
                R.ok("every-send-does-the-bookkeeping", b.name, "directly" if b.name in doers else "via %s" % short_callee(via[0].resolved))
            else:
                R.fail([b.name, "send-without-sent-bookkeeping"], "%s hands a datagram to the transport but never records what it acknowledged / advertised" % b.name, where=b.where(), instance="every-send-does-the-bookkeeping")
    for b, it, what in sites:
        sends = [t for t in b.calls() if (t.resolved or t.callee or "").split("<")[0].endswith(("try_poll_send_to", "try_poll_send_to_vectored"))]
        ok = False
        for c, truth, d, term, *_ in controlling(b, it.bb):
            if d == "field:ThisPoll.transport_pending=false" and any(point_reaches(b, t, term) for t in sends):
                ok = True
        if ok:
            R.ok("sent-bookkeeping=>accepted", b.name, "%s under transport_pending = false after the send" % what)
        else:
            R.fail([b.name, what, "not-under(transport_pending=false after send)"],
                   "the ACK bookkeeping (%s) runs although the transport may have returned Pending: nothing was sent, but last_sent_ack_nr / last_sent_window / consumed_but_unacked_bytes now say the peer "
                   "was told - the delayed ACK and the window update that were due are never sent" % what, where=it.where(), instance="sent-bookkeeping=>accepted")


@rule("C07.9", ["C07", "C02"], ["E6", "E4"], "a nearly closed receive window makes the connection task wait for the reader",
      "The window re-opens only when the reader drains the queue, so the task must be woken by the reader whenever less than one segment of room would be left after flushing the in-order front: "
      "UserRx::flush registers dispatcher_waker under (window - front bytes, saturating at 0) < max_incoming_payload - in particular when the parked in-order bytes exceed the free space (the "
      "difference saturates to 0). The guard of the registration is read as an ordering (any spelling of the same comparison, or window < front + mss) over exactly these three values; a partial form "
      "(checked_sub / is_some_and, a missing operand) skips the registration in the overshoot case and the zero window stands forever.")
def c07_9(R):
    b = R.body("stream_rx::UserRx::flush")
    regs = [t for t in b.calls() if call_matches(t, ("utils::update_optional_waker",)) and trace(b, t.args[0]).last_field == "UserRxSharedLocked.dispatcher_waker"]
    R.floor("registration of the dispatcher waker in flush", len(regs), 1)

    def is_window(o):
        t = trace(b, o)
        return t.kind == "call" and call_matches(t.root[1], ("MsgQueue::window",))

    def is_front(o):
        t = trace(b, o)
        return t.kind == "call" and call_matches(t.root[1], ("OutOfOrderQueue::filled_front_bytes",))

    def is_mss(o):
        t = trace(b, o)
        if t.last_field == "UserRx.max_incoming_payload":
            return True
        return t.kind == "call" and call_matches(t.root[1], ("NonZero::get", "get")) and t.root[1].args and trace(b, t.root[1].args[0]).last_field == "UserRx.max_incoming_payload"

    def is_satsub(o):
        t = trace(b, o)
        return t.kind == "call" and call_matches(t.root[1], ("saturating_sub",)) and is_window(t.root[1].args[0]) and is_front(t.root[1].args[1])

    def is_sum(o):
        t = trace(b, o)
        if t.kind == "call" and call_matches(t.root[1], ("saturating_add",)):
            x, y = t.root[1].args
        elif t.kind == "rv" and t.root[1].rv.kind == "bin" and t.root[1].rv.op in ("Add", "AddWithOverflow"):
            x, y = t.root[1].rv.ops
        else:
            return False
        return (is_front(x) and is_mss(y)) or (is_mss(x) and is_front(y))

    for r in regs:
        ctl = [(c, truth, d) for c, truth, d, *_ in controlling(b, r.bb)]
        good = []
        other = []
        for c, truth, d in ctl:
            o = ordering(c, truth)
            if o is not None and o[2] and ((is_satsub(o[0]) and is_mss(o[1])) or (is_window(o[0]) and is_sum(o[1]))):
                good.append(d)
            else:
                other.append(d)
        if good and not other:
            R.ok("nearly-closed=>register", b.name, "registered under (window - front).saturating < mss")
        else:
            R.fail([b.name, "registration-guard-not(window -sat front < mss)"] + sorted(other)[:3],
                   "UserRx::flush registers the dispatcher's waker under a condition that is not (window - in-order front bytes, saturating) < one segment%s: when the peer overshoots the window "
                   "by one segment and the reader then drains the queue, nobody wakes the connection task - the parked segment is never delivered and the advertised window stays 0"
                   % (" (extra / different tests: %s)" % ", ".join(other) if other else ""), where=r.where(), instance="nearly-closed=>register")
