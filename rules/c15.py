"""C15 CUBIC sanity: the only reader of cwnd clamps to [2, rwnd]; loss handlers only shrink; uniform MSS rescale."""
from .common import *
from .c05 import fconst

CUB = "<congestion::cubic::Cubic as congestion::CongestionController>::"


def is_clamped_cwnd(b, op):
    """value is f64::max(f64::min(x, self.rwnd), 2.0)"""
    t = trace(b, op, through_casts=False)
    if t.kind == "call" and (t.root[1].resolved or "").endswith("f64::max") and fconst(t.root[1].args[1]) == "2.0":
        inner = trace(b, t.root[1].args[0], through_casts=False)
        if inner.kind == "call" and (inner.root[1].resolved or "").endswith("f64::min"):
            r = trace(b, inner.root[1].args[1])
            return r.last_field == "Cubic.rwnd"
    return False


@rule("C15.1", ["C15", "C05"], ["E5", "E1"], "the congestion window handed to the sender is clamped to [2 segments, peer window]",
      "Cubic.cwnd is read for sending only through window(), whose result is (cwnd.max(2.0).min(rwnd) * mss) as usize (floor first, then the peer window: rwnd below 2 wins); every path of on_ack "
      "and on_recovered that writes cwnd ends with cwnd = x.min(rwnd).max(2.0); cwnd is not written outside the Cubic impl.")
def c15_1(R):
    F = R.facts
    w = R.body(CUB + "window")
    ok = False
    for s in w.stmts():
        if s.place.local == 0 and s.rv.kind == "cast":
            t = trace(w, s.rv.ops[0], through_casts=False)
            if t.kind == "rv" and t.root[1].rv.kind == "bin" and t.root[1].rv.op == "Mul":
                a, c = t.root[1].rv.ops
                ta = trace(w, a, through_casts=False)
                tc = trace(w, c)
                if ta.kind == "call" and (ta.root[1].resolved or "").endswith("f64::min") and tc.last_field == "Cubic.mss":
                    mx = trace(w, ta.root[1].args[0], through_casts=False)
                    rw = trace(w, ta.root[1].args[1])
                    if mx.kind == "call" and (mx.root[1].resolved or "").endswith("f64::max") and trace(w, mx.root[1].args[0]).last_field == "Cubic.cwnd" and fconst(mx.root[1].args[1]) == "2.0" and rw.last_field == "Cubic.rwnd":
                        ok = True
    if ok:
        R.ok("window-clamp", w.name, "(cwnd.max(2.0).min(rwnd) * mss) as usize")
    else:
        R.fail([w.name, "window-shape"], "Cubic::window is no longer (cwnd.max(2).min(rwnd) * mss): the window handed to the sender may fall below 2 segments or exceed the peer window", where=w.where(), instance="window-clamp")
    # writers of cwnd
    for b, s in census_field_writes(F, "Cubic.cwnd"):
        if not (b.name.startswith(CUB) or b.name == "congestion::cubic::Cubic::new"):
            R.fail([owner_fn(b), "write(Cubic.cwnd)"], "cwnd written outside the Cubic implementation", where=s.where(), instance="cwnd-writers")
    R.ok("cwnd-writers", "Cubic impl only")
    for fn in ("on_ack", "on_recovered"):
        b = R.body(CUB + fn)
        writes = [s for s in b.stmts() if written_field(b, s) == "Cubic.cwnd"]
        good = {s.bb for s in writes if s.rv.kind == "use" and is_clamped_cwnd(b, s.rv.ops[0])}
        R.floor("clamped cwnd write in " + fn, len(good), 1)
        bad = False
        for s in writes:
            if s.bb in good:
                continue
            okp, _ = must_pass_blocks(b, b.return_blocks(), good, start=s.bb)
            # the unclamped write must be followed by the clamped one on every path
            if not okp:
                bad = True
                R.fail([b.name, "cwnd-write-not-followed-by(min(rwnd).max(2))"], "%s can leave cwnd outside [2, rwnd]" % fn, where=s.where(), instance="cwnd-sanitised:" + fn)
        if not bad:
            R.ok("cwnd-sanitised:" + fn, b.name, "every cwnd write is (followed by) x.min(rwnd).max(2.0)")


@rule("C15.2", ["C15"], ["E5", "E7"], "a timeout or entry into fast recovery never increases the window; ssthresh = 0.7 * cwnd (at least 2)",
      "on_retransmission_timeout: ssthresh = (cwnd * BETA_CUBIC).max(2.0), cwnd = 1.0; on_enter_recovery: cwnd *= BETA_CUBIC, ssthresh = cwnd.max(2.0); BETA_CUBIC = 0.7, C = 0.4.")
def c15_2(R):
    F = R.facts
    for name, want in (("congestion::cubic::BETA_CUBIC", "0.7"), ("congestion::cubic::C", "0.4")):
        c = F.consts.get(name, {}).get("scalar")
        v = c.get("f") if isinstance(c, dict) else None
        if v == want:
            R.ok("constants", name.split("::")[-1], "= " + want)
        else:
            R.fail([name, str(v)], "%s is %s, expected %s" % (name, v, want), instance="constants")

    def is_beta(op):
        return op.kind == "const" and op.const_item == "congestion::cubic::BETA_CUBIC"
    rto = R.body(CUB + "on_retransmission_timeout")
    ok_ss = False
    for s in rto.stmts():
        if written_field(rto, s) == "Cubic.ssthresh" and s.rv.kind == "use":
            t = trace(rto, s.rv.ops[0], through_casts=False)
            if t.kind == "call" and (t.root[1].resolved or "").endswith("f64::max") and fconst(t.root[1].args[1]) == "2.0":
                m = trace(rto, t.root[1].args[0], through_casts=False)
                if m.kind == "rv" and m.root[1].rv.kind == "bin" and m.root[1].rv.op == "Mul":
                    a, c = m.root[1].rv.ops
                    if (trace(rto, a).last_field == "Cubic.cwnd" and is_beta(c)) or (trace(rto, c).last_field == "Cubic.cwnd" and is_beta(a)):
                        ok_ss = True
    # order: ssthresh is computed from the cwnd *before* it is collapsed
    ws = [s for s in rto.stmts() if written_field(rto, s) == "Cubic.ssthresh"]
    wc = [s for s in rto.stmts() if written_field(rto, s) == "Cubic.cwnd"]
    order_ok = ws and wc and all((w.bb, w.idx) < (c.bb, c.idx) or c.bb in rto.reachable(w.bb) and w.bb != c.bb for w in ws for c in wc)
    if ok_ss and order_ok:
        R.ok("rto: ssthresh=max(0.7*cwnd,2)", rto.name, "computed before cwnd is collapsed")
    else:
        R.fail([rto.name, "ssthresh-shape", "shape=%s order=%s" % (ok_ss, bool(order_ok))], "on a timeout ssthresh is no longer max(0.7 * previous cwnd, 2)", where=rto.where(), instance="rto: ssthresh=max(0.7*cwnd,2)")
    er = R.body(CUB + "on_enter_recovery")
    ok_c = False
    ok_s = False
    for s in er.stmts():
        fu = field_update(er, s)
        if fu and fu.field == "Cubic.cwnd":
            if fu.op == "*=" and fu.amount is not None and is_beta(fu.amount):
                ok_c = True
            else:
                R.fail([er.name, "cwnd-write", fu.op], "entering fast recovery changes cwnd other than by *= BETA_CUBIC", where=s.where(), instance="recovery: cwnd*=0.7")
        if fu and fu.field == "Cubic.ssthresh" and s.rv.kind == "use":
            t = trace(er, s.rv.ops[0], through_casts=False)
            if t.kind == "call" and (t.root[1].resolved or "").endswith("f64::max") and fconst(t.root[1].args[1]) == "2.0" and trace(er, t.root[1].args[0]).last_field == "Cubic.cwnd":
                ok_s = True
    if ok_c:
        R.ok("recovery: cwnd*=0.7", er.name)
    else:
        R.fail([er.name, "no(cwnd*=BETA_CUBIC)"], "entering fast recovery no longer multiplies cwnd by 0.7", where=er.where(), instance="recovery: cwnd*=0.7")
    if ok_s:
        R.ok("recovery: ssthresh=max(cwnd,2)", er.name)
    else:
        R.fail([er.name, "ssthresh-shape"], "entering fast recovery no longer sets ssthresh = max(reduced cwnd, 2)", where=er.where(), instance="recovery: ssthresh=max(cwnd,2)")


@rule("C15.3", ["C15", "C05"], ["E4"], "an MSS change rescales the window uniformly instead of resetting it",
      "set_mss, under self.mss != mss, multiplies cwnd, ssthresh, w_max and w_max_last by the same rescale = self.mss as f64 / mss as f64 and then stores mss.")
def c15_3(R):
    b = R.body(CUB + "set_mss")
    scaled = {}
    for s in b.stmts():
        fu = field_update(b, s)
        if fu and fu.op == "*=" and fu.field.startswith("Cubic.") and fu.amount is not None:
            scaled[fu.field] = trace(b, fu.amount, through_casts=False)
        elif fu and fu.field in ("Cubic.cwnd", "Cubic.ssthresh", "Cubic.w_max", "Cubic.w_max_last"):
            R.fail([b.name, "write(%s)" % fu.field, fu.op], "set_mss overwrites %s instead of rescaling it" % fu.field, where=s.where(), instance="uniform-rescale")
    want = {"Cubic.cwnd", "Cubic.ssthresh", "Cubic.w_max", "Cubic.w_max_last"}
    same = len({t.describe() for t in scaled.values()}) == 1 if scaled else False
    shape = False
    if scaled:
        t = list(scaled.values())[0]
        if t.kind == "rv" and t.root[1].rv.kind == "bin" and t.root[1].rv.op == "Div":
            a, c = t.root[1].rv.ops
            if trace(b, a).last_field == "Cubic.mss" and ("param", 2) in value_sources(b, c):  # set_mss(self, mss)
                shape = True
    if set(scaled) == want and same and shape:
        R.ok("uniform-rescale", b.name, "cwnd, ssthresh, w_max, w_max_last *= old_mss / new_mss")
    else:
        R.fail([b.name, "rescale", "fields=%s same=%s old/new=%s" % (sorted(f.split(".")[1] for f in scaled), same, shape)], "set_mss no longer rescales all four window quantities by old_mss / new_mss", where=b.where(), instance="uniform-rescale")
    # the rescale and the store must happen when the MSS actually changes: not under `self.mss == mss`
    def is_mss_field(o):
        return trace(b, o).last_field == "Cubic.mss"

    def is_new_mss(o):
        t_ = trace(b, o)
        return t_.kind == "param" and t_.root[1] == 2 and not t_.fields
    sites = [s for s in b.stmts() if (lambda fu: fu and ((fu.op == "*=" and fu.field.startswith("Cubic.")) or fu.field == "Cubic.mss"))(field_update(b, s))]
    wrong = [s for s in sites if guarded(b, s.bb, "eq", is_mss_field, is_new_mss)]
    if sites and not wrong:
        R.ok("rescale-when-changed", b.name, "rescale and store are not confined to self.mss == mss")
    else:
        R.fail([b.name, "rescale-only-when(mss==new)"], "set_mss rescales / stores only when the MSS did NOT change: a real MSS change is ignored, cwnd keeps counting in the old unit", where=(wrong[0].where() if wrong else b.where()), instance="rescale-when-changed")
    wm = [s for s in b.stmts() if written_field(b, s) == "Cubic.mss"]
    # the factor must be computed from the OLD mss: no store of Cubic.mss may reach the read that feeds the numerator
    stale = False
    if scaled:
        t0 = list(scaled.values())[0]
        if t0.kind == "rv" and t0.root[1].rv.kind == "bin":
            num = trace(b, t0.root[1].rv.ops[0])
            reads = [st for st in num.steps if isinstance(st, Stmt) and st.rv.ops and st.rv.ops[0].place is not None and st.rv.ops[0].place.last_field == "Cubic.mss"]
            reads = reads or ([t0.root[1]] if any(o.place is not None and o.place.last_field == "Cubic.mss" for o in t0.root[1].rv.ops) else [])
            if not reads:
                stale = True
            for rd in reads:
                if any(point_reaches(b, w, rd) for w in wm):
                    stale = True
    if wm and value_sources(b, wm[0].rv.ops[0]) == {("param", 2)} and not stale and all(point_reaches(b, x, s) for s in wm for x in b.stmts() if field_update(b, x) and field_update(b, x).op == "*="):
        R.ok("mss-stored-after-rescale", b.name)
    else:
        R.fail([b.name, "mss-store"], "set_mss does not store the new mss after rescaling", where=b.where(), instance="mss-stored-after-rescale")


TRC = "<congestion::tracing::TracingController as congestion::CongestionController>::"
RUN_HELPER = "utils::run_before_and_after_if_changed"


def _on_every_path(body, item):
    from utpsa.flow import must_pass_blocks
    rets = body.return_blocks()
    if not rets:
        return False
    ok, _bad = must_pass_blocks(body, rets, {item.bb})
    return ok and item.bb in body.reachable(0)


def _returns_only(body, call):
    """every definition of the return place is (a copy of) the result of `call`"""
    t = trace(body, Place({"l": 0, "p": []}))
    if t.kind == "call":
        return t.root[1] is call and not t.fields
    if t.kind == "multi":
        for d in t.root[3]:
            if isinstance(d, Stmt) and d.rv.kind == "use":
                dt = trace(body, d.rv.ops[0])
                if not (dt.kind == "call" and dt.root[1] is call and not dt.fields):
                    return False
            elif d is not call:
                return False
        return bool(t.root[3])
    return False


@rule("C15.4", ["C15", "C05"], ["E2", "E4"], "the tracing decorator forwards every controller operation, unconditionally and unchanged",
      "SocketOpts.congestion.tracing wraps the controller in TracingController. Every bound C15/C05 states about `the congestion window` is checked on Cubic, so it holds with tracing on only if the wrapper is "
      "transparent: each CongestionController method of TracingController (the same set Cubic implements) calls the same method on self.inner with its own parameters in order, on EVERY path - "
      "directly, or inside the change closure handed to run_before_and_after_if_changed, which itself calls that closure on every path and returns its result - and value-returning methods return "
      "the inner result. A cached / filtered / conditional forward (e.g. `only when the value changed`) lets the inner controller's state (rwnd in MSS units after set_mss, cwnd after a loss) drift from what the dispatcher told it.")
def c15_4(R):
    F = R.facts
    cub = {b.name[len(CUB):] for b in F.bodies() if b.name.startswith(CUB) and "::{closure" not in b.name}
    trc = {b.name[len(TRC):] for b in F.bodies() if b.name.startswith(TRC) and "::{closure" not in b.name}
    R.floor("CongestionController methods implemented by the tracing wrapper", len(trc), 9)
    for m in sorted(cub - trc):
        R.fail([TRC + m, "not-forwarded(default-method)"], "Cubic implements CongestionController::%s but the tracing wrapper does not: the trait default runs instead of the inner controller" % m, instance="decorator-forwards")
    # the helper calls its change closure (3rd parameter) on every path and returns what it returned
    h = R.body(RUN_HELPER)
    hc = [t for t in h.calls() if call_matches(t, ("FnOnce::call_once", "FnMut::call_mut", "Fn::call")) and t.args and trace(h, t.args[0]).kind == "param" and trace(h, t.args[0]).root[1] == 3]
    R.require(len(hc) == 1, "run_before_and_after_if_changed calls its change closure exactly once")
    helper_ok = _on_every_path(h, hc[0])
    helper_ret = _returns_only(h, hc[0])
    if helper_ok and helper_ret:
        R.ok("helper-runs-change-closure", RUN_HELPER, "maybe_change(obj) on every path; its result is returned")
    else:
        R.fail([RUN_HELPER, "change-closure-not-on-every-path" if not helper_ok else "result-not-returned"],
               "run_before_and_after_if_changed no longer runs the change closure on every path (or drops its result): every traced controller operation becomes conditional", where=hc[0].where(), instance="helper-runs-change-closure")
    for m in sorted(trc):
        b = R.body(TRC + m)
        nargs = b.arg_count
        found = None
        # (A) direct forward
        cands = [(b, t, None) for t in b.calls() if (t.callee or t.resolved or "").endswith("CongestionController>::" + m) or (t.callee or t.resolved or "").endswith("CongestionController::" + m)]
        # (B) inside the change closure handed to the helper
        helper_calls = [t for t in b.calls() if t.resolved == RUN_HELPER]
        for hcall in helper_calls:
            if len(hcall.args) < 3:
                continue
            ct = trace(b, hcall.args[2])
            if ct.kind == "rv" and ct.root[1].rv.kind == "agg" and ct.root[1].rv.j.get("ak") == "closure":
                cb = F.body(ct.root[1].rv.j["closure"])
                if cb is not None:
                    for t in cb.calls():
                        if (t.callee or t.resolved or "").endswith("CongestionController>::" + m) or (t.callee or t.resolved or "").endswith("CongestionController::" + m):
                            cands.append((cb, t, hcall))
        if not cands:
            R.fail([TRC + m, "no-forward"], "TracingController::%s does not call inner.%s at all" % (m, m), where=b.where(), instance="decorator-forwards")
            continue
        problems = []
        for cb, t, via in cands:
            p = []
            recv = trace(cb, t.args[0])
            if recv.last_field != "TracingController.inner":
                p.append("receiver-not-self.inner")
            if len(t.args) != nargs:
                p.append("arity")
            else:
                for k in range(1, nargs):
                    at = trace(cb, t.args[k])
                    if not (is_fn_param(cb, at, k + 1) and not [f for f in at.fields if not f.startswith("tuple.")]):
                        p.append("arg%d-not-param#%d(%s)" % (k, k + 1, at.describe()))
            if not _on_every_path(cb, t):
                p.append("forward-not-on-every-path" + ("(closure)" if via is not None else ""))
            if via is not None and not _on_every_path(b, via):
                p.append("helper-call-not-on-every-path")
            # value: what the method returns is the forward's result
            ret_ty = b.local_ty(0)
            if ret_ty not in ("()",):
                if via is None:
                    if not _returns_only(b, t):
                        p.append("inner-result-not-returned")
                else:
                    if not _returns_only(b, via) or not _returns_only(cb, t):
                        p.append("inner-result-not-returned")
            if not p:
                found = (cb, t, via)
                break
            problems.append(p)
        if found:
            R.ok("decorator-forwards", TRC + m, "inner.%s(%s) on every path%s" % (m, ", ".join("param#%d" % (k + 1) for k in range(1, nargs)), " via the change closure" if found[2] is not None else ""))
        else:
            pr = sorted(set(x for p in problems for x in p))
            R.fail([TRC + m] + pr, "with congestion tracing enabled, CongestionController::%s reaches the inner controller only conditionally / altered (%s): the inner window state no longer follows what the "
                   "dispatcher reported, so the bounds established for Cubic (C15.1-3, C05.1) do not hold for the traced socket" % (m, ", ".join(pr)), where=cands[0][1].where(), instance="decorator-forwards")


@rule("C15.5", ["C15", "C06"], ["E2", "E4"], "fast recovery is entered with the threshold of THIS loss",
      "Recovery::on_ack, on the third duplicate: congestion_controller.on_enter_recovery(now) cuts the window and sets ssthresh = max(0.7 cwnd, 2) (C15.2); the recovery window kept in "
      "Recovering.cwnd is congestion_controller.sshthresh() read AFTER that call (dominated by it), and on exit on_recovered(.., rec.cwnd) writes that value back. Read before the call it is the "
      "threshold of the previous epoch - infinite on the first loss - so the window during recovery is unbounded and the loss leaves no lasting reduction.")
def c15_5(R):
    b = R.body("recovery::Recovery::on_ack")
    enters = [t for t in b.calls() if call_matches(t, ("CongestionController::on_enter_recovery",))]
    R.require(len(enters) == 1, "on_enter_recovery call in Recovery::on_ack")
    ent = enters[0]
    dom = b.dominators()
    aggs = [s for s in b.stmts() if s.rv.kind == "agg" and s.rv.j.get("adt") == "recovery::Recovering"]
    R.floor("Recovering{..} constructions in on_ack", len(aggs), 1)
    for s in aggs:
        names = s.rv.j["fields"]
        v = trace(b, s.rv.ops[names.index("cwnd")])
        if v.kind == "call" and call_matches(v.root[1], ("CongestionController::sshthresh",)):
            rd = v.root[1]
            if ent.bb in dom.get(rd.bb, ()) and ent.bb != rd.bb or (ent.bb == rd.bb and ent.idx < rd.idx):
                R.ok("recovery-window=new-ssthresh", b.name, "Recovering.cwnd = sshthresh() read after on_enter_recovery")
            else:
                R.fail([b.name, "sshthresh-read-before(on_enter_recovery)"], "the recovery window is taken from sshthresh() before on_enter_recovery updated it: it is the previous epoch's threshold (infinite on the "
                       "first loss) - sending in recovery is not limited and on_recovered writes the stale value back", where=rd.where(), instance="recovery-window=new-ssthresh")
        else:
            R.fail([b.name, "Recovering.cwnd-source", v.describe()], "the recovery window is no longer the controller's slow-start threshold", where=s.where(), instance="recovery-window=new-ssthresh")
    # ... and that is the value handed back as ssthresh on exit
    rec = [t for t in b.calls() if call_matches(t, ("CongestionController::on_recovered",))]
    R.floor("on_recovered calls in Recovery::on_ack", len(rec), 1)
    for t in rec:
        a = trace(b, t.args[2])
        if a.last_field == "Recovering.cwnd":
            R.ok("ssthresh-restored-from-recovery-window", b.name, "on_recovered(_, rec.cwnd)")
        else:
            R.fail([b.name, "on_recovered-ssthresh", a.describe()], "on exit from recovery ssthresh is no longer restored from the window recorded at entry", where=t.where(), instance="ssthresh-restored-from-recovery-window")
