"""C03 honest completion: Ok means acked, EOF means FIN in sequence, every terminal exit informs both halves."""
from .common import *
from .c02 import POLL_FLUSH, POLL_SHUTDOWN, POLL_READV, VS
from utpsa.flow import controlling_edges, describe_cond
from utpsa.wake import variant_of_edge, ret_class_of


def cond_is(body, term, label, pred):
    """pred(cond, truth) for a controlling edge; truth is the boolean value of the tested expression on this edge"""
    c, neg = switch_cond(body, term)
    if label[0] == "val":
        v = label[1] != 0
    else:
        v = 0 in label[1]
    return pred(c, (not v) if neg else v)


@rule("C03.1", ["C03", "C19"], ["E2"], "flush/shutdown report success only when the TX ring is empty, failure only when the connection is closed",
      "In poll_flush and poll_shutdown every exit Ready(Ok(())) is control-dependent on producer.is_empty() = true (the ring holds every unacknowledged byte and shrinks only by cumulative ACK, C01.3); "
      "every exit Ready(Err(_)) is control-dependent on UserTxLocked.vsock_closed = true.")
def c03_1(R):
    n = 0
    for name in (POLL_FLUSH, POLL_SHUTDOWN):
        b = R.body(name)
        for it, cls in ret_assignments(b):
            if not cls.startswith("Ready("):
                continue
            ce = controlling_edges(b, it.bb)
            if cls.startswith("Ready(Ok"):
                n += 1
                ok = any(cond_is(b, t, lab, lambda c, v: c.kind == "call" and v and call_on_field(b, c.call, ("Observer::is_empty",), "UserTx.producer")) for t, tgt, lab in ce)
                if ok:
                    R.ok("Ok=>ring-empty", name.split("::")[-1], "Ready(Ok) only on producer.is_empty()=true")
                else:
                    R.fail([name, "Ready(Ok)", "not-guarded-by(UserTx.producer.is_empty)", "guards=" + ",".join(sorted(describe_cond(b, t, lab) for t, tgt, lab in ce))],
                           "%s can report success while the TX ring still holds unacknowledged bytes" % name.split("::")[-1], where=it.where(), instance="Ok=>ring-empty")
            elif cls.startswith("Ready(Err"):
                n += 1
                ok = any(cond_is(b, t, lab, lambda c, v: c.kind == "field" and v and c.trace.last_field == "UserTxLocked.vsock_closed") for t, tgt, lab in ce)
                if ok:
                    R.ok("Err=>vsock_closed", name.split("::")[-1], "Ready(Err) only on vsock_closed=true")
                else:
                    R.fail([name, "Ready(Err)", "not-guarded-by(UserTxLocked.vsock_closed)"], "%s reports an error although the connection is not closed" % name.split("::")[-1], where=it.where(), instance="Err=>vsock_closed")
    R.floor("Ready exits of poll_flush/poll_shutdown", n, 4)


@rule("C03.2", ["C03", "C01"], ["E1", "E2"], "the EOF marker has one producer: a FIN stored at its sequence position",
      "UserRxMessage::Eof is constructed only in MsgQueue::try_push_back (from OoqMessage::Eof); OoqMessage::Eof only in OutOfOrderQueue::add_remove under header.htype = ST_FIN; "
      "UtpStreamReadHalf.is_eof is set only in poll_read_vectored under a popped UserRxMessage::Eof.")
def c03_2(R):
    F = R.facts
    n = 0
    for b in F.bodies():
        for s in b.stmts():
            rv = s.rv
            if rv.kind == "agg" and rv.j.get("variant") == "Eof":
                adt = rv.j["adt"]
                n += 1
                if adt == "stream_rx::UserRxMessage":
                    if b.name == "stream_rx::msgq::MsgQueue::try_push_back":
                        ce = controlling_edges(b, s.bb)
                        ok = any(describe_cond(b, t, lab).endswith("=Eof") for t, tgt, lab in ce)
                        if ok:
                            R.ok("UserRxMessage::Eof-producer", b.name, "built only from OoqMessage::Eof")
                        else:
                            R.fail([b.name, "UserRxMessage::Eof", "not-under(OoqMessage::Eof)"], "UserRxMessage::Eof built on a path not controlled by the message being OoqMessage::Eof", where=s.where(), instance="UserRxMessage::Eof-producer")
                    else:
                        R.fail([owner_fn(b), "construct", "UserRxMessage::Eof"], "end-of-stream marker constructed outside MsgQueue::try_push_back", where=s.where(), instance="UserRxMessage::Eof-producer")
                elif adt == "stream_rx::OoqMessage":
                    if b.name == "stream_rx::OutOfOrderQueue::add_remove":
                        ce = controlling_edges(b, s.bb)
                        ok = any(describe_cond(b, t, lab).endswith("=ST_FIN") for t, tgt, lab in ce)
                        if ok:
                            R.ok("OoqMessage::Eof-producer", b.name, "only under htype = ST_FIN")
                        else:
                            R.fail([b.name, "OoqMessage::Eof", "not-under(ST_FIN)"], "OoqMessage::Eof built on a path not controlled by htype = ST_FIN", where=s.where(), instance="OoqMessage::Eof-producer")
                    else:
                        R.fail([owner_fn(b), "construct", "OoqMessage::Eof"], "reassembly EOF marker constructed outside OutOfOrderQueue::add_remove", where=s.where(), instance="OoqMessage::Eof-producer")
    R.floor("Eof aggregates", n, 2)
    w = census_field_writes(F, "UtpStreamReadHalf.is_eof")
    k = 0
    for b, s in w:
        fu = field_update(b, s)
        if fu.amount is not None and fu.amount.kind == "const" and fu.amount.scalar == 1:
            k += 1
            ce = controlling_edges(b, s.bb)
            ok = b.name == POLL_READV and any(describe_cond(b, t, lab).endswith("=Eof") for t, tgt, lab in ce)
            if ok:
                R.ok("is_eof-writer", b.name, "set only after popping UserRxMessage::Eof")
            else:
                R.fail([owner_fn(b), "write(UtpStreamReadHalf.is_eof=true)"], "is_eof set on a path not controlled by a popped Eof message", where=s.where(), instance="is_eof-writer")
    R.floor("is_eof := true sites", k, 1)


@rule("C03.3", ["C03", "C08"], ["E2", "E3"], "every terminal exit of the connection runs the death path, which informs both halves",
      "Every Poll::Ready exit of VirtualSocket::poll is dominated by a call to just_before_death (audited exception: the BugUnreachable fall-through after the loop); just_before_death calls "
      "user_rx.mark_vsock_closed and user_tx.mark_vsock_closed on every path, and with Some(err) calls enqueue_error before mark_vsock_closed; Drop for VirtualSocket (cancellation) calls both as well.")
def c03_3(R):
    # the two "the connection is gone" markers really mark: the flag is set whenever it was not set yet
    for fn, fld in (("stream_rx::UserRx::mark_vsock_closed", "UserRxSharedLocked.vsock_closed"), ("stream_tx::UserTxLocked::mark_vsock_closed", "UserTxLocked.vsock_closed")):
        mb = R.body(fn)
        ws = [s_ for s_ in mb.stmts() if written_field(mb, s_) == fld and s_.rv.kind == "use" and s_.rv.ops[0].kind == "const" and s_.rv.ops[0].scalar == 1]
        if ws and not any(d == "field:%s=true" % fld for s_ in ws for c, truth, d, *_ in controlling(mb, s_.bb)):
            R.ok("closed-marker-marks", fn.split("::")[-2] + "::mark_vsock_closed", "%s = true unless already set" % fld.split(".")[1])
        else:
            R.fail([fn, "vsock_closed-not-set-when-open"], "%s no longer sets the closed flag when the half is still open: the user half is never told that the connection ended (reads/writes hang)" % fn.split("::", 1)[1], where=mb.where(), instance="closed-marker-marks")
    poll = R.body(VS + "::poll")
    jbd = [t.bb for t in poll.calls() if call_matches(t, ("VirtualSocket::just_before_death",))]
    R.floor("just_before_death call sites in poll", len(jbd), 9)
    n = 0
    for it, cls in ret_assignments(poll):
        if not cls.startswith("Ready"):
            continue
        n += 1
        if "BugUnreachable" in cls:
            R.ok("Ready=>death-path", "poll fall-through", "audited: unreachable fall-through after `while restart`", verdict="audited")
            continue
        ok, bad = must_pass_blocks(poll, [it.bb], set(jbd))
        if ok:
            R.ok("Ready=>death-path", "%s %s" % (poll.name, cls), "dominated by just_before_death")
        else:
            path = shortest_path(poll, 0, [it.bb], removed_blocks=set(jbd))
            R.fail([poll.name, "Ready-exit-without(just_before_death)", cls], "poll can complete (%s) without running just_before_death: reader/writer halves are not told the connection is gone" % cls,
                   where=it.where(), witness=path_lines(poll, path), instance="Ready=>death-path")
    R.floor("Ready exits of poll", n, 10)
    # the death path itself
    j = R.body(VS + "::just_before_death")
    rets = j.return_blocks()
    for callee in ("stream_rx::UserRx::mark_vsock_closed", "stream_tx::UserTx::mark_vsock_closed"):
        bbs = {t.bb for t in j.calls() if call_matches(t, (callee,))}
        ok, bad = must_pass_blocks(j, rets, bbs)
        if ok and bbs:
            R.ok("death-path-marks-closed", callee.split("::")[-2] + "::mark_vsock_closed", "called on every path of just_before_death")
        else:
            R.fail([j.name, "path-without", callee], "just_before_death can return without calling %s" % callee, where=j.where(), instance="death-path-marks-closed")
    # Some(err) => enqueue_error, and before mark_vsock_closed
    # just_before_death(&mut self, cx, error: Option<&Error>)
    err_local = 3 if j.arg_count >= 3 and "Option<" in j.local_ty(3) else None
    R.require(err_local is not None, "third parameter (Option<&Error>) of just_before_death")

    def step(it, s):
        val, enq, closed_first = s
        if isinstance(it, Term) and it.kind == "call":
            if call_matches(it, ("stream_rx::UserRx::enqueue_error",)):
                return (val, True, closed_first)
            if call_matches(it, ("stream_rx::UserRx::mark_vsock_closed",)) and not enq:
                return (val, enq, True)
        return None

    def edge(term, tgt, label, s):
        val, enq, cf = s
        c, var = variant_of_edge(j, term, label)
        if c is not None and var is not None and c.trace.kind == "param" and c.trace.root[1] == err_local and not c.trace.fields:
            if val is not None and val != var:
                return []
            return [(var, enq, cf)]
        return None
    res = typestate(j, [(None, False, False)], step, edge)
    bad = None
    for bb, states in res.exits.items():
        for s in states:
            if s[0] == "Some" and (not s[1]):
                bad = (bb, s)
    if bad:
        R.fail([j.name, "Some(err)-without(enqueue_error-before-mark_vsock_closed)"], "just_before_death with an error can finish without enqueueing the error for the reader (before closing it): the reader would see a clean EOF/closed instead of the failure",
               where=j.where(), witness=res.witness_lines(*bad), instance="death-path-error-first")
    else:
        R.ok("death-path-error-first", j.name, "error => enqueue_error on every path")
    # order: enqueue_error not reachable after user_rx.mark_vsock_closed
    mv = [t for t in j.calls() if call_matches(t, ("stream_rx::UserRx::mark_vsock_closed",))]
    enq = [t for t in j.calls() if call_matches(t, ("stream_rx::UserRx::enqueue_error",))]
    R.floor("enqueue_error call in just_before_death", len(enq), 1)
    late = [e for e in enq if any(e.bb in j.reachable(m.bb) and e.bb != m.bb for m in mv)]
    if late:
        R.fail([j.name, "enqueue_error-after-mark_vsock_closed"], "the error is enqueued after the reader was already told the socket is closed (a woken reader may miss it)", where=late[0].where(), instance="death-path-order")
    else:
        R.ok("death-path-order", j.name, "enqueue_error precedes mark_vsock_closed")
    d = R.body("<stream_dispatch::VirtualSocket as std::ops::Drop>::drop")
    for callee in ("stream_rx::UserRx::mark_vsock_closed", "stream_tx::UserTx::mark_vsock_closed"):
        bbs = {t.bb for t in d.calls() if call_matches(t, (callee,))}
        ok, bad = must_pass_blocks(d, d.return_blocks(), bbs)
        if ok and bbs:
            R.ok("drop-marks-closed", callee.split("::")[-2], "Drop for VirtualSocket (cancellation path)")
        else:
            R.fail([d.name, "path-without", callee], "Drop for VirtualSocket does not call %s: a cancelled connection leaves that half hanging" % callee, where=d.where(), instance="drop-marks-closed")
    # UserRx drop also closes (defence in depth) - census only
    # mark_vsock_closed of the reader must set the flag (C02.1 then forces the wake)
    m = R.body("stream_rx::UserRx::mark_vsock_closed")
    if any(written_field(m, s) == "UserRxSharedLocked.vsock_closed" for s in m.stmts()):
        R.ok("mark_vsock_closed-sets-flag", m.name)
    else:
        R.fail([m.name, "no-write(UserRxSharedLocked.vsock_closed)"], "UserRx::mark_vsock_closed no longer sets vsock_closed", where=m.where(), instance="mark_vsock_closed-sets-flag")
    m = R.body("stream_tx::UserTxLocked::mark_vsock_closed")
    if any(written_field(m, s) == "UserTxLocked.vsock_closed" for s in m.stmts()):
        R.ok("mark_vsock_closed-sets-flag", m.name)
    else:
        R.fail([m.name, "no-write(UserTxLocked.vsock_closed)"], "UserTxLocked::mark_vsock_closed no longer sets vsock_closed", where=m.where(), instance="mark_vsock_closed-sets-flag")


@rule("C03.4", ["C03", "C08"], ["E2"], "failure detection exists on every poll",
      "The exit Ready(Err(RemoteInactiveForTooLong)) of poll is control-dependent on timers.remote_inactivity_timer.expired(now) = true, and that check dominates the final Pending (C02.6); "
      "readers learn of failures: poll_read_vectored returns Ready(Err) when a queued Error message is popped and when vsock_closed is observed with an empty queue.")
def c03_4(R):
    poll = R.body(VS + "::poll")
    found = 0
    for it, cls in ret_assignments(poll):
        if "RemoteInactiveForTooLong" in cls:
            found += 1
            ce = controlling_edges(poll, it.bb)
            ok = any(cond_is(poll, t, lab, lambda c, v: c.kind == "call" and v and call_matches(c.call, ("stream_dispatch::Timer::expired",)) and trace(poll, c.call.args[0]).last_field == "Timers.remote_inactivity_timer") for t, tgt, lab in ce)
            if ok:
                R.ok("inactivity=>error-exit", poll.name, "Err(RemoteInactiveForTooLong) under remote_inactivity_timer.expired()=true")
            else:
                R.fail([poll.name, "RemoteInactiveForTooLong", "not-guarded-by(expired)"], "inactivity error exit is not controlled by the inactivity timer", where=it.where(), instance="inactivity=>error-exit")
    # classification may hide the variant behind a local: fall back to looking for the aggregate
    if not found:
        for s in poll.stmts():
            if s.rv.kind == "agg" and s.rv.j.get("variant") == "RemoteInactiveForTooLong":
                found += 1
                ce = controlling_edges(poll, s.bb)
                ok = any(cond_is(poll, t, lab, lambda c, v: c.kind == "call" and v and call_matches(c.call, ("stream_dispatch::Timer::expired",)) and trace(poll, c.call.args[0]).last_field == "Timers.remote_inactivity_timer") for t, tgt, lab in ce)
                if ok:
                    R.ok("inactivity=>error-exit", poll.name, "Error::RemoteInactiveForTooLong built under remote_inactivity_timer.expired()=true")
                else:
                    R.fail([poll.name, "RemoteInactiveForTooLong", "not-guarded-by(expired)"], "inactivity error is not controlled by the inactivity timer", where=s.where(), instance="inactivity=>error-exit")
    R.floor("RemoteInactiveForTooLong exit", found, 1)
    # reader side
    pr = R.body(POLL_READV)
    errs = [(it, cls) for it, cls in ret_assignments(pr) if cls.startswith("Ready(Err")]
    R.floor("Ready(Err) exits of poll_read_vectored", len(errs), 3)
    kinds = set()
    for it, cls in errs:
        for t, tgt, lab in controlling_edges(pr, it.bb):
            d = describe_cond(pr, t, lab)
            if d.endswith("=Error"):
                kinds.add("popped-Error")
            if d.startswith("var:") and d.endswith("=true"):
                kinds.add("dispatcher_dead")
    for k in ("popped-Error", "dispatcher_dead"):
        if k in kinds:
            R.ok("reader-sees-failure:" + k, pr.name)
        else:
            R.fail([pr.name, "no-error-exit-for", k], "poll_read_vectored has no error exit for %s" % k, where=pr.where(), instance="reader-sees-failure:" + k)
    # dispatcher_dead is set only under vsock_closed = true


@rule("C03.5", ["C03", "C08"], ["E3"], "a reader that finds the queue empty and the connection closed gets an error, never a clean EOF or Pending",
      "In poll_read_vectored, on every path after the edge UserRxSharedLocked.vsock_closed = true (taken only when queue.pop_front() returned None) the exit is Ready(Err(_)) or Ready(Ok(written)) "
      "with bytes already copied; it is never Poll::Pending and never Ready(Ok(0)) other than the exit control-dependent on is_eof = true. Boolean locals are tracked as predicate bits.")
def c03_5(R):
    from utpsa.preds import ZeroTracker
    b = R.body(POLL_READV)
    zt = ZeroTracker(b)
    eof_ok_blocks = set()
    for it, cls in ret_assignments(b):
        if cls == "Ready(Ok(const:0))":
            descs = [d for c, truth, d, *_ in controlling(b, it.bb)]
            if any("UtpStreamReadHalf.is_eof=true" in d for d in descs):
                eof_ok_blocks.add(it.bb)
    dead_edges = set()
    for blk in b.blocks:
        if blk.cleanup or blk.term.kind != "switch" or blk.idx not in b.live_blocks():
            continue
        c, neg = switch_cond(b, blk.term)
        if c.kind == "field" and c.trace.last_field == "UserRxSharedLocked.vsock_closed":
            be = bool_edges(b, blk.idx)
            dead_edges.add((blk.idx, be[0] if neg else be[1]))
    R.floor("observation of vsock_closed in poll_read_vectored", len(dead_edges), 1)

    def step(it, s):
        dead, z, cls, clsbb = s
        ch = False
        c = ret_class_of(b, it)
        if c is not None:
            cls, clsbb, ch = c, it.bb, True
        nz = zt.step(it, z)
        if nz is not None:
            z, ch = nz, True
        return (dead, z, cls, clsbb) if ch else None

    def edge(term, tgt, label, s):
        dead, z, cls, clsbb = s
        r = zt.edge(term, tgt, label, z)
        if r is False:
            return []
        if (term.bb, tgt) in dead_edges:
            dead = True
        return [(dead, r, cls, clsbb)]
    res = typestate(b, [(False, frozenset(), None, None)], step, edge)
    bad = None
    n = 0
    for bb, states in res.exits.items():
        for s in states:
            dead, z, cls, clsbb = s
            if not dead:
                continue
            n += 1
            if cls == "Pending" or (cls == "Ready(Ok(const:0))" and clsbb not in eof_ok_blocks):
                if bad is None:
                    bad = (bb, s)
    if bad:
        R.fail([b.name, "closed-and-empty", "exit=" + str(bad[1][2])],
               "after the reader found the queue empty on a closed connection poll_read_vectored can return %s: an aborted connection reads as a clean end-of-stream (or hangs) instead of failing" % bad[1][2],
               where=b.where(), witness=res.witness_lines(bad[0], bad[1]), instance="dead-dispatcher=>error")
    else:
        R.ok("dead-dispatcher=>error", b.name, "all %d exit states after observing vsock_closed are errors or return copied bytes" % n)
