"""C19 send-side buffering: the ring is the only store; returned count = pushed count; growth bounded and order-preserving."""
from .common import *
from .c02 import POLL_WRITE, VS
from utpsa.bounds import Bounds, fmt as fmt_ub, TOP
from utpsa.flow import controlling_edges


@rule("C19.1", ["C19"], ["E1", "E4"], "write reports exactly what the ring accepted",
      "poll_write returns Ready(Ok(n)) with n <- the result of producer.push_slice(buf) (not buf.len()); the exit for n == 0 is Pending (with writer_waker registered, C02.2); "
      "push_slice is given the caller's buf unchanged. The ring being the only store of accepted bytes is C01.3.")
def c19_1(R):
    pw = R.body(POLL_WRITE)
    push = [t for t in pw.calls() if call_matches(t, ("Producer::push_slice",))]
    R.require(len(push) == 1, "push_slice in poll_write")
    p = push[0]
    if trace(pw, p.args[1]).kind == "param" and trace(pw, p.args[1]).root[1] == 3:  # poll_write(self, cx, buf)
        R.ok("push(buf)", pw.name)
    else:
        R.fail([pw.name, "push_slice-arg", trace(pw, p.args[1]).describe()], "poll_write pushes something other than the caller's buffer", where=p.where(), instance="push(buf)")
    n = 0
    for it, cls in ret_assignments(pw):
        if cls.startswith("Ready(Ok"):
            n += 1
            okv = False
            if isinstance(it, Stmt) and it.rv.ops:
                t = trace(pw, it.rv.ops[0])
                if t.kind == "rv" and t.root[1].rv.kind == "agg" and t.root[1].rv.ops:
                    v = trace(pw, t.root[1].rv.ops[0])
                    if v.kind == "call" and v.root[1] is p:
                        okv = True
            if okv:
                R.ok("Ok(n)=pushed", pw.name, "n is push_slice's return value")
            else:
                R.fail([pw.name, "Ok(n)-source", cls], "poll_write reports a byte count that is not what the ring accepted (bytes lost or invented)", where=it.where(), instance="Ok(n)=pushed")
    R.floor("Ready(Ok) exits of poll_write", n, 1)
    # n == 0 => Pending
    okz = False
    for it, cls in ret_assignments(pw):
        if cls == "Pending":
            for c, truth, d, *_ in controlling(pw, it.bb):
                if c.kind == "bin" and c.op == "Eq" and truth and c.b.kind == "const" and c.b.scalar == 0:
                    v = trace(pw, c.a)
                    if v.kind == "call" and v.root[1] is p:
                        okz = True
    if okz:
        R.ok("full=>Pending", pw.name, "count == 0 => Pending (back-pressure)")
    else:
        R.fail([pw.name, "no-Pending-on(count==0)"], "a full buffer no longer makes write wait", where=pw.where(), instance="full=>Pending")


@rule("C19.2", ["C19", "C01", "C03"], ["E5", "E4", "E3"], "growth is bounded by the configured maximum and copies the content in order",
      "UserTx::grow: new capacity = min(cap * 2, max_size) (carries the bound <= max_size); returns None under cap >= max_size; the new ring receives push_slice(first) then push_slice(second) with "
      "(first, second) = fields (0, 1) of cons.as_slices(); producer and consumer halves are both replaced, while both guards are alive; RingBuf::new is called only in UserTx::new and grow; "
      "the dispatcher calls grow only with opts.vsock_tx_bufsize_bytes_max.")
def c19_2(R):
    F = R.facts
    B = Bounds(F)
    g = R.body("stream_tx::UserTx::grow")
    def is_ring_new(t):
        r = t.resolved or ""
        return "ringbuf::SharedRb" in r and r.endswith("::new")
    news = [t for t in g.calls() if is_ring_new(t)]
    R.require(len(news) == 1, "RingBuf::new in grow")
    u = B.ub(g, news[0].args[0])
    has_max = u is TOP or any(x[0] == "param" and x[1] == 2 for x in u) or any(x == ("call", "std::num::NonZero::get") for x in u)
    shape = False
    sel = select_minmax(g, news[0].args[0])
    if sel is not None and sel[0] == "min":
        for a, b_ in ((sel[1], sel[2]), (sel[2], sel[1])):
            if a.kind == "rv" and a.root[1].rv.kind == "bin" and a.root[1].rv.op.startswith("Mul") and a.root[1].rv.ops[1].scalar == 2 and b_.kind == "param" and b_.root[1] == 2:  # grow(self, max_size)
                shape = True
    if shape:
        R.ok("new-cap=min(2cap,max)", g.name, "ub = " + fmt_ub(u))
    else:
        R.fail([g.name, "new-capacity-shape", "ub=" + fmt_ub(u)], "the grown capacity is no longer min(cap * 2, max_size): the buffer can exceed the configured maximum", where=news[0].where(), instance="new-cap=min(2cap,max)")
    okn = False
    for it, cls in ret_assignments(g):
        if cls == "None":
            for c, truth, d, *_ in controlling(g, it.bb):
                for r_, x_, y_ in implied(c, truth):
                    if r_ == "le" and trace(g, x_).kind == "param" and trace(g, x_).root[1] == 2:  # max_size <= cap
                        okn = True
    if okn:
        R.ok("at-max=>None", g.name)
    else:
        R.fail([g.name, "no-None-on(cap>=max)"], "grow no longer refuses to grow at the maximum", where=g.where(), instance="at-max=>None")
    # copy order
    pushes = [t for t in g.calls() if call_matches(t, ("Producer::push_slice",))]
    order = []
    for t_ in pushes:
        v = trace(g, t_.args[1])
        recv = trace(g, t_.args[0])
        newrb = recv.kind == "call" and recv.root[1] is news[0] or (recv.kind == "call" and is_ring_new(recv.root[1]))
        if v.kind == "call" and call_matches(v.root[1], ("Consumer::as_slices",)) and trace(g, v.root[1].args[0]).last_field == "UserTx.consumer" and newrb:
            order.append(([f for f in v.fields if f.startswith("tuple.")] or ["?"])[0])
    seq_ok = order == ["tuple.0", "tuple.1"] and len(pushes) == 2 and pushes[1].bb in g.reachable(pushes[0].bb) and pushes[0].bb != pushes[1].bb
    if seq_ok:
        R.ok("copy-in-order", g.name, "push_slice(as_slices().0) then push_slice(as_slices().1) into the new ring")
    else:
        R.fail([g.name, "copy-order", ",".join(order)], "grow no longer copies the old content as (first, second) in that order: buffered bytes are lost, duplicated or reordered", where=g.where(), instance="copy-in-order")
    # both halves replaced while both guards are alive
    repl = [s for s in g.stmts() if s.place.proj == ["*"] and "ringbuf::" in g.local_ty(s.place.local)]
    kinds = set()
    for s in repl:
        t_ = trace(g, Place({"l": s.place.local, "p": []}))
        kinds.add(t_.last_field)
    drops = [b_.term for b_ in g.blocks if not b_.cleanup and b_.term.kind == "drop" and "MutexGuard" in b_.term.j.get("plty", "")]
    held = all(not any(s.bb in g.reachable(d.bb) and s.bb != d.bb for d in drops if d.bb not in g.reachable(s.bb) or True if False) for s in repl)
    early = [d for d in drops if any(s.bb in g.reachable(d.bb) and d.bb != s.bb for s in repl)]
    if kinds == {"UserTx.producer", "UserTx.consumer"} and not early:
        R.ok("both-halves-swapped-under-locks", g.name, "*prod and *cons replaced before either guard is dropped")
    else:
        R.fail([g.name, "swap", "replaced=%s guard-dropped-before-swap=%d" % (sorted(str(k) for k in kinds), len(early))], "grow does not replace both ring halves while holding both locks: writer and dispatcher can see halves of different rings", where=g.where(), instance="both-halves-swapped-under-locks")
    # ... and the writer is locked out BEFORE the old content is snapshotted: a poll_write between the snapshot and the swap pushes into the ring that is about to be dropped
    plocks = [t for t in g.calls() if (t.resolved or t.callee or "").split("<")[0].endswith("Mutex::lock") and t.args and trace(g, t.args[0]).last_field == "UserTx.producer"]
    snaps = [t for t in g.calls() if (t.resolved or t.callee or "").endswith("as_slices")]
    R.floor("as_slices() snapshot in grow", len(snaps), 1)
    dom_ = g.dominators()
    for sn in snaps:
        pre = [pl for pl in plocks if (pl.bb in dom_.get(sn.bb, ()) and pl.bb != sn.bb) or (pl.bb == sn.bb and pl.idx < sn.idx)]
        # the guard taken there must still be alive at the snapshot
        alive = []
        for pl in pre:
            gl = pl.dest.local if pl.dest is not None else None
            dropped = [b_.term for b_ in g.blocks if not b_.cleanup and b_.term.kind == "drop" and b_.term.j.get("pl", {}).get("l") == gl and sn.bb in g.reachable(b_.idx) and b_.idx in g.reachable(pl.bb)]
            moved_into_temp = "MutexGuard" not in (g.local_ty(gl) or "")
            if not dropped and not moved_into_temp:
                alive.append(pl)
        if alive:
            R.ok("writer-locked-out-before-snapshot", g.name, "producer.lock() dominates cons.as_slices() and its guard is alive there")
        else:
            R.fail([g.name, "snapshot-before(producer.lock)"], "grow copies the old ring's content before the producer lock is held: a write that lands between the copy and the swap is accepted into the ring "
                   "that is then discarded - bytes vanish from the middle of the stream while write() returned Ok", where=sn.where(), instance="writer-locked-out-before-snapshot")
    for b, t_ in [(b, t) for b in F.bodies() for t in b.calls() if is_ring_new(t)]:
        fn = owner_fn(b)
        if fn in ("stream_tx::UserTx::new", "stream_tx::UserTx::grow"):
            R.ok("ring-constructors", fn)
        else:
            R.fail([fn, "call", "RingBuf::new"], "a ring buffer is created outside UserTx::new / grow", where=t_.where(), instance="ring-constructors")
    for b, t_ in census_calls(R, F, ("stream_tx::UserTx::grow",)):
        a = trace(b, t_.args[1])
        if a.last_field == "ValidatedSocketOpts.vsock_tx_bufsize_bytes_max":
            R.ok("grow-limit-source", owner_fn(b), "grow(opts.vsock_tx_bufsize_bytes_max)")
        else:
            R.fail([owner_fn(b), "grow-arg", a.describe()], "grow is called with a limit other than the configured maximum", where=t_.where(), instance="grow-limit-source")
    un = R.body("stream_tx::UserTx::new")
    for t_ in un.calls():
        if is_ring_new(t_):
            a = trace(un, t_.args[0])
            if a.kind == "param" and a.root[1] == 1:  # UserTx::new(capacity)
                R.ok("initial-capacity", un.name, "RingBuf::new(capacity.get())")
            else:
                R.fail([un.name, "initial-capacity", a.describe()], "the initial ring is not sized by the configured initial capacity", where=t_.where(), instance="initial-capacity")
