"""C06 retransmission discipline: bounded, back-off, fast retransmit, stable content."""
from .common import *
from .c02 import VS, send_data_closures
from .c05 import send_sites, STQ
from utpsa.flow import controlling_edges, describe_cond

SEGS = "stream_tx_segments::Segments"


def closure_of_arg(body, op):
    t = trace(body, op)
    if t.kind == "rv" and t.root[1].rv.kind == "agg" and t.root[1].rv.j["ak"] == "closure":
        return body.facts.body(t.root[1].rv.j["closure"])
    return None


def closure_returns_not_call(cb, callee):
    """closure body is `!x.<callee>()`"""
    for s in cb.stmts():
        if s.place.local == 0 and s.rv.kind == "un" and s.rv.op == "Not":
            t = trace(cb, s.rv.ops[0])
            if t.kind == "call" and call_matches(t.root[1], (callee,)):
                return True
    return False


def closure_returns_le(cb, left_callee, upvar):
    """closure body is `x.<left_callee>() <= <upvar>` through PartialOrd::le on SeqNr"""
    for it in cb.items():
        if isinstance(it, Term) and it.kind == "call" and it.dest.local == 0 and call_matches(it, ("PartialOrd::le",)):
            a, b = trace(cb, it.args[0]), trace(cb, it.args[1])
            if a.kind == "call" and call_matches(a.root[1], (left_callee,)) and b.kind == "upvar" and b.root[1] == upvar:
                return True
    return False


@rule("C06.1", ["C06", "C03"], ["E2", "E6", "E7"], "the retry cap is checked before every data transmission",
      "In each send_data! expansion try_poll_send_to_vectored is control-dependent on `retransmit_count() == max_segment_retransmissions.get()` = false, and the true edge returns "
      "Err(MaxRetransmissionsReached); SegmentForSending::on_sent moves NotSent -> SentTime -> Retransmitted{count: 1} -> Retransmitted{count + 1} (the count grows by one per transmission).")
def c06_1(R):
    cls = send_data_closures(R)
    R.floor("send_data! expansions", len(cls), 3)
    for c in cls:
        sends = [t for t in c.calls() if call_matches(t, ("UtpSocket::try_poll_send_to_vectored",))]
        for t in sends:
            ok = False
            for tt, tgt, lab in controlling_edges(c, t.bb):
                cd, neg = switch_cond(c, tt)
                pol = (lab[1] != 0) if lab[0] == "val" else (0 in lab[1])
                if neg:
                    pol = not pol
                for r_, x_, y_ in implied(cd, pol):
                    if r_ != "ne":
                        continue
                    ta, tb = trace(c, x_), trace(c, y_)
                    a_cnt = ta.kind == "call" and call_matches(ta.root[1], ("SegmentForSending::retransmit_count",))
                    b_max = "max_segment_retransmissions" in tb.describe()
                    if a_cnt and b_max:
                        ok = True
            if ok:
                R.ok("send=>below-retry-cap", "send_data! expansion", "send only when retransmit_count() != max_segment_retransmissions")
            else:
                R.fail([owner_fn(c), "send_data", "transmit-not-guarded-by(retry-cap)"], "a data segment can be (re)transmitted without the max_segment_retransmissions check: a black-holed segment is retried forever", where=t.where(), instance="send=>below-retry-cap")
        errs = [cl for it, cl in ret_assignments(c) if "MaxRetransmissionsReached" in cl]
        if errs:
            R.ok("cap-reached=>error", "send_data! expansion", errs[0])
        else:
            R.fail([owner_fn(c), "send_data", "no-exit(MaxRetransmissionsReached)"], "send_data! no longer fails with MaxRetransmissionsReached", where=c.where(), instance="cap-reached=>error")
    # on_sent table
    os_ = R.body("stream_tx_segments::SegmentForSending::on_sent")
    table = {}
    for s in os_.stmts():
        if s.rv.kind == "agg" and s.rv.j.get("adt") == "stream_tx_segments::SentStatus":
            conds = [describe_cond(os_, t, lab) for t, tgt, lab in controlling_edges(os_, s.bb)]
            frm = [c.split("=")[-1] for c in conds if c.startswith("discr:") and "Segment.sent" in c]
            var = s.rv.j["variant"]
            detail = var
            if var == "Retransmitted":
                i = s.rv.j["fields"].index("count")
                o = s.rv.ops[i]
                if o.kind == "const":
                    detail = "Retransmitted{count=%s}" % o.scalar
                else:
                    t = trace(os_, o, through_casts=False)
                    if t.kind == "rv" and t.root[1].rv.kind == "bin" and t.root[1].rv.op.startswith("Add") and t.root[1].rv.ops[1].kind == "const" and t.root[1].rv.ops[1].scalar == 1:
                        detail = "Retransmitted{count+1}"
                    else:
                        detail = "Retransmitted{?}"
            for f in frm:
                table[f] = detail
    want = {"NotSent": "SentTime", "SentTime": "Retransmitted{count=1}", "Retransmitted": "Retransmitted{count+1}"}
    if table == want:
        R.ok("on_sent-table", os_.name, str(table))
    else:
        R.fail([os_.name, "on_sent-table", str(sorted(table.items()))], "SegmentForSending::on_sent no longer counts one retransmission per transmission: %s (expected %s)" % (table, want), where=os_.where(), instance="on_sent-table")
    rc = R.body("stream_tx_segments::Segment::retransmit_count")
    # retransmit_count returns count only for Retransmitted, else 0
    vals = {}
    for it, cl in ret_assignments(rc):
        conds = [describe_cond(rc, t, lab) for t, tgt, lab in controlling_edges(rc, it.bb)]
        frm = [c.split("=")[-1] for c in conds if c.startswith("discr:")]
        for f in frm:
            vals[f] = cl
    if vals.get("NotSent") == "const:0" and vals.get("SentTime") == "const:0" and vals.get("Retransmitted") == "?":
        R.ok("retransmit_count-table", rc.name, str(vals))
    else:
        R.fail([rc.name, "retransmit_count-table", str(sorted(vals.items()))], "retransmit_count no longer returns the stored count", where=rc.where(), instance="retransmit_count-table")


@rule("C06.2", ["C06"], ["E4"], "delivered segments are filtered out of every send iteration",
      "Segments::iter_mut_for_sending returns Iterator::filter(.., |s| !s.is_delivered()); the recovery iterator of send_tx_queue is iter_mut_for_sending(None).take(sack_depth+1)"
      ".skip_while(seq_nr <= high_rxt).take_while(seq_nr <= recovery_point).filter(!is_delivered); SegmentForSending::is_delivered reads Segment.is_delivered; every send site iterates through iter_mut_for_sending.")
def c06_2(R):
    it = R.body(SEGS + "::iter_mut_for_sending")
    rets = [x for x in it.items() if isinstance(x, Term) and x.kind == "call" and x.dest.local == 0]
    ok = False
    for t in rets:
        if call_matches(t, ("Iterator::filter",)):
            cb = closure_of_arg(it, t.args[1])
            if cb is not None and closure_returns_not_call(cb, "SegmentForSending::is_delivered"):
                ok = True
    if ok:
        R.ok("send-iterator-filters-delivered", it.name, "filter(|s| !s.is_delivered())")
    else:
        R.fail([it.name, "no-filter(!is_delivered)"], "iter_mut_for_sending no longer filters out segments the peer already acknowledged (SACKed segments would be retransmitted)", where=it.where(), instance="send-iterator-filters-delivered")
    isd = R.body("stream_tx_segments::SegmentForSending::is_delivered")
    src = set()
    for s in isd.stmts():
        if s.place.local == 0:
            src = value_sources(isd, s.rv.ops[0])
    if src == {("field", "Segment.is_delivered")}:
        R.ok("is_delivered-reads-flag", isd.name)
    else:
        R.fail([isd.name, "sources=" + str(sorted(src))], "SegmentForSending::is_delivered no longer reads Segment.is_delivered", where=isd.where(), instance="is_delivered-reads-flag")
    stq, sites = send_sites(R)
    for s in sites:
        if s["kind"] == "?":
            R.fail([STQ, "send-site-not-from(iter_mut_for_sending)"], "a send_data! site takes its segment from something other than iter_mut_for_sending", where=s["call"].where(), instance="send-site-source")
        else:
            R.ok("send-site-source", s["kind"], "segment <- iter_mut_for_sending(%s) %s" % (s["start"], ".".join(a.split("::")[-1] for a in s["adapters"])))
    rec = [s for s in sites if s["kind"] == "recovery"]
    R.require(len(rec) == 1, "one recovery send site")
    ad = [a.split("::")[-1] for a in rec[0]["adapters"]]
    # adapters are collected innermost-last while walking backwards: normalise to application order
    ad_app = list(reversed(ad))
    if ad_app == ["take", "skip_while", "take_while", "filter"]:
        R.ok("recovery-iterator-shape", STQ, ".".join(ad_app))
    else:
        R.fail([STQ, "recovery-iterator", ".".join(ad_app)], "the recovery iterator is no longer take.skip_while.take_while.filter", where=rec[0]["call"].where(), instance="recovery-iterator-shape")
    # the closures of the adapters
    checks = {"skip_while": lambda cb: closure_returns_le(cb, "SegmentForSending::seq_nr", "high_rxt"),
              "take_while": lambda cb: closure_returns_le(cb, "SegmentForSending::seq_nr", "recovery_point"),
              "filter": lambda cb: closure_returns_not_call(cb, "SegmentForSending::is_delivered")}
    for t in stq.calls():
        for name, chk in checks.items():
            if call_matches(t, ("Iterator::" + name,)) and len(t.args) == 2:
                cb = closure_of_arg(stq, t.args[1])
                if cb is not None and chk(cb):
                    R.ok("recovery-iterator:" + name, STQ, {"skip_while": "seq_nr <= high_rxt", "take_while": "seq_nr <= recovery_point", "filter": "!is_delivered"}[name])
                else:
                    R.fail([STQ, "recovery-iterator", name + "-predicate-changed"], "the %s predicate of the recovery iterator changed" % name, where=t.where(), instance="recovery-iterator:" + name)


@rule("C06.3", ["C06", "C16"], ["E2", "E1"], "RTT samples only from never-retransmitted segments (Karn)",
      "Segment::update_rtt writes the sample only on the SentStatus::SentTime variant; SentStatus::Retransmitted is produced only by on_sent; RttEstimator::sample is called only with OnAckResult.new_rtt "
      "(outside recovery) and the initial handshake RTT.")
def c06_3(R):
    F = R.facts
    ur = R.body("stream_tx_segments::Segment::update_rtt")
    writes = [s for s in ur.stmts() if s.place.proj == ["*"] and ur.is_param(s.place.local)]
    R.floor("write of *rtt in update_rtt", len(writes), 1)
    for s in writes:
        conds = [describe_cond(ur, t, lab) for t, tgt, lab in controlling_edges(ur, s.bb)]
        if any(c.endswith("=SentTime") and "Segment.sent" in c for c in conds):
            R.ok("karn", ur.name, "sample only when sent == SentTime (never retransmitted)")
        else:
            R.fail([ur.name, "rtt-sample-not-under(SentTime)", "guards=" + ",".join(sorted(conds))], "an RTT sample can be taken from a retransmitted (ambiguous) segment", where=s.where(), instance="karn")
    for b in F.bodies():
        for s in b.stmts():
            if s.rv.kind == "agg" and s.rv.j.get("adt") == "stream_tx_segments::SentStatus" and s.rv.j["variant"] in ("SentTime", "Retransmitted"):
                if b.name == "stream_tx_segments::SegmentForSending::on_sent":
                    R.ok("sent-status-producer", b.name, s.rv.j["variant"])
                else:
                    R.fail([owner_fn(b), "construct", "SentStatus::" + s.rv.j["variant"]], "sent status constructed outside on_sent", where=s.where(), instance="sent-status-producer")
    n = 0
    for b, t in census_calls(R, F, ("rtte::RttEstimator::sample",)):
        n += 1
        fn = owner_fn(b)
        src = value_sources(b, t.args[1])
        if fn == VS + "::process_incoming_message":
            R.ok("rtt-sample-callers", fn, "sample(new_rtt)")
        elif fn == "stream_dispatch::UtpStreamStarter::new":
            R.ok("rtt-sample-callers", fn, "handshake RTT")
        else:
            R.fail([fn, "call", "RttEstimator::sample"], "RTT estimator sampled from an unaudited site", where=t.where(), instance="rtt-sample-callers")
    R.floor("RttEstimator::sample call sites", n, 2)


@rule("C06.4", ["C06", "C01", "C14"], ["E1"], "every transmission of a sequence number carries the same bytes",
      "Segment.payload_size and Segment.payload_offset_absolute are never assigned after construction; Segment is constructed only in Segments::enqueue; the only way a sequence number is re-segmented is "
      "the pop of a never-delivered MTU probe (pop_mtu_probe / pop_expired_mtu_probe control-dependent on is_mtu_probe and !is_delivered).")
def c06_4(R):
    F = R.facts
    for fld in ("Segment.payload_size", "Segment.payload_offset_absolute"):
        w = census_field_writes(F, fld)
        if w:
            for b, s in w:
                R.fail([owner_fn(b), "write(%s)" % fld], "%s is modified after the segment was created: a retransmission would carry different bytes" % fld, where=s.where(), instance="segment-immutable:" + fld)
        else:
            R.ok("segment-immutable:" + fld, "crate-wide", "no assignment outside the constructor aggregate")
    n = 0
    for b in F.bodies():
        for s in b.stmts():
            if s.rv.kind == "agg" and s.rv.j.get("adt") == "stream_tx_segments::Segment":
                n += 1
                if b.name == SEGS + "::enqueue":
                    R.ok("segment-constructor", b.name)
                else:
                    R.fail([owner_fn(b), "construct", "Segment"], "Segment constructed outside Segments::enqueue", where=s.where(), instance="segment-constructor")
    R.floor("Segment aggregates", n, 1)
    # back-removals that are not re-inserted: only probes that were never delivered
    for name in ("pop_mtu_probe", "pop_expired_mtu_probe"):
        b = R.body(SEGS + "::" + name)
        decs = [s for s in b.stmts() if (lambda fu: fu and fu.field == "Segments.len_bytes" and fu.op == "-=")(field_update(b, s))]
        # ... or the same bookkeeping done through a private counter helper
        lb = {"Segments.len_bytes-=": ("Segments.len_bytes", "-=", None)}
        decs += [t for t in b.calls() if t.j.get("res_local") and t.resolved != b.name and counter_helper_summary(F, t.resolved, "Segments.segments", lb)]
        R.floor("len_bytes -= in " + name, len(decs), 1)
        for s in decs:
            conds = [describe_cond(b, t, lab) for t, tgt, lab in controlling_edges(b, s.bb)]
            probe = any(("Segment.is_mtu_probe" in c and c.endswith("=true")) or "discr" in c and False for c in conds) or any("is_mtu_probe" in c and c.endswith("=true") for c in conds)
            undeliv = any("Segment.is_delivered" in c and c.endswith("=false") for c in conds)
            if name == "pop_expired_mtu_probe":
                # the match is on the tuple (retransmit_timed_out, s.is_mtu_probe): look for the tuple field
                probe = probe or any("tuple.1" in c and c.endswith("=true") for c in conds)
            if probe and undeliv:
                R.ok("resegment-only-undelivered-probe", b.name, "removal under is_mtu_probe && !is_delivered")
            else:
                R.fail([b.name, "removal-not-under(is_mtu_probe&&!is_delivered)", "guards=" + ",".join(sorted(conds))], "%s can remove (and thereby re-segment) a segment that is not an undelivered MTU probe" % name, where=s.where(), instance="resegment-only-undelivered-probe")


@rule("C06.5", ["C06", "C02", "C16", "C15", "C05"], ["E3"], "an RTO retransmission backs off: congestion controller, RTO estimator and recovery are told, then the timer is re-armed",
      "Both RTO paths of send_tx_queue (first undelivered segment, FIN) call congestion_controller.on_retransmission_timeout, rtte.on_rto_timeout and recovery.on_rto_timeout and then "
      "timers.retransmit.arm(restart = true), under timers.retransmit.expired() = true; for a data segment they are skipped only for MTU probes.")
def c06_5(R):
    stq = R.body(STQ)
    cc = [t for t in stq.calls() if call_matches(t, ("CongestionController::on_retransmission_timeout",))]
    R.floor("on_retransmission_timeout call sites in send_tx_queue", len(cc), 2)
    rt = {t.bb for t in stq.calls() if call_matches(t, ("rtte::RttEstimator::on_rto_timeout",))}
    rc = {t.bb for t in stq.calls() if call_matches(t, ("recovery::Recovery::on_rto_timeout",))}
    arm = {t.bb for t in stq.calls() if call_matches(t, ("stream_dispatch::Timer::arm",)) and trace(stq, t.args[0]).last_field == "Timers.retransmit" and t.args[3].kind == "const" and t.args[3].scalar == 1}
    rets = stq.return_blocks()
    for t in cc:
        conds = [describe_cond(stq, tt, lab) for tt, tgt, lab in controlling_edges(stq, t.bb)]
        if not any(c == "call:Timer::expired=true" for c in conds):
            R.fail([STQ, "on_retransmission_timeout-not-under(retransmit.expired)"], "congestion back-off is invoked outside the RTO-expired path", where=t.where(), instance="rto-backoff-sequence")
            continue
        missing = []
        for nm, blocks in (("rtte.on_rto_timeout", rt), ("recovery.on_rto_timeout", rc), ("retransmit.arm(restart=true)", arm)):
            ok, bad = must_pass_blocks(stq, rets, blocks, start=t.bb)
            if not ok or not blocks:
                missing.append(nm)
        if missing:
            R.fail([STQ, "rto-path", "missing=" + ",".join(missing)], "after an RTO retransmission the path can finish without %s" % ", ".join(missing), where=t.where(), instance="rto-backoff-sequence")
        else:
            R.ok("rto-backoff-sequence", stq.src_line(t.loc)[:40] + " @" + ("fin" if any("maybe_send_fin" in c or "our_fin" in c for c in conds) else "segment"), "cc + rtte + recovery back-off, then arm(restart=true)")
    # data path: skipped only for probes
    incs = [s for s in stq.stmts() if (lambda fu: fu and fu.field == "VirtualSocket.rto_retransmissions" and fu.op == "+=")(field_update(stq, s))]
    R.require(len(incs) == 1, "rto_retransmissions += 1")
    probe_edges_true = set()
    for blk in stq.blocks:
        if blk.cleanup or blk.term.kind != "switch":
            continue
        c, neg = switch_cond(stq, blk.term)
        if c.kind == "call" and call_matches(c.call, ("SegmentForSending::is_mtu_probe",)):
            be = bool_edges(stq, blk.idx)
            probe_edges_true.add((blk.idx, be[0] if neg else be[1]))
    R.require(probe_edges_true, "is_mtu_probe test on the RTO path")
    # without taking the probe edge, the increment is reachable only through the cc call
    reach = stq.reachable(0, removed_edges=probe_edges_true, removed_blocks={t.bb for t in cc})
    if incs[0].bb in reach:
        R.fail([STQ, "rto-send-of-non-probe-without-backoff"], "an RTO retransmission of an ordinary segment can be counted without telling the congestion controller", where=incs[0].where(), instance="rto-backoff-unless-probe")
    else:
        R.ok("rto-backoff-unless-probe", STQ, "back-off skipped only when seg.is_mtu_probe()")


@rule("C06.6", ["C06"], ["E6", "E7"], "fast retransmit: threshold 3, counted on pure duplicate ACKs / SACK evidence, not during RTO recovery",
      "SACK_DUP_THRESH = 3; Recovery::on_ack calls on_enter_recovery only under `dup_acks >= SACK_DUP_THRESH` = true; count_sack_duplicates returns SACK_DUP_THRESH under "
      "`count_ones >= SACK_DUP_THRESH` = true; count_non_sack_duplicates increments only under htype == ST_STATE && same ack_nr && !window-update; Recovery::on_rto_timeout leaves Recovering for IgnoringUntilRecoveryPoint.")
def c06_6(R):
    F = R.facts
    v = F.const_scalar("constants::SACK_DUP_THRESH")
    if v == 3:
        R.ok("SACK_DUP_THRESH", "constants", "= 3")
    else:
        R.fail(["constants::SACK_DUP_THRESH", str(v)], "SACK_DUP_THRESH is %s, not 3" % v, instance="SACK_DUP_THRESH")
    oa = R.body("recovery::Recovery::on_ack")
    ent = [t for t in oa.calls() if call_matches(t, ("CongestionController::on_enter_recovery",))]
    R.floor("on_enter_recovery call", len(ent), 1)

    def is_thresh(op):
        return op.kind == "const" and (op.const_item == "constants::SACK_DUP_THRESH" or op.scalar == 3)
    for t in ent:
        ok = False
        for tt, tgt, lab in controlling_edges(oa, t.bb):
            c, neg = switch_cond(oa, tt)
            pol = (lab[1] != 0) if lab[0] == "val" else (0 in lab[1])
            # `let should = a >= b; if !should {return}`
            if neg:
                pol = not pol
            o = ordering(c, pol)
            if o is not None and not o[2] and is_thresh(o[0]) and "dup_acks" in trace(oa, o[1]).describe():
                ok = True  # SACK_DUP_THRESH <= dup_acks
        if ok:
            R.ok("enter-recovery<=>dup_acks>=3", oa.name)
        else:
            R.fail([oa.name, "on_enter_recovery-not-under(dup_acks>=SACK_DUP_THRESH)"], "fast recovery is entered on a different duplicate-ACK threshold", where=t.where(), instance="enter-recovery<=>dup_acks>=3")
    cs = R.body("recovery::count_sack_duplicates")
    okc = False
    for it, cl in ret_assignments(cs):
        if cl in ("item:constants::SACK_DUP_THRESH", "const:3"):
            for tt, tgt, lab in controlling_edges(cs, it.bb):
                c, neg = switch_cond(cs, tt)
                pol = (lab[1] != 0) if lab[0] == "val" else (0 in lab[1])
                if neg:
                    pol = not pol
                o = ordering(c, pol)
                if o is not None and not o[2]:
                    ta = trace(cs, o[1])
                    srcb = value_sources(cs, o[0])
                    if ta.kind == "call" and "count_ones" in (ta.root[1].resolved or "") and any(x == ("const", "constants::SACK_DUP_THRESH") or x == ("const", 3) for x in srcb):
                        okc = True
    if okc:
        R.ok("sack-evidence>=3=>threshold", cs.name)
    else:
        R.fail([cs.name, "sack-threshold-shape"], "count_sack_duplicates no longer returns the threshold exactly when >= 3 segments are SACKed", where=cs.where(), instance="sack-evidence>=3=>threshold")
    cn = R.body("recovery::count_non_sack_duplicates")
    incs = [t for t in cn.calls() if call_matches(t, ("saturating_add",)) and t.args[1].kind == "const" and t.args[1].scalar == 1]
    R.floor("dup-ack increment", len(incs), 1)
    for t in incs:
        conds = [describe_cond(cn, tt, lab) for tt, tgt, lab in controlling_edges(cn, t.bb)]
        need = {"st_state": any("PartialEq>::eq=true" in c or ("eq=true" in c and "Type" in c) for c in conds),
                "same_ack": any("SeqNr" in c and "eq=true" in c for c in conds) or sum(1 for c in conds if "eq=true" in c) >= 2,
                "not_window_update": any(c.startswith("var:") and c.endswith("=false") or "is_window_update" in c and c.endswith("=false") for c in conds) or any("is_some_and=false" in c for c in conds)}
        miss = [k for k, v_ in need.items() if not v_]
        if not miss:
            R.ok("dup-ack-conditions", cn.name, "ST_STATE && same ack_nr && !window-update")
        else:
            R.fail([cn.name, "dup-ack-counted-without", ",".join(miss)], "a duplicate ACK is counted without requiring %s (guards: %s)" % (", ".join(miss), ", ".join(sorted(conds))), where=t.where(), instance="dup-ack-conditions")
    ro = R.body("recovery::Recovery::on_rto_timeout")
    okp = False
    for s in ro.stmts():
        if s.rv.kind == "agg" and s.rv.j.get("variant") == "IgnoringUntilRecoveryPoint":
            conds = [describe_cond(ro, t, lab) for t, tgt, lab in controlling_edges(ro, s.bb)]
            if any(c.endswith("=Recovering") for c in conds):
                okp = True
    if okp:
        R.ok("rto-leaves-fast-recovery", ro.name, "Recovering -> IgnoringUntilRecoveryPoint")
    else:
        R.fail([ro.name, "no-transition(Recovering->IgnoringUntilRecoveryPoint)"], "an RTO during fast recovery no longer suspends fast retransmit", where=ro.where(), instance="rto-leaves-fast-recovery")


@rule("C06.7", ["C06"], ["E4", "E2", "E7"], "duplicate-ACK counting and the ends of a recovery episode",
      "count_sack_duplicates returns prev + 1 for a SACK-carrying ACK below the threshold and 0 for a plain cumulative ACK; count_non_sack_duplicates returns prev.saturating_add(1) for a duplicate and 0 "
      "(remembering the new ack_nr / window) otherwise; Recovery::on_ack stores their result back into the same dup_acks it passed in, clears it when the queue is empty, leaves "
      "IgnoringUntilRecoveryPoint exactly under ack_nr >= recovery_point and completes a recovery (on_recovered, back to CountingDuplicates) exactly under ack_nr >= rec.recovery_point.")
def c06_7(R):
    cs = R.body("recovery::count_sack_duplicates")
    cn = R.body("recovery::count_non_sack_duplicates")

    def ret_values(b):
        out = []
        for it, cls in ret_assignments(b):
            if isinstance(it, Stmt) and it.rv.kind == "use":
                bt, k = int_affine(b, it.rv.ops[0])
                out.append((it, cls, bt, k))
            elif isinstance(it, Term):
                out.append((it, cls, None, None))
            else:
                out.append((it, cls, None, None))
        return out
    inc = zero = thr = other = 0
    for it, cls, bt, k in ret_values(cs):
        if bt is not None and bt.kind == "param" and bt.root[1] == 3 and k == 1:
            inc += 1
        elif cls == "const:0":
            zero += 1
        elif cls in ("item:constants::SACK_DUP_THRESH", "const:3"):
            thr += 1
        else:
            other += 1
    if inc == 1 and zero == 1 and thr == 1 and other == 0:
        R.ok("dup-counter(sack)", cs.name, "threshold | prev + 1 | 0")
    else:
        R.fail([cs.name, "return-values", "prev+1=%d zero=%d thresh=%d other=%d" % (inc, zero, thr, other)], "count_sack_duplicates no longer returns {SACK_DUP_THRESH, prev + 1, 0}: duplicate ACKs are not counted (no fast retransmit) or never reset", where=cs.where(), instance="dup-counter(sack)")
    inc = zero = other = 0
    for it, cls in ret_assignments(cn):
        t_ = trace(cn, it.rv.ops[0]) if isinstance(it, Stmt) and it.rv.kind == "use" else None
        if t_ is not None and t_.kind == "call" and (t_.root[1].resolved or "").endswith("saturating_add") and trace(cn, t_.root[1].args[0]).kind == "param" and trace(cn, t_.root[1].args[0]).root[1] == 3 and t_.root[1].args[1].kind == "const" and t_.root[1].args[1].scalar == 1:
            inc += 1
        elif cls == "const:0":
            zero += 1
        else:
            other += 1
    stores = [s_ for s_ in cn.stmts() if s_.place.local == 4 and s_.place.proj == ["*"] and s_.rv.kind in ("agg", "use")]
    if inc == 1 and zero == 1 and other == 0 and stores:
        R.ok("dup-counter(plain)", cn.name, "prev.saturating_add(1) | 0 and remember the ACK")
    else:
        R.fail([cn.name, "return-values", "prev+1=%d zero=%d other=%d remembers=%s" % (inc, zero, other, bool(stores))], "count_non_sack_duplicates no longer returns {prev + 1, 0} / no longer remembers the last ACK", where=cn.where(), instance="dup-counter(plain)")
    oa = R.body("recovery::Recovery::on_ack")
    DA = "RecoveryPhase::CountingDuplicates.dup_acks"
    nst = 0
    for t in oa.calls():
        if call_matches(t, ("recovery::count_sack_duplicates", "recovery::count_non_sack_duplicates")):
            prev_ok = trace(oa, t.args[2]).last_field == DA
            def _wf(s_):
                if s_.place.proj == ["*"]:  # `*dup_acks = ..` through the `&mut` bound by the match
                    return trace(oa, Place({"l": s_.place.local, "p": []})).last_field
                return written_field(oa, s_)
            stored = any(_wf(s_) == DA and (lambda tt: tt.kind == "call" and tt.root[1] is t)(trace(oa, s_.rv.ops[0])) for s_ in oa.stmts() if s_.rv.ops)
            nst += 1
            if prev_ok and stored:
                R.ok("dup-counter-threaded", short_callee(t.resolved), "*dup_acks = f(.., *dup_acks)")
            else:
                R.fail([oa.name, "dup_acks-threading", short_callee(t.resolved), "prev=%s stored=%s" % (prev_ok, stored)], "the duplicate-ACK count is not threaded through %s (passed in and stored back)" % short_callee(t.resolved), where=t.where(), instance="dup-counter-threaded")
    R.floor("duplicate counters called from on_ack", nst, 2)

    def is_ack(o):
        return trace(oa, o).last_field == "UtpHeader.ack_nr"
    # phase changes
    for s_ in oa.stmts():
        if written_field(oa, s_) != "Recovery.phase" or not s_.rv.ops:
            continue
        cls = classify(oa, s_.rv.ops[0])
        if "CountingDuplicates" not in cls:
            continue
        descs = [d for c, truth, d, *_ in controlling(oa, s_.bb)]
        from_ign = any("IgnoringUntilRecoveryPoint" in d for d in descs)
        from_rec = any(d.startswith("discr:") and d.endswith("=Recovering") for d in descs)
        if from_ign:
            ok = guarded(oa, s_.bb, "le", lambda o: trace(oa, o).last_field == "RecoveryPhase::IgnoringUntilRecoveryPoint.recovery_point", is_ack, strict=False)
            nm = "ignoring=>counting"
        elif from_rec:
            ok = guarded(oa, s_.bb, "le", lambda o: trace(oa, o).last_field == "Recovering.recovery_point", is_ack, strict=False)
            nm = "recovering=>counting"
        else:
            continue
        if ok:
            R.ok("recovery-episode-end", nm, "exactly under ack_nr >= recovery_point")
        else:
            R.fail([oa.name, nm, "not-under(ack_nr>=recovery_point)", ",".join(sorted(d for d in descs if "PartialOrd" in d))], "the %s transition is no longer taken exactly when the cumulative ACK reaches the recovery point" % nm, where=s_.where(), instance="recovery-episode-end")
    rcv = [t for t in oa.calls() if call_matches(t, ("CongestionController::on_recovered",))]
    R.floor("on_recovered call", len(rcv), 1)
    back = {s_.bb for s_ in oa.stmts() if written_field(oa, s_) == "Recovery.phase" and s_.rv.ops and "CountingDuplicates" in classify(oa, s_.rv.ops[0])}
    for t in rcv:
        if back and must_pass_blocks(oa, oa.return_blocks(), back, start=t.j["target"])[0]:
            R.ok("recovered=>episode-closed", oa.name, "on_recovered is followed by phase = CountingDuplicates on every path")
        else:
            R.fail([oa.name, "on_recovered-without(phase=CountingDuplicates)"], "the congestion controller is told the recovery is over but the recovery phase is kept: every later ACK 'recovers' again and new data stays governed by the recovery window", where=t.where(), instance="recovered=>episode-closed")


@rule("C06.8", ["C06", "C01", "C05", "C14"], ["E4"], "segment accessors hand out the field they are named after",
      "Segment::is_mtu_probe, SegmentForSending::{is_delivered, is_lost, is_expired, has_sacks_after_it, payload_size, payload_offset, seq_nr}, Segments::{sack_depth, total_len_bytes} and "
      "Recovering::{recovery_point, total_retransmitted_segments} return exactly the field path they returned on the reviewed tree (table frozen in engine/pinned_fns.json).")
def c06_8(R):
    n = check_getters(R, ("stream_tx_segments::", "recovery::"))
    R.floor("segment / recovery accessors", n, 10)


@rule("C06.9", ["C06"], ["E2", "E4"], "a timeout recovery is bounded by the highest sequence number sent before the go-back-N rewind",
      "On an RTO send_tx_queue tells recovery.on_rto_timeout(self.last_sent_seq_nr) - the recovery point up to which duplicate ACKs are ignored - and then rewinds last_sent_seq_nr to the "
      "retransmitted segment so that normal sending resumes from there. The value handed over must be the one from BEFORE the rewind: no store of a segment's seq_nr() into last_sent_seq_nr "
      "may reach the call. Otherwise the 'ignore duplicates' phase ends with the first retransmitted segment and the late duplicates of the original flight start a spurious fast retransmit.")
def c06_9(R):
    stq = R.body(STQ)
    calls = [t for t in stq.calls() if call_matches(t, ("recovery::Recovery::on_rto_timeout",))]
    R.floor("recovery.on_rto_timeout calls in send_tx_queue", len(calls), 2)
    rewinds = []
    for s in stq.stmts():
        if written_field(stq, s) == "VirtualSocket.last_sent_seq_nr" and s.rv.kind == "use":
            v = trace(stq, s.rv.ops[0])
            if v.kind == "call" and call_matches(v.root[1], ("SegmentForSending::seq_nr",)):
                rewinds.append(s)
    R.floor("go-back-N rewinds (last_sent_seq_nr = seg.seq_nr()) in send_tx_queue", len(rewinds), 1)
    for t in calls:
        a = trace(stq, t.args[1])
        if a.last_field != "VirtualSocket.last_sent_seq_nr":
            R.fail([STQ, "on_rto_timeout-arg", a.describe()], "recovery.on_rto_timeout is no longer given self.last_sent_seq_nr (the highest sequence number sent)", where=t.where(), instance="recovery-point=highest-sent")
            continue
        before = [s for s in rewinds if point_reaches(stq, s, t)]
        if before:
            R.fail([STQ, "rewind-before(recovery.on_rto_timeout)"], "last_sent_seq_nr is rewound to the retransmitted segment before recovery.on_rto_timeout reads it: the recovery point is the "
                   "retransmitted segment instead of the highest sequence number sent, so duplicate ACKs of the original flight are no longer ignored", where=before[0].where(), instance="recovery-point=highest-sent")
        else:
            R.ok("recovery-point=highest-sent", STQ, "on_rto_timeout(last_sent_seq_nr) at %s reads the value from before the rewind" % t.where())


@rule("C06.10", ["C06", "C15", "C05"], ["E2", "E7"], "a timeout during fast recovery always ends the recovery episode",
      "Recovery::on_rto_timeout, entered in phase Recovering, unconditionally moves to IgnoringUntilRecoveryPoint { recovery_point: the highest sequence number sent } (C06.9). While Recovering the "
      "dispatcher sends against the recovery window (rec.cwnd - pipe), not against the controller's collapsed window, and the ACK that reaches the recovery point writes rec.cwnd back as ssthresh: "
      "any exit that keeps the phase after a timeout lets the sender burst the pre-timeout window and undoes the timeout's ssthresh.")
def c06_10(R):
    from utpsa.flow import must_pass_blocks
    b = R.body("recovery::Recovery::on_rto_timeout")
    stores = [s for s in b.stmts() if written_field(b, s) == "Recovery.phase"]
    R.floor("phase stores in Recovery::on_rto_timeout", len(stores), 1)
    ok_val = False
    for s in stores:
        t = trace(b, s.rv.ops[0]) if s.rv.kind == "use" and s.rv.ops else None
        agg = s.rv if s.rv.kind == "agg" else (t.root[1].rv if t is not None and t.kind == "rv" and t.root[1].rv.kind == "agg" else None)
        if agg is not None and agg.j.get("variant") == "IgnoringUntilRecoveryPoint" and agg.ops:
            v = trace(b, agg.ops[0])
            if v.kind == "param" and v.root[1] == 2:
                ok_val = True
    # every way through the function that saw phase == Recovering passes a store
    rec_targets = []
    for blk in b.blocks:
        if blk.cleanup or blk.term.kind != "switch":
            continue
        for tgt, lab in b.edges(blk.idx):
            d = describe_cond(b, blk.term, lab)
            if d.startswith("discr:") and "Recovery.phase" in d and d.endswith("=Recovering"):
                rec_targets.append(tgt)
    R.require(rec_targets, "the test phase == Recovering in on_rto_timeout")
    sb = {s.bb for s in stores}
    skippable = [t for t in rec_targets if not must_pass_blocks(b, b.return_blocks(), sb, start=t)[0]]
    if ok_val and not skippable:
        R.ok("rto-in-recovery=>ignoring", b.name, "Recovering -> IgnoringUntilRecoveryPoint { recovery_point: last_sent_seq_nr } on every path")
    else:
        R.fail([b.name, "recovering-can-survive-a-timeout" if skippable else "new-phase-shape"], "Recovery::on_rto_timeout can return with the phase still Recovering (or does not install IgnoringUntilRecoveryPoint "
               "{ last_sent_seq_nr }): after the timeout the sender keeps sending against the recovery window instead of the collapsed one", where=b.where(), instance="rto-in-recovery=>ignoring")
