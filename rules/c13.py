"""C13 connect/accept pairing: bounded backlog, FIFO, refusal answered, slots released."""
from .common import *
from utpsa.flow import describe_cond
from .c12 import D, fn_bodies
from utpsa.wake import variant_of_edge

SYNS = "AcceptQueue.syns"


@rule("C13.1", ["C13", "C10"], ["E6", "E7", "E3"], "bounded backlog: SYN cache, acceptor channel, per-address connecting slots",
      "AcceptQueue::try_cache_syn pushes only under `syns.len() < ACCEPT_QUEUE_MAX_SYNS` (= 32) = true and returns Some(syn) otherwise; the acceptor channel is mpsc::channel(ACCEPT_QUEUE_MAX_ACCEPTORS = 32); "
      "MAX_CONNECTING_PER_ADDR = 4; in ConnectingPerAddr, filling a slot <=> `len += 1`, taking a slot <=> `len -= 1`.")
def c13_1(R):
    F = R.facts
    for name, want in (("socket::ACCEPT_QUEUE_MAX_SYNS", 32), ("socket::ACCEPT_QUEUE_MAX_ACCEPTORS", 32), ("socket::MAX_CONNECTING_PER_ADDR", 4)):
        v = F.const_scalar(name)
        if v == want:
            R.ok("constants", name.split("::")[-1], "= %d" % want)
        else:
            R.fail([name, str(v)], "%s is %s, expected %d" % (name, v, want), instance="constants")
    tc = R.body("socket::AcceptQueue::try_cache_syn")
    pushes = [t for t in tc.calls() if call_on_field(tc, t, ("VecDeque::push_back",), SYNS)]
    R.floor("push_back in try_cache_syn", len(pushes), 1)
    for t in pushes:
        ok = False
        for c, truth, d, *_ in controlling(tc, t.bb):
            for r_, x_, y_ in implied(c, truth):
                a = trace(tc, x_)
                if r_ == "lt" and a.kind == "call" and call_on_field(tc, a.root[1], ("VecDeque::len",), SYNS) and y_.kind == "const" and y_.const_item == "socket::ACCEPT_QUEUE_MAX_SYNS":
                    ok = True
        if ok:
            R.ok("cache-syn=>below-limit", tc.name, "push only while syns.len() < ACCEPT_QUEUE_MAX_SYNS")
        else:
            R.fail([tc.name, "push_back-not-guarded-by(len<ACCEPT_QUEUE_MAX_SYNS)"], "SYNs are cached without the backlog bound", where=t.where(), instance="cache-syn=>below-limit")
    # all pushes onto syns
    for b in F.bodies():
        for t in b.calls():
            if call_on_field(b, t, ("VecDeque::push_back",), SYNS) and b.name != tc.name:
                R.fail([owner_fn(b), "push_back(AcceptQueue.syns)"], "a SYN is appended to the cache outside try_cache_syn (unbounded)", where=t.where(), instance="cache-syn=>below-limit")
    # acceptor channel
    okc = False
    for b in F.bodies():
        for t in b.calls():
            if (t.resolved or "").endswith("mpsc::channel") or (t.resolved or "") == "tokio::sync::mpsc::channel":
                if t.args and t.args[0].kind == "const" and t.args[0].const_item == "socket::ACCEPT_QUEUE_MAX_ACCEPTORS":
                    okc = True
                    R.ok("acceptor-channel-bounded", owner_fn(b), "mpsc::channel(ACCEPT_QUEUE_MAX_ACCEPTORS)")
                else:
                    R.fail([owner_fn(b), "mpsc::channel", repr(t.args[0]) if t.args else "?"], "a bounded channel is created with a capacity other than the audited constant", where=t.where(), instance="acceptor-channel-bounded")
    if not okc:
        R.fail(["socket", "no-bounded-acceptor-channel"], "the acceptor channel is no longer mpsc::channel(ACCEPT_QUEUE_MAX_ACCEPTORS)", instance="acceptor-channel-bounded")
    # ConnectingPerAddr coupled counter
    for name in ("insert", "pop", "pop_by_token"):
        b = R.body("socket::ConnectingPerAddr::" + name)

        def step(it, s, b=b):
            tags = set(s)
            ch = False
            if isinstance(it, Stmt):
                fu = field_update(b, it)
                if fu and fu.field == "ConnectingPerAddr.len":
                    tags.add("len" + fu.op)
                    ch = True
                # `*slot = Some(c)`
                if it.place.proj == ["*"] and "Option<socket::Connecting>" in b.local_ty(it.place.local):
                    isome = it.rv.kind == "agg" and it.rv.j.get("variant") == "Some"
                    if not isome and it.rv.kind == "use":
                        tv = trace(b, it.rv.ops[0])
                        isome = tv.kind == "rv" and tv.root[1].rv.kind == "agg" and tv.root[1].rv.j.get("variant") == "Some"
                    if isome:
                        tags.add("fill")
                        ch = True
            elif it.kind == "call" and call_matches(it, ("Option::take",)):
                tags.add("take")
                ch = True
            return frozenset(tags) if ch else None

        def bal(tags):
            miss = []
            if "fill" in tags and "len+=" not in tags:
                miss.append("len+=1")
            if "len+=" in tags and "fill" not in tags:
                miss.append("slot-fill")
            if "take" in tags and "len-=" not in tags:
                miss.append("len-=1")
            if "len-=" in tags and "take" not in tags:
                miss.append("slot-take")
            return miss
        res = typestate(b, [frozenset()], step)
        bad = None
        for bb, states in res.exits.items():
            for s in states:
                m = bal(s)
                if m and bad is None:
                    bad = (bb, s, m)
        if bad:
            R.fail([b.name, "events=" + ",".join(sorted(bad[1])), "missing=" + ",".join(bad[2])], "%s: slot occupancy and ConnectingPerAddr.len diverge on some path" % b.name, where=b.where(), witness=res.witness_lines(bad[0], bad[1]), instance="connecting-slots-coupled")
        else:
            R.ok("connecting-slots-coupled", b.name)


@rule("C13.2", ["C13"], ["E1", "E2"], "pending SYNs are served in arrival order and are not overtaken",
      "AcceptQueue.syns is touched only by push_back (try_cache_syn), pop_front and push_front of the element popped on the same path (cleanup_accept_queue); acceptors are taken from "
      "next_available_acceptor first, then rx.try_recv(). A fresh SYN may be handed to match_syn_with_accept without passing through the cache only when the cache is empty "
      "(control-dependent on syns.is_empty() = true): otherwise a newer request overtakes the cached ones.")
def c13_2(R):
    F = R.facts
    allowed = {"VecDeque::push_back": {"socket::AcceptQueue::try_cache_syn"}, "VecDeque::pop_front": {D + "::cleanup_accept_queue"}, "VecDeque::push_front": {D + "::cleanup_accept_queue"},
               "VecDeque::len": None, "VecDeque::is_empty": None, "Default::default": None}
    n = 0
    for b, t, m in calls_on_container(F, SYNS):
        n += 1
        ok = False
        for a, who in allowed.items():
            if call_matches(t, (a,)):
                ok = who is None or owner_fn(b) in who
        if ok:
            R.ok("syn-queue-ops", "%s %s" % (owner_fn(b).split("::")[-1], m))
        else:
            R.fail([owner_fn(b), SYNS, "call", m], "operation %s on the SYN cache is outside the audited FIFO set" % m, where=t.where(), instance="syn-queue-ops")
    R.floor("operations on AcceptQueue.syns", n, 5)
    # push_front re-inserts the popped element
    cq = R.body(D + "::cleanup_accept_queue")
    for t in cq.calls():
        if call_on_field(cq, t, ("VecDeque::push_front",), SYNS):
            v = trace(cq, t.args[1])
            src_ok = ("Some" in v.variants and v.kind == "call" and call_on_field(cq, v.root[1], ("VecDeque::pop_front",), SYNS)) or (v.kind == "call" and call_matches(v.root[1], (D + "::match_syn_with_accept",))) or v.kind == "multi"
            if src_ok:
                R.ok("push_front=re-insert", cq.name, "re-inserts the popped SYN (%s)" % v.describe()[:60])
            else:
                R.fail([cq.name, "push_front-of-foreign-element", v.describe()], "push_front puts something other than the just-popped SYN at the head of the queue", where=t.where(), instance="push_front=re-insert")
    # acceptor order
    tn = R.body("socket::AcceptQueue::try_next_acceptor")
    takes = [t for t in tn.calls() if call_on_field(tn, t, ("Option::take",), "AcceptQueue.next_available_acceptor")]
    recvs = [t for t in tn.calls() if call_matches(t, ("Receiver::try_recv",))]
    if takes and recvs and all(r.bb in tn.reachable(takes[0].bb) for r in recvs) and not any(takes[0].bb in tn.reachable(r.bb) for r in recvs):
        R.ok("acceptor-order", tn.name, "next_available_acceptor first, then the channel")
    else:
        R.fail([tn.name, "acceptor-order"], "acceptors are no longer taken from next_available_acceptor before the channel (a put-back acceptor would be overtaken)", where=tn.where(), instance="acceptor-order")
    # no bypass of a non-empty cache
    for b in fn_bodies(F, D + "::on_syn"):
        for t in b.calls():
            if call_matches(t, (D + "::match_syn_with_accept",)):
                descs = [d for c, truth, d, *_ in controlling(b, t.bb)]
                ok = any("is_empty=true" in d and True for d in descs if "VecDeque" in d or "is_empty" in d)
                ok = False
                for c, truth, d, *_ in controlling(b, t.bb):
                    if c.kind == "call" and call_on_field(b, c.call, ("VecDeque::is_empty",), SYNS) and truth:
                        ok = True
                    if c.kind == "bin" and c.op == "Eq" and truth:
                        a = trace(b, c.a)
                        if a.kind == "call" and call_on_field(b, a.root[1], ("VecDeque::len",), SYNS) and c.b.kind == "const" and c.b.scalar == 0:
                            ok = True
                if ok:
                    R.ok("fresh-syn=>cache-empty", D + "::on_syn", "a fresh SYN is matched directly only when no SYN is cached")
                else:
                    R.fail([D + "::on_syn", "match_syn_with_accept(fresh syn)", "not-guarded-by(syns.is_empty)"],
                           "on_syn hands a fresh SYN to a waiting acceptor without checking that the SYN cache is empty: when an accept() and a new SYN become ready in the same select! the newer SYN overtakes the cached ones",
                           where=t.where(), instance="fresh-syn=>cache-empty")


@rule("C13.3", ["C13", "C10"], ["E3"], "a SYN that cannot be queued is answered with a RESET; no acceptor is lost",
      "In on_syn the Some(syn) result of try_cache_syn reaches try_send_rst and the returned future is awaited (into_future); for MatchSynWithAccept::SynInvalid / Full the acceptor is stored back into "
      "next_available_acceptor in on_syn and cleanup_accept_queue.")
def c13_3(R):
    F = R.facts
    okr = False
    for b in fn_bodies(F, D + "::on_syn"):
        rst = [t for t in b.calls() if call_matches(t, (D + "::try_send_rst",))]
        for t in rst:
            st = trace(b, t.args[1])
            from_cache = "Some" in st.variants and st.kind == "call" and call_matches(st.root[1], ("socket::AcceptQueue::try_cache_syn",))
            users = [x for x in b.calls() if any(a.place is not None and a.place.is_local and a.place.local == t.dest.local for a in x.args)]
            awaited = any(call_matches(u, ("IntoFuture::into_future",)) for u in users)
            descs = [d for c, truth, d, *_ in controlling(b, t.bb)]
            under_some = any(d.endswith("=Some") and "try_cache_syn" in d for d in descs)
            if from_cache and awaited and under_some:
                okr = True
                R.ok("refused-syn=>rst", D + "::on_syn", "try_send_rst(the refused syn).await")
            else:
                R.fail([D + "::on_syn", "try_send_rst", "from-cache-refusal=%s awaited=%s" % (from_cache, awaited)], "the RESET for a refused SYN is not sent (future not awaited) or is sent for a different SYN", where=t.where(), instance="refused-syn=>rst")
        # every Some(syn) path must reach try_send_rst
        for blk in b.blocks:
            if blk.cleanup or blk.term.kind != "switch":
                continue
            for tgt, lab in b.edges(blk.idx):
                c, var = variant_of_edge(b, blk.term, lab)
                if c is not None and var == "Some" and c.trace.kind == "call" and call_matches(c.trace.root[1], ("socket::AcceptQueue::try_cache_syn",)):
                    ok, _ = must_pass_blocks(b, b.return_blocks(), {t.bb for t in rst}, start=tgt)
                    if not ok or not rst:
                        R.fail([D + "::on_syn", "refused-syn-without(try_send_rst)"], "a SYN that does not fit the backlog can be dropped silently (no RESET)", where=blk.term.where(), instance="refused-syn=>rst")
    if not okr:
        R.fail([D + "::on_syn", "no-rst-for-refused-syn"], "on_syn no longer answers a refused SYN with a RESET", instance="refused-syn=>rst")
    # acceptor put back
    for fname in (D + "::on_syn", D + "::cleanup_accept_queue"):
        for b in fn_bodies(F, fname):
            for blk in b.blocks:
                if blk.cleanup or blk.term.kind != "switch" or blk.idx not in b.live_blocks():
                    continue
                for tgt, lab in b.edges(blk.idx):
                    c, var = variant_of_edge(b, blk.term, lab)
                    if c is not None and var in ("SynInvalid", "Full") and c.trace.kind == "call" and call_matches(c.trace.root[1], (D + "::match_syn_with_accept",)):
                        writes = {s.bb for s in b.stmts() if written_field(b, s) == "AcceptQueue.next_available_acceptor"}
                        # until the next loop iteration or return
                        ends = set(b.return_blocks()) | {u for (u, v) in b.back_edges()}
                        reach = b.reachable(tgt, removed_blocks=writes)
                        if writes and not any(e in reach for e in ends):
                            R.ok("acceptor-put-back", "%s %s" % (fname.split("::")[-1], var))
                        else:
                            R.fail([fname, "acceptor-lost-on", var], "on MatchSynWithAccept::%s the acceptor is dropped instead of being stored back: an accept() call is lost" % var, where=blk.term.where(), instance="acceptor-put-back")


@rule("C13.4", ["C13", "C12", "C08"], ["E2", "E4"], "the backlog is re-examined on every dispatcher iteration; slot scans are exhaustive",
      "Dispatcher::run_once calls cleanup_accept_queue before the select!, i.e. the call dominates all three arms (new acceptor stored, on_control, on_recv): a slot freed by a Shutdown or a new "
      "acceptor is matched with parked SYNs whatever event ended the previous iteration. ConnectingPerAddr::insert / pop / pop_by_token scan `self.slots.iter_mut()` directly, with no take/skip/filter "
      "adapter (a scan bounded by `len` misses entries after a hole and leaks their slot).")
def c13_4(R):
    F = R.facts
    found = False
    for b in fn_bodies(F, D + "::run_once"):
        cl = [t.bb for t in b.calls() if call_matches(t, (D + "::cleanup_accept_queue",))]
        arms = [t for t in b.calls() if call_matches(t, (D + "::on_control", D + "::on_recv"))]
        stores = [s for s in b.stmts() if written_field(b, s) == "AcceptQueue.next_available_acceptor"]
        if not arms:
            continue
        found = True
        dom = b.dominators()
        bad = [x for x in arms if not any(c in dom.get(x.bb, ()) for c in cl)] + [x for x in stores if not any(c in dom.get(x.bb, ()) for c in cl)]
        if cl and not bad:
            R.ok("cleanup-every-iteration", D + "::run_once", "cleanup_accept_queue dominates the %d select! arms" % (len(arms) + len(stores)))
        else:
            R.fail([D + "::run_once", "cleanup_accept_queue-not-before-select"], "the SYN backlog is not re-examined on every dispatcher iteration: after a connection slot frees up, a parked SYN and a waiting accept() are never paired (both hang) and later SYNs overtake it", where=(bad[0].where() if bad else b.where()), instance="cleanup-every-iteration")
    if not found:
        R.fail([D + "::run_once", "anchor"], "select! arms of run_once not found", instance="cleanup-every-iteration")
    # ... and the re-examination is skipped only when the connection table is full
    cq = R.body(D + "::cleanup_accept_queue")
    pf = [t for t in cq.calls() if call_on_field(cq, t, ("VecDeque::pop_front",), SYNS)]
    R.floor("syns.pop_front in cleanup_accept_queue", len(pf), 1)
    for t in pf:
        ds = [d for c, truth, d, *_ in controlling(cq, t.bb)]
        if "call:Dispatcher::streams_full=true" in ds:
            R.fail([cq.name, "backlog-examined-only-when(streams_full)"], "the backlog is examined only while the connection table is full (when nothing can be accepted) and skipped when there is room: parked SYNs are never paired", where=t.where(), instance="cleanup-when-room")
        else:
            R.ok("cleanup-when-room", cq.name, "the backlog loop runs whenever !streams_full()")
    adapters = ("std::iter::Iterator::take", "std::iter::Iterator::skip", "std::iter::Iterator::filter", "std::iter::Iterator::take_while", "std::iter::Iterator::skip_while", "std::iter::Iterator::step_by", "std::iter::Iterator::rev")
    for name in ("insert", "pop", "pop_by_token"):
        b = R.body("socket::ConnectingPerAddr::" + name)
        # a `for` loop (Iterator::next) or any consuming search over the whole iterator
        nexts = [t for t in b.calls() if call_matches(t, ("Iterator::next", "Iterator::find", "Iterator::find_map", "Iterator::position", "Iterator::any", "Iterator::all", "Iterator::for_each", "Iterator::fold", "Iterator::try_for_each", "Iterator::try_fold"))]
        ok = False
        why = "no scan loop"
        for t in nexts:
            src = trace(b, t.args[0], extra_transparent=adapters + ("std::iter::IntoIterator::into_iter",))
            used = [short_callee(s.resolved) for s in src.steps if isinstance(s, Term) and s.kind == "call" and s.callee in adapters]
            if src.kind == "multi":
                for d in src.root[3]:
                    if isinstance(d, Term) and d.kind == "call" and d.args:
                        s2 = trace(b, d.args[0], extra_transparent=adapters + ("std::iter::IntoIterator::into_iter",))
                        used += [short_callee(s.resolved) for s in [d] + s2.steps if isinstance(s, Term) and s.kind == "call" and s.callee in adapters]
                        src = s2
            if src.kind == "call" and (src.root[1].resolved or "").endswith("iter_mut") and trace(b, src.root[1].args[0]).last_field == "ConnectingPerAddr.slots":
                if used:
                    why = "adapters: " + ",".join(used)
                else:
                    ok = True
            else:
                why = "iterates " + src.describe()[:50]
        if ok:
            R.ok("slot-scan-exhaustive", b.name, "self.slots.iter_mut() traversed without a restricting adapter")
        else:
            R.fail([b.name, "slot-scan", why], "%s does not scan all connecting slots (%s): an entry behind a hole is never found and its slot leaks" % (name, why), where=b.where(), instance="slot-scan-exhaustive")


@rule("C13.5", ["C13"], ["E3", "E4"], "an abandoned connect releases its per-address slot; a SYN-ACK releases exactly the slot it answers",
      "UtpSocket::connect creates DropGuardSendBeforeDeath(ControlRequest::ConnectDropped(remote, token)) from the same remote and token as the ConnectRequest it sent, on the socket's control "
      "channel, and disarms it only after the reply was received; on_control's ConnectDropped arm pops by that token and removes an emptied per-address entry; on_maybe_connect_ack pops by "
      "msg.header.ack_nr (the SYN's sequence number stored in Connecting.seq_nr) and removes an emptied entry; if the requester is gone the inserted stream key is removed again.")
def c13_5(R):
    F = R.facts
    found = False
    for b in fn_bodies(F, "socket::UtpSocket::connect"):
        guards = [t for t in b.calls() if call_matches(t, ("utils::DropGuardSendBeforeDeath::new",))]
        sends = [t for t in b.calls() if call_matches(t, ("UnboundedSender::send",))]
        if not guards:
            continue
        found = True
        g = guards[0]
        gm = trace(b, g.args[0])
        req = None
        for s_ in sends:
            m = trace(b, s_.args[1])
            if m.kind == "rv" and m.root[1].rv.kind == "agg" and m.root[1].rv.j.get("variant") == "ConnectRequest":
                req = m
        okp = False
        detail = "guard=%s" % gm.describe()[:40]
        if gm.kind == "rv" and gm.root[1].rv.kind == "agg" and gm.root[1].rv.j.get("variant") == "ConnectDropped" and req is not None:
            ga = [trace(b, o).describe() for o in gm.root[1].rv.ops[:2]]
            ra = [trace(b, o).describe() for o in req.root[1].rv.ops[:2]]
            detail = "ConnectDropped(%s) vs ConnectRequest(%s)" % (",".join(ga), ",".join(ra))
            okp = ga == ra and trace(b, g.args[1]).last_field == "UtpSocket.control_requests"
        if okp:
            R.ok("connect-guard-pairs-with-request", "UtpSocket::connect", detail)
        else:
            R.fail(["socket::UtpSocket::connect", "guard-vs-request", detail], "the ConnectDropped guard does not carry the same (remote, token) as the ConnectRequest (or goes to another channel): an abandoned connect never frees its slot", where=g.where(), instance="connect-guard-pairs-with-request")
        dis = [t for t in b.calls() if call_matches(t, ("utils::DropGuardSendBeforeDeath::disarm",))]
        awaits = [t.bb for t in b.calls() if call_matches(t, ("IntoFuture::into_future",)) and "oneshot::Receiver" in " ".join(t.j.get("argtys", []))]
        dom = b.dominators()
        if dis and awaits and all(any(a in dom.get(d.bb, ()) for a in awaits) for d in dis) and all(d.bb in b.reachable(g.bb) for d in dis):
            R.ok("disarm-only-after-reply", "UtpSocket::connect", "disarm() is dominated by the await of the reply")
        else:
            R.fail(["socket::UtpSocket::connect", "disarm-before-reply"], "the connect guard is disarmed before the dispatcher's reply arrived: cancelling the connect in between leaks the slot", where=(dis[0].where() if dis else b.where()), instance="disarm-only-after-reply")
    if not found:
        R.fail(["socket::UtpSocket::connect", "no-ConnectDropped-guard"], "UtpSocket::connect no longer installs a ConnectDropped drop guard", instance="connect-guard-pairs-with-request")
    # on_control ConnectDropped
    okd = False
    for b in fn_bodies(F, D + "::on_control"):
        for t in b.calls():
            if call_matches(t, ("socket::ConnectingPerAddr::pop_by_token",)):
                tk = trace(b, t.args[1])
                rem = [x for x in b.calls() if call_matches(x, ("OccupiedEntry::remove",)) and x.bb in b.reachable(t.bb)]
                guarded = False
                for x in rem:
                    ds = [d for c, truth, d, *_ in controlling(b, x.bb)]
                    if any("is_none=false" in d for d in ds) and any("ConnectingPerAddr::is_empty=true" in d for d in ds):
                        guarded = True
                if ("ConnectDropped" in tk.variants or any("ConnectDropped" in f for f in tk.fields)) and guarded:
                    okd = True
                    R.ok("connect-dropped=>slot-released", D + "::on_control", "pop_by_token(token of the request); entry removed when emptied")
                else:
                    R.fail([D + "::on_control", "ConnectDropped-arm", "token=%s remove-guarded=%s" % (tk.describe()[:40], guarded)], "ConnectDropped does not release the slot of the token it carries (or drops a non-empty per-address entry)", where=t.where(), instance="connect-dropped=>slot-released")
    if not okd:
        R.fail([D + "::on_control", "no-pop_by_token"], "ConnectDropped no longer pops the connecting slot", instance="connect-dropped=>slot-released")
    ack = R.body(D + "::on_maybe_connect_ack")
    pops = [t for t in ack.calls() if call_matches(t, ("socket::ConnectingPerAddr::pop",))]
    R.floor("ConnectingPerAddr::pop in on_maybe_connect_ack", len(pops), 1)
    for t in pops:
        k = trace(ack, t.args[1])
        if k.fields[-2:] == ["UtpMessage.header", "UtpHeader.ack_nr"] or k.last_field == "UtpHeader.ack_nr":
            R.ok("synack-matched-by-ack_nr", ack.name, "pop(msg.header.ack_nr)")
        else:
            R.fail([ack.name, "pop-key", k.describe()[:50]], "the SYN-ACK is matched to a pending connect by something other than the acknowledged SYN sequence number", where=t.where(), instance="synack-matched-by-ack_nr")
    # the per-address entry is dropped when (and only when) the pop emptied it
    erem = [t for t in ack.calls() if (t.resolved or "").endswith("OccupiedEntry::remove") or (t.callee or "").endswith("OccupiedEntry::remove")]
    if erem and all(any(d == "call:ConnectingPerAddr::is_empty=true" for c, truth, d, *_ in controlling(ack, t.bb)) for t in erem):
        R.ok("synack=>emptied-entry-removed", ack.name, "occ.remove() under is_empty() = true after the pop")
    else:
        R.fail([ack.name, "emptied-entry", "removed=%s" % bool(erem)], "after a SYN-ACK released the last connecting slot of an address the per-address entry is not removed (or a non-empty one is): the table of pending connects leaks an entry per peer / forgets pending connects", where=ack.where(), instance="synack=>emptied-entry-removed")
    # requester gone => key removed
    ins = [t for t in ack.calls() if call_on_field(ack, t, ("HashMap::insert",), "Dispatcher.streams")]
    rem = [t for t in ack.calls() if call_on_field(ack, t, ("HashMap::remove",), "Dispatcher.streams")]
    if ins and rem and trace(ack, rem[0].args[1]).root[:2] == trace(ack, ins[0].args[1]).root[:2] and any("is_err=true" in d for c, truth, d, *_ in controlling(ack, rem[0].bb)):
        R.ok("requester-gone=>key-removed", ack.name, "failed send to the connector removes the inserted key")
    else:
        R.fail([ack.name, "requester-gone-without(streams.remove(recv_key))"], "when the connecting caller is gone the freshly inserted stream key is not removed", where=ack.where(), instance="requester-gone=>key-removed")
    # Connecting.seq_nr is the SYN's seq_nr
    okq = False
    for b in fn_bodies(F, D + "::on_control"):
        for s in b.stmts():
            if s.rv.kind == "agg" and s.rv.j.get("adt") == "socket::Connecting":
                i = s.rv.j["fields"].index("seq_nr")
                t = trace(b, s.rv.ops[i])
                if t.last_field == "UtpHeader.seq_nr":
                    okq = True
                # `header` is built on the spot: the trace descends into its aggregate - compare with the header's own seq_nr operand
                for s2 in b.stmts():
                    if s2.rv.kind == "agg" and s2.rv.j.get("adt") == "raw::UtpHeader":
                        t2 = trace(b, s2.rv.ops[s2.rv.j["fields"].index("seq_nr")])
                        if t2.root[:2] == t.root[:2] and t2.kind == "call":
                            okq = True
                j = s.rv.j["fields"].index("token")
                tt = trace(b, s.rv.ops[j])
                if not ("ConnectRequest" in tt.variants or any("ConnectRequest" in f for f in tt.fields)):
                    okq = False
    if okq:
        R.ok("pending-connect-keyed-by-syn-seq", D + "::on_control", "Connecting{seq_nr: header.seq_nr, token: the request's token}")
    else:
        R.fail([D + "::on_control", "Connecting-fields"], "a pending connect is not recorded under the SYN's sequence number and the request's token", instance="pending-connect-keyed-by-syn-seq")


@rule("C13.6", ["C13"], ["E3"], "a cached SYN is never lost by a failed pairing attempt",
      "In Dispatcher::cleanup_accept_queue a SYN taken from the backlog (syns.pop_front()) is, on every path to the next loop iteration or a return, either handed to match_syn_with_accept or pushed back "
      "(syns.push_front); when match_syn_with_accept hands it back (ReceiverDead(syn), Full(syn, _)) it is pushed back as well. Otherwise a connection request that was waiting in the backlog silently "
      "disappears because no acceptor / no free slot was available at that moment.")
def c13_6(R):
    b = R.body(D + "::cleanup_accept_queue")
    match_calls = [t for t in b.calls() if call_matches(t, (D + "::match_syn_with_accept",))]
    R.floor("match_syn_with_accept in cleanup_accept_queue", len(match_calls), 1)
    n = [0]

    def step(it, s):
        if isinstance(it, Stmt):
            root = extraction_root_call(b, it)
            if root is not None and removal_kind(b, root, SYNS):
                n[0] += 1
                return "holding"
            if it.rv.kind == "use" and it.rv.ops[0].place is not None and it.rv.ops[0].kind == "move":
                vs = it.rv.ops[0].place.variants()
                if vs and vs[-1] in ("ReceiverDead", "Full") and "Syn" in b.local_ty(it.place.local) if it.place.is_local else False:
                    n[0] += 1
                    return "holding"
        elif it.kind == "call":
            if call_matches(it, (D + "::match_syn_with_accept",)) and s == "holding":
                return "free"
            if call_on_field(b, it, ("VecDeque::push_front", "VecDeque::push_back"), SYNS) and s == "holding":
                return "free"
        return None
    cuts = set(b.back_edges())  # the state is carried out of the loop: an exit path may still hold the SYN
    lost = []

    def on_cut(s, src, tgt):
        if s == "holding":
            lost.append(("next-iteration", src))
        return ["free"]
    res = typestate(b, ["free"], step, cut_edges=cuts, on_cut=on_cut)
    for bb, states in res.exits.items():
        if "holding" in states:
            lost.append(("return", bb))
    R.floor("SYN hand-over events in cleanup_accept_queue", n[0], 3)
    if not lost:
        R.ok("backlog-syn-not-lost", b.name, "every popped / returned SYN is matched or pushed back before the next iteration / return")
    else:
        kind, bb = lost[0]
        R.fail([b.name, "syn-dropped-before", kind], "a SYN taken from the backlog can be dropped (%s reached while still holding it): the pending connection request is lost without a RESET" % kind,
               where=b.blocks[bb].term.where(), witness=res.witness_lines(bb, "holding") if kind == "return" else [], instance="backlog-syn-not-lost")


@rule("C13.7", ["C13", "C12"], ["E2", "E4"], "a connecting slot is released by the request it belongs to, and a filled slot is reported as filled",
      "ConnectingPerAddr::pop_by_token / pop take the slot (Option::take, or the item selected by a find predicate) only under Connecting.token == token / Connecting.seq_nr == s for the function's own "
      "argument; ConnectingPerAddr::insert returns true on the path that filled a slot (and only there), and Dispatcher::on_control advances next_connection_id by 2 on that result - otherwise two pending "
      "connects to one peer share a connection id, or a dropped connect() frees someone else's slot.")
def c13_7(R):
    F = R.facts
    for fn, fld in (("pop_by_token", "Connecting.token"), ("pop", "Connecting.seq_nr")):
        b = R.body("socket::ConnectingPerAddr::" + fn)
        sel = []
        for bb_ in [b] + F.closures_of(b.name):
            if bb_ is b:
                sites = [t.bb for t in bb_.calls() if call_matches(t, ("Option::take",))]
            else:
                sites = [it.bb for it, cls in ret_assignments(bb_) if cls in ("const:1", "true")]
            for sbb in sites:
                ok = guarded(bb_, sbb, "eq", lambda o, bb_=bb_: trace(bb_, o).last_field == fld, lambda o, bb_=bb_: is_fn_param(bb_, trace(bb_, o), 2) and not [f for f in trace(bb_, o).fields if not f.startswith("tuple.")])
                sel.append((bb_, sbb, ok))
        body_sites = [ok for bb_, _, ok in sel if bb_ is b]
        clo_sites = [ok for bb_, _, ok in sel if bb_ is not b]
        by_find = clo_sites and all(clo_sites) and any(call_matches(t, ("Iterator::find", "Iterator::position", "Iterator::find_map")) for t in b.calls())
        if (body_sites and all(body_sites)) or by_find:
            R.ok("slot-selected-by-own-key", b.name, "taken only under %s == argument" % fld)
        else:
            R.fail([b.name, "slot-taken-not-under(%s==arg)" % fld], "%s releases a connecting slot whose %s does not equal the requested one (or compares with something else): another pending connect is cancelled / the SYN-ACK completes the wrong connect" % (fn, fld.split(".")[1]),
                   where=b.where(), instance="slot-selected-by-own-key")
    ins = R.body("socket::ConnectingPerAddr::insert")
    fills = {s.bb for s in ins.stmts() if s.place.proj == ["*"] and s.rv.kind == "agg" and s.rv.j.get("variant") == "Some"} | {s.bb for s in ins.stmts() if field_update(ins, s) and field_update(ins, s).field == "ConnectingPerAddr.len" and field_update(ins, s).op == "+="}
    rt = [(it, cls) for it, cls in ret_assignments(ins)]
    t_after = [it for it, cls in rt if cls in ("const:1", "true")]
    f_after = [it for it, cls in rt if cls in ("const:0", "false")]
    ok_t = t_after and all(must_pass_blocks(ins, [it.bb], fills)[0] for it in t_after)
    ok_f = all(it.bb not in ins.reachable(x) or it.bb in fills for it in f_after for x in fills) if f_after else True
    if fills and ok_t and ok_f:
        R.ok("insert-reports-fill", ins.name, "true exactly on the path that stored the request")
    else:
        R.fail([ins.name, "return-value-vs-fill", "true-after-fill=%s false-never-after-fill=%s" % (bool(ok_t), bool(ok_f))], "ConnectingPerAddr::insert's result no longer says whether the request was stored: the caller's connection-id bookkeeping diverges", where=ins.where(), instance="insert-reports-fill")
    found = False
    for b in fn_bodies(F, D + "::on_control"):
        adv = [t for t in b.calls() if call_matches(t, ("AddAssign::add_assign",)) and trace(b, t.args[0]).last_field == "Dispatcher.next_connection_id"]
        for t in adv:
            found = True
            on_true = any(c.kind == "call" and call_matches(c.call, ("socket::ConnectingPerAddr::insert",)) and truth for c, truth, d, *_ in controlling(b, t.bb))
            if on_true and t.args[1].kind == "const" and t.args[1].scalar == 2:
                R.ok("conn-id-advances", D + "::on_control", "next_connection_id += 2 when the connect was registered")
            else:
                R.fail([D + "::on_control", "next_connection_id", "step=%s under-insert-true=%s" % (t.args[1].scalar if t.args[1].kind == "const" else "?", on_true)], "the outgoing connection id is not advanced by 2 after a registered connect: concurrent connects to one peer reuse an id (or collide with the +1 send id)", where=t.where(), instance="conn-id-advances")
    if not found:
        R.fail([D + "::on_control", "next_connection_id-never-advanced"], "on_control no longer advances next_connection_id after registering a connect: every pending connect to a peer uses the same connection id", instance="conn-id-advances")


@rule("C13.8", ["C13"], ["E2"], "an accept request is taken from the channel only when none is parked",
      "AcceptQueue::try_next_acceptor calls rx.try_recv() only on the path where next_available_acceptor.take() returned None: an eager `.or(self.rx.try_recv().ok())` receives (and drops) a second "
      "request whenever a parked one is handed out - that accept() call never completes although the peer's connection is established.")
def c13_8(R):
    b = R.body("socket::AcceptQueue::try_next_acceptor")
    tr = [t for t in b.calls() if (t.resolved or "").endswith("UnboundedReceiver::try_recv") or (t.callee or "").endswith("::try_recv")]
    R.floor("try_recv in try_next_acceptor", len(tr), 1)
    for t in tr:
        ok = False
        for c, truth, d, *_ in controlling(b, t.bb):
            if c.kind == "discr" and d.endswith("=None") and c.trace.kind == "call" and call_matches(c.trace.root[1], ("Option::take",)) and trace(b, c.trace.root[1].args[0]).last_field == "AcceptQueue.next_available_acceptor":
                ok = True
        if ok:
            R.ok("recv-only-if-none-parked", b.name, "try_recv() under next_available_acceptor.take() = None")
        else:
            R.fail([b.name, "try_recv-not-under(parked=None)"], "a request is received from the accept channel even when a parked acceptor is handed out: the received one is dropped and its accept() never returns", where=t.where(), instance="recv-only-if-none-parked")


@rule("C13.9", ["C13"], ["E2", "E7"], "a parked SYN that could not be paired goes back to the head of the backlog",
      "Dispatcher::cleanup_accept_queue pops the oldest parked SYN and tries to pair it. Whenever the attempt hands the SYN back - no acceptor is waiting, the acceptor turned out to be dead "
      "(ReceiverDead), the table is full (Full) - every way on (next iteration or return) passes syns.push_front: otherwise the connection request is silently lost and, being the oldest, "
      "its initiator waits for a SYN-ACK that will never come.")
def c13_9(R):
    from utpsa.flow import must_pass_blocks
    b = R.body("socket::Dispatcher::cleanup_accept_queue")
    pf = {t.bb for t in b.calls() if call_matches(t, ("VecDeque::push_front",)) and t.args and trace(b, t.args[0]).last_field == "AcceptQueue.syns"}
    R.floor("syns.push_front sites in cleanup_accept_queue", len(pf), 3)
    heads = {v for (_u, v) in b.back_edges()}
    stops = set(b.return_blocks()) | heads
    n = 0
    for blk in b.blocks:
        if blk.cleanup or blk.term.kind != "switch":
            continue
        for tgt, lab in b.edges(blk.idx):
            d = describe_cond(b, blk.term, lab)
            what = None
            if d.startswith("discr:") and d.endswith(("=ReceiverDead", "=Full")) and "match_syn_with_accept" in d:
                what = d.rsplit("=", 1)[1]
            elif d.startswith("discr:") and "try_next_acceptor" in d and d.endswith("=None"):
                what = "no-acceptor"
            if what is None:
                continue
            n += 1
            reach = b.reachable(tgt, removed_blocks=pf)
            lost = [x for x in stops if x in reach and x != tgt] if tgt not in pf else []
            if not lost:
                R.ok("handed-back-syn-requeued", "%s (%s)" % (b.name, what), "every way on passes syns.push_front")
            else:
                R.fail([b.name, "syn-not-requeued", what], "after the pairing attempt handed the SYN back (%s) cleanup_accept_queue can go on without syns.push_front: the oldest pending connection request is dropped" % what,
                       where=blk.term.where(), instance="handed-back-syn-requeued")
    R.floor("hand-back outcomes in cleanup_accept_queue", n, 3)
