"""C16 RTO estimator: every stored RTO is the output of the clamp; constants."""
from .common import *
from utpsa.bounds import Bounds, fmt as fmt_ub, TOP

CLAMP_TAG = ("clamped", "const rtte::RTTE_MIN_RTO", "const rtte::RTTE_MAX_RTO")
RTO_FIELDS = ("RttState::Initial.rto", "RttState::Subsequent.rto")


def refers_to_rto(b, x, depth=0):
    """does this place/operand (a `&mut rto` binding, possibly bound by an or-pattern over both variants, or picked by a match that yields the
    reference) point at a stored rto?  Returns 'RttState::Initial.rto', '...Subsequent.rto' or both joined by '|'."""
    if depth > 6:
        return None
    t = trace(b, x)
    if t.last_field in RTO_FIELDS:
        return t.last_field
    if t.kind == "multi" and not t.fields:
        hits = set()
        for d in t.root[3]:
            r = None
            if isinstance(d, Stmt) and d.rv.kind == "ref" and d.rv.place is not None:
                ff, _, _ = place_fields(b, d.rv.place)
                if ff and ff[-1] in RTO_FIELDS:
                    r = ff[-1]
                elif not ff:
                    # a reborrow `&mut *other_ref`
                    r = refers_to_rto(b, Place({"l": d.rv.place.local, "p": []}), depth + 1)
            elif isinstance(d, Stmt) and d.rv.kind == "use" and d.rv.ops[0].place is not None:
                r = refers_to_rto(b, d.rv.ops[0], depth + 1)
            if r is None:
                return None
            hits.update(r.split("|"))
        if hits:
            return "|".join(sorted(hits))
    return None


@rule("C16.1", ["C16", "C06"], ["E5", "E1"], "the retransmission timeout is always the output of clamp(200 ms, 60 s)",
      "Every write of RttState::{Initial,Subsequent}.rto - through a `&mut rto` binding or inside an RttState aggregate - carries the sanitiser tag of rtte::clamp (directly or via calc_rto, whose return "
      "is clamp(..)), or is the constant RTTE_INITIAL_RTT (300 ms, inside the range); clamp is Duration::clamp(RTTE_MIN_RTO, RTTE_MAX_RTO); RttEstimator.state is written only in sample / Default.")
def c16_1(R):
    F = R.facts
    B = Bounds(F)
    cl = R.body("rtte::clamp")
    okc = False
    for t in cl.calls():
        if call_matches(t, ("Ord::clamp",)) and t.dest.local == 0:
            lo, hi = t.args[1], t.args[2]
            if lo.const_item == "rtte::RTTE_MIN_RTO" and hi.const_item == "rtte::RTTE_MAX_RTO" and trace(cl, t.args[0]).kind == "param":
                okc = True
    if okc:
        R.ok("clamp-shape", cl.name, "rto.clamp(RTTE_MIN_RTO, RTTE_MAX_RTO)")
    else:
        R.fail([cl.name, "shape"], "rtte::clamp is no longer Duration::clamp(RTTE_MIN_RTO, RTTE_MAX_RTO) of its argument", where=cl.where(), instance="clamp-shape")
    n = 0
    init_ns = const_duration_ns(F, "rtte::RTTE_INITIAL_RTT")
    lo_ns, hi_ns = const_duration_ns(F, "rtte::RTTE_MIN_RTO"), const_duration_ns(F, "rtte::RTTE_MAX_RTO")
    for b in F.bodies(lambda x: "rtte::" in x):
        for s in b.stmts():
            val = None
            what = None
            # (a) `*rto = v` through a &mut binding of the field
            if s.place.proj == ["*"]:
                rf = refers_to_rto(b, Place({"l": s.place.local, "p": []}))
                if rf:
                    val, what = s.rv.ops[0] if s.rv.ops else None, "*rto (%s)" % rf.replace("RttState::", "").replace(".rto", "")
            # (b) direct field write
            f = written_field(b, s)
            if f in ("RttState::Initial.rto", "RttState::Subsequent.rto"):
                val, what = s.rv.ops[0] if s.rv.ops else None, f
            # (c) aggregate
            if s.rv.kind == "agg" and s.rv.j.get("adt") == "rtte::RttState":
                i = s.rv.j["fields"].index("rto")
                val, what = s.rv.ops[i], "RttState::%s{rto}" % s.rv.j["variant"]
            if what is None:
                continue
            n += what.count("|") + 1  # one store through a reference that a match picked from both states stands for two
            if val is not None and val.kind == "const" and val.const_item == "rtte::RTTE_INITIAL_RTT":
                if init_ns is not None and lo_ns <= init_ns <= hi_ns:
                    R.ok("rto-write-clamped", "%s %s" % (b.name.split("::")[-1], what), "constant RTTE_INITIAL_RTT = %d ms within range" % (init_ns // 1_000_000))
                else:
                    R.fail([b.name, what, "initial-rto-out-of-range"], "RTTE_INITIAL_RTT lies outside [RTTE_MIN_RTO, RTTE_MAX_RTO]", where=s.where(), instance="rto-write-clamped")
                continue
            u = B.ub(b, val) if val is not None else frozenset()
            if u is not TOP and CLAMP_TAG in u:
                R.ok("rto-write-clamped", "%s %s" % (b.name.split("::")[-1], what), "value is the output of clamp")
            else:
                R.fail([b.name, "write(rto)", what, "not-clamped"], "%s stores an RTO that did not pass through clamp(RTTE_MIN_RTO, RTTE_MAX_RTO)" % b.name.split("::")[-1], where=s.where(), instance="rto-write-clamped")
    # compound assignment through a call: `*rto *= 2` is <Duration as MulAssign>::mul_assign(&mut *rto, 2)
    for b in F.bodies(lambda x: "rtte::" in x):
        for t in b.calls():
            if t.args and (t.callee or "").startswith("std::ops::") and (t.callee or "").endswith("_assign"):
                if refers_to_rto(b, t.args[0]):
                    n += 1
                    R.fail([b.name, "write(rto)", short_callee(t.callee), "not-clamped"], "%s modifies the stored RTO in place (%s) without passing the result through clamp(RTTE_MIN_RTO, RTTE_MAX_RTO)" % (b.name.split("::")[-1], short_callee(t.callee)), where=t.where(), instance="rto-write-clamped")
    R.floor("writes of rto", n, 5)
    # every sample recomputes the RTO (a backed-off value must not survive the next sample)
    sm = R.body("rtte::RttEstimator::sample")
    wb = set()
    for s_ in sm.stmts():
        if s_.place.proj == ["*"]:
            if refers_to_rto(sm, Place({"l": s_.place.local, "p": []})):
                wb.add(s_.bb)
        if s_.rv.kind == "agg" and s_.rv.j.get("adt") == "rtte::RttState":
            wb.add(s_.bb)
        if written_field(sm, s_) in ("RttState::Initial.rto", "RttState::Subsequent.rto"):
            wb.add(s_.bb)
    okw, _ = must_pass_blocks(sm, sm.return_blocks(), wb)
    if okw and wb:
        R.ok("sample=>rto-recomputed", sm.name, "every path of sample() stores a freshly computed rto")
    else:
        path = shortest_path(sm, 0, sm.return_blocks(), removed_blocks=wb)
        R.fail([sm.name, "return-without(rto-write)"], "RttEstimator::sample can return without recomputing the RTO: a value doubled by timeouts survives the next sample", where=sm.where(), witness=path_lines(sm, path), instance="sample=>rto-recomputed")
    for b, s in census_field_writes(F, "RttEstimator.state"):
        if b.name in ("rtte::RttEstimator::sample",) or b.trait == "std::default::Default":
            R.ok("state-writers", b.name)
        else:
            R.fail([owner_fn(b), "write(RttEstimator.state)"], "the estimator state is replaced at an unaudited site", where=s.where(), instance="state-writers")
    rt = R.body("rtte::RttEstimator::retransmission_timeout")
    src = set()
    for s in rt.stmts():
        if s.place.local == 0 and s.rv.ops:
            src |= {trace(rt, s.rv.ops[0]).last_field}
    if src <= {"RttState::Initial.rto", "RttState::Subsequent.rto"} and src:
        R.ok("rto-getter", rt.name, "returns the stored rto")
    else:
        R.fail([rt.name, "sources=%s" % sorted(str(x) for x in src)], "retransmission_timeout no longer returns the stored (clamped) rto", where=rt.where(), instance="rto-getter")


@rule("C16.2", ["C16", "C06"], ["E7", "E4"], "RFC 6298 constants and shapes",
      "RTTE_MIN_RTO = 200 ms, RTTE_MAX_RTO = 60 s, K = 4, CLOCK_GRANULARITY = 10 ms; calc_rto = clamp(srtt + max(rttvar * K, CLOCK_GRANULARITY)); on_rto_timeout stores clamp(rto * 2) in both states; "
      "sample (subsequent): rttvar = rttvar*3/4 + |srtt - r|/4 computed before srtt = (srtt*7 + r)/8, then rto = calc_rto(srtt, rttvar).")
def c16_2(R):
    F = R.facts
    for name, want in (("rtte::RTTE_MIN_RTO", 200_000_000), ("rtte::RTTE_MAX_RTO", 60_000_000_000), ("rtte::CLOCK_GRANULARITY", 10_000_000)):
        ns = const_duration_ns(F, name)
        if ns == want:
            R.ok("constants", name.split("::")[-1], "= %d ms" % (want // 1_000_000))
        else:
            R.fail([name, "ns=%s" % ns], "%s is %s ns, expected %d ms" % (name, ns, want // 1_000_000), instance="constants")
    if F.const_scalar("rtte::K") == 4:
        R.ok("constants", "K", "= 4")
    else:
        R.fail(["rtte::K", str(F.const_scalar("rtte::K"))], "K is not 4", instance="constants")
    cr = R.body("rtte::calc_rto")
    ok = False
    for t in cr.calls():
        if call_matches(t, ("rtte::clamp",)) and t.dest.local == 0:
            a = trace(cr, t.args[0])
            if a.kind == "call" and "Add" in (a.root[1].callee or ""):
                x, y = trace(cr, a.root[1].args[0]), trace(cr, a.root[1].args[1])
                if x.kind == "param" and x.root[1] == 1 and y.kind == "call" and call_matches(y.root[1], ("Ord::max",)):
                    m = trace(cr, y.root[1].args[0])
                    g = y.root[1].args[1]
                    if m.kind == "call" and "Mul" in (m.root[1].callee or "") and trace(cr, m.root[1].args[0]).kind == "param" and m.root[1].args[1].const_item == "rtte::K" and g.const_item == "rtte::CLOCK_GRANULARITY":
                        ok = True
    if ok:
        R.ok("calc_rto-shape", cr.name, "clamp(srtt + max(rttvar * K, G))")
    else:
        R.fail([cr.name, "shape"], "calc_rto is no longer clamp(srtt + max(rttvar * K, CLOCK_GRANULARITY))", where=cr.where(), instance="calc_rto-shape")
    ot = R.body("rtte::RttEstimator::on_rto_timeout")
    covered = set()
    for t in ot.calls():
        if call_matches(t, ("rtte::clamp",)):
            a = trace(ot, t.args[0])
            if a.kind == "call" and "Mul" in (a.root[1].callee or "") and a.root[1].args[1].scalar == 2:
                rf = refers_to_rto(ot, a.root[1].args[0])
                if rf:
                    covered.update(rf.split("|"))
    n = len(covered)
    if covered == set(RTO_FIELDS):
        R.ok("backoff-doubles", ot.name, "clamp(rto * 2) in both states")
    else:
        R.fail([ot.name, "doubling-sites=%d" % n], "a timeout no longer doubles the RTO (within the clamp) in both estimator states", where=ot.where(), instance="backoff-doubles")
    sm = R.body("rtte::RttEstimator::sample")
    # RFC 6298 2.3 smoothing factors: RTTVAR = 3/4 RTTVAR + 1/4 |SRTT - R|, SRTT = (7 SRTT + R) / 8
    coef = sorted((short_callee(t.resolved).split("::")[-1], t.args[1].scalar) for t in sm.calls() if t.is_call and len(t.args) == 2 and t.args[1].kind == "const" and isinstance(t.args[1].scalar, int)
                  and (t.callee or "").startswith("std::ops::") and "Duration" in (t.callee_full or t.resolved or "") and short_callee(t.resolved).split("::")[-1] in ("mul", "div"))
    subs_coef = [c for c in coef if c in (("mul", 3), ("div", 4), ("mul", 7), ("div", 8))]
    if sorted(subs_coef) == [("div", 4), ("div", 4), ("div", 8), ("mul", 3), ("mul", 7)]:
        R.ok("smoothing-factors", sm.name, "alpha = 1/8, beta = 1/4")
    else:
        R.fail([sm.name, "smoothing-factors", ",".join("%s%d" % c for c in coef)], "the RTT smoothing no longer uses alpha = 1/8, beta = 1/4 (RTTVAR*3/4 + |d|/4, (SRTT*7 + R)/8)", where=sm.where(), instance="smoothing-factors")
    # the RTO of a sample is computed from the UPDATED estimator: in the Subsequent arm calc_rto comes after both stores
    stores = {}
    for s_ in sm.stmts():
        if s_.place.proj == ["*"]:
            lf = trace(sm, Place({"l": s_.place.local, "p": []})).last_field
            if lf in ("RttState::Subsequent.srtt", "RttState::Subsequent.rttvar"):
                stores[lf] = s_
    sub_calls = [t for t in sm.calls() if call_matches(t, ("rtte::calc_rto",)) and any(d.endswith("=Subsequent") for _c, _t, d, *_ in controlling(sm, t.bb))]

    def new_value(call, arg, field):
        """the argument is the updated estimate: the field read after its store, or the very value that is stored into the field"""
        st = stores.get(field)
        if st is None:
            return False
        ta = trace(sm, arg)
        if ta.last_field == field:
            return point_reaches(sm, st, call) and not point_reaches(sm, call, st)
        return bool(st.rv.ops) and st.rv.kind == "use" and ta.key() == trace(sm, st.rv.ops[0]).key() and ta.kind != "param"
    if sub_calls and len(stores) >= 2 and all(len(c.args) == 2 and new_value(c, c.args[0], "RttState::Subsequent.srtt") and new_value(c, c.args[1], "RttState::Subsequent.rttvar") for c in sub_calls):
        R.ok("rto-from-updated-estimator", sm.name, "calc_rto(*srtt, *rttvar) after both smoothing stores")
    else:
        R.fail([sm.name, "calc_rto-before-update"], "the RTO stored after a sample is computed before SRTT / RTTVAR are updated: it is not SRTT + 4 * RTTVAR of the new estimate", where=(list(sub_calls)[0].where() if sub_calls else sm.where()), instance="rto-from-updated-estimator")
    halves = [t for t in sm.calls() if t.is_call and len(t.args) == 2 and t.args[1].kind == "const" and t.args[1].scalar == 2 and "Duration" in (t.callee_full or t.resolved or "") and short_callee(t.resolved).split("::")[-1] == "div"]
    if halves:
        R.ok("first-sample", sm.name, "RTTVAR = R / 2")
    else:
        R.fail([sm.name, "first-sample-rttvar"], "the first sample no longer sets RTTVAR = R / 2 (RFC 6298 2.2)", where=sm.where(), instance="first-sample")
    # order of the two smoothing updates: rttvar first (uses the old srtt)
    wv = ws = None
    for s in sm.stmts():
        if s.place.proj == ["*"]:
            t = trace(sm, Place({"l": s.place.local, "p": []}))
            if t.last_field == "RttState::Subsequent.rttvar":
                wv = s
            if t.last_field == "RttState::Subsequent.srtt":
                ws = s
    if wv is not None and ws is not None and (ws.bb in sm.reachable(wv.bb)) and not (wv.bb in sm.reachable(ws.bb) and wv.bb != ws.bb) and ((wv.bb, wv.idx) < (ws.bb, ws.idx) or wv.bb != ws.bb):
        R.ok("rttvar-before-srtt", sm.name, "RTTVAR is updated with the old SRTT")
    else:
        R.fail([sm.name, "update-order"], "SRTT is updated before RTTVAR (RFC 6298 2.3 requires the old SRTT in the variance update)", where=sm.where(), instance="rttvar-before-srtt")


@rule("C16.3", ["C16"], ["E4", "E1"], "the estimator is fed the measured round trip, not a trimmed one",
      "RFC 6298 smooths the samples themselves; SRTT stays between the smallest and the largest sample only if every sample enters the formulas as measured. In RttEstimator::sample the parameter "
      "reaches srtt / rttvar without passing through min / max / clamp (the result - the RTO - is what is clamped, C16.1): a sample capped at the maximum RTO makes SRTT = 60 s after a single 90 s "
      "handshake, below every sample seen.")
def c16_3(R):
    b = R.body("rtte::RttEstimator::sample")
    bad = []
    uses = 0
    for t in b.calls():
        for i, a in enumerate(t.args):
            tr = trace(b, a)
            if tr.kind == "param" and tr.root[1] == 2 and not tr.fields:
                uses += 1
                if call_matches(t, ("Ord::min", "Ord::max", "Ord::clamp", "Duration::min", "Duration::max", "Duration::clamp", "saturating_sub", "saturating_add")):
                    bad.append(t)
    for s in b.stmts():
        for o in (s.rv.ops if s.rv is not None else []):
            tr = trace(b, o) if o.kind != "const" else None
            if tr is not None and tr.kind == "param" and tr.root[1] == 2 and not tr.fields:
                uses += 1
    R.floor("uses of the sample parameter in RttEstimator::sample", uses, 2)
    if bad:
        R.fail([b.name, "sample-trimmed-before-use", short_callee(bad[0].resolved or bad[0].callee)], "RttEstimator::sample passes the measured RTT through %s before smoothing it: SRTT can leave the range of the samples seen"
               % short_callee(bad[0].resolved or bad[0].callee), where=bad[0].where(), instance="sample-enters-as-measured")
    else:
        R.ok("sample-enters-as-measured", b.name, "new_rtt reaches the smoothing formulas unmodified (%d uses)" % uses)
