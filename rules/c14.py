"""C14 path-MTU discovery: size ceilings as inductive field invariants; probe discipline; failure paths lower the ceiling."""
from .common import *
from .c02 import VS
from .c05 import SPLIT, STQ
from utpsa.bounds import Bounds, fmt as fmt_ub, TOP
from utpsa.wake import variant_of_edge
from utpsa.flow import controlling_edges, describe_cond

SS = "mtu::SegmentSizes"
GHOST = ("ghost", "link-ceiling")


@rule("C14.1", ["C14"], ["E5", "E4"], "segment sizes never exceed the ceiling derived from the configured link MTU",
      "Ghost ceiling C = the max_ss computed by SegmentSizes::new = calc(max(link_mtu, floor)), with min_ss = calc(min(default_min_mtu, that link_mtu)) and calc monotone (audited establishment). "
      "Inductive invariant min_ss <= C and max_ss <= C: every write of either field in every other method must carry the bound (upper-bound tag dataflow, reading a field yields its own tag plus C); "
      "then mss(), max_ss() and next_segment_size() carry <= C, and enqueue's payload_len carries <= next_segment_size() (C05.2).")
def c14_1(R):
    F = R.facts
    B = Bounds(F, field_invariants={"SegmentSizes.min_ss": {GHOST}, "SegmentSizes.max_ss": {GHOST}})
    new = R.body(SS + "::new")
    # establishment: evaluated symbolically (whatever the spelling - closure, helper, inline): max_ss = A - H, min_ss = min(_, A) - H for the same per-family
    # header constant H, where A = max(config.link_mtu, _)
    okn = False
    why = "no SegmentSizes aggregate"
    for s in new.stmts():
        if s.rv.kind == "agg" and s.rv.j.get("adt") == SS:
            names = s.rv.j["fields"]
            vmin = _fam_lin(F, new, s.rv.ops[names.index("min_ss")])
            vmax = _fam_lin(F, new, s.rv.ops[names.index("max_ss")])
            why = "min_ss / max_ss are not (one quantity) - (a constant per address family)"
            if vmin is None or vmax is None or len(vmin[0]) != 1 or len(vmax[0]) != 1 or list(vmin[0].values()) != [1] or list(vmax[0].values()) != [1]:
                continue
            why = "the two sizes subtract different constants"
            if vmin[1] != vmax[1]:
                continue
            (kmax,), (kmin,) = vmax[0].keys(), vmin[0].keys()
            why = "max_ss is not derived from max(config.link_mtu, floor)"
            if not (kmax[0] == "call" and call_matches(kmax[1], ("Ord::max",)) and any(("field", "SegmentSizesConfig.link_mtu") in value_sources(new, a) for a in kmax[1].args)):
                continue
            why = "min_ss is not derived from min(default, the clamped link MTU)"
            if not (kmin[0] == "call" and call_matches(kmin[1], ("Ord::min",)) and any(trace(new, a).kind == "call" and trace(new, a).root[1] is kmax[1] and not trace(new, a).fields for a in kmin[1].args)):
                continue
            okn = True
    if okn:
        R.ok("ceiling-established", new.name, "max_ss = A - H, min_ss = min(default, A) - H with A = max(config.link_mtu, floor): min_ss <= max_ss <= link ceiling", verdict="symbolic evaluation")
    else:
        R.fail([new.name, "establishment-shape"], "SegmentSizes::new no longer derives min_ss/max_ss from the configured link MTU so that min_ss <= max_ss <= link ceiling (%s)" % why, where=new.where(), instance="ceiling-established")
    # preservation
    n = 0
    for b in F.bodies(lambda x: x.startswith(SS + "::") and x != new.name):
        for s in b.stmts():
            f = written_field(b, s)
            if f in ("SegmentSizes.min_ss", "SegmentSizes.max_ss"):
                n += 1
                if s.rv.kind == "use":
                    u = B.ub(b, s.rv.ops[0])
                else:
                    u = frozenset()
                if u is TOP or GHOST in u:
                    R.ok("ceiling-preserved", "%s write(%s)" % (b.name.split("::")[-1], f), "ub = " + fmt_ub(u))
                else:
                    R.fail([b.name, "write(%s)" % f, "unbounded-by(link-ceiling)", "ub=" + fmt_ub(u)],
                           "%s stores into %s a value that is not bounded by the link-MTU ceiling (ub = %s): a peer-controlled size can raise our segment size above what the configured link MTU allows" % (b.name.split("::")[-1], f, fmt_ub(u)),
                           where=s.where(), instance="ceiling-preserved")
    R.floor("writes of min_ss/max_ss outside new", n, 3)
    for other in F.bodies(lambda x: not x.startswith(SS + "::")):
        for s in other.stmts():
            if written_field(other, s) in ("SegmentSizes.min_ss", "SegmentSizes.max_ss"):
                R.fail([owner_fn(other), "write(SegmentSizes.*_ss)"], "segment-size fields written outside SegmentSizes", where=s.where(), instance="ceiling-preserved")
    # consequences
    for fn in ("mss", "max_ss", "next_segment_size"):
        u = B.summary(SS + "::" + fn)
        if u is TOP or GHOST in u:
            R.ok("size-getter<=ceiling", fn, "ub = " + fmt_ub(u))
        else:
            R.fail([SS + "::" + fn, "return-unbounded-by(link-ceiling)", "ub=" + fmt_ub(u)], "%s() can return a size above the link-MTU ceiling" % fn, instance="size-getter<=ceiling")
    # who feeds on_payload_delivered (documentation of the peer-controlled source)
    for b, t in census_calls(R, F, (SS + "::on_payload_delivered",)):
        R.note("on_payload_delivered(%s) in %s" % (sources_str(b, t.args[1]), owner_fn(b).split("::")[-1]))


@rule("C14.2", ["C14"], ["E2", "E6"], "at most one probe is outstanding and it is the newest segment",
      "is_mtu_probe is `payload_size > mss()`; after enqueuing a probe the segmentation loop cannot continue; nothing is enqueued when pop_expired_mtu_probe returned NotExpired; "
      "pop_mtu_probe removes only under last_segment_seq_nr == seq_nr && is_mtu_probe && !is_delivered; a probe expires only under (retransmit_timed_out, is_mtu_probe) = (true, true) && "
      "retransmit_count() >= max_probe_retransmissions.")
def c14_2(R):
    sp = R.body(SPLIT)
    enq = [t for t in sp.calls() if call_matches(t, ("stream_tx_segments::Segments::enqueue",))]
    R.require(len(enq) == 1, "enqueue in split_tx_queue_into_segments")
    e = enq[0]
    pt = trace(sp, e.args[2], through_casts=False)
    okp = False
    plocal = None
    if pt.kind in ("rv", "multi"):
        st = pt.root[1] if pt.kind == "rv" else None
        if pt.kind == "multi":
            plocal = pt.root[1]
            ds = [d for d in pt.root[3] if isinstance(d, Stmt)]
            st = ds[0] if len(ds) == 1 else None
        o = rv_ordering(st.rv) if st is not None else None
        if o is not None and o[2]:
            # mss() < payload_size
            a = trace(sp, o[1])
            c = value_sources(sp, o[0])
            if trace(sp, e.args[1]).key() == a.key() and ("call", "mtu::SegmentSizes::mss") in c:
                okp = True
    if okp:
        R.ok("probe<=>size>mss", SPLIT, "is_mtu_probe = payload_size > mss()")
    else:
        R.fail([SPLIT, "is_mtu_probe-shape", pt.describe()[:60]], "is_mtu_probe is no longer `payload_size > mss()` of the enqueued size", where=e.where(), instance="probe<=>size>mss")
    # stop after a probe
    loops = [blocks for h, blocks in sp.natural_loops() if e.bb in blocks]
    R.require(loops, "segmentation loop")
    loop = min(loops, key=len)
    back_src = [u for (u, v) in sp.back_edges() if u in loop and v in loop]
    stop_ok = False
    after = sp.reachable(e.j["target"])
    for blk in sp.blocks:
        if blk.cleanup or blk.term.kind != "switch" or blk.idx not in after or blk.idx not in loop:
            continue
        c, neg = switch_cond(sp, blk.term)
        if True:
            t0 = trace(sp, blk.term.op)
            same = (t0.key() == pt.key())
            if same:
                be = bool_edges(sp, blk.idx)
                tgt = be[0] if neg else be[1]
                reach = sp.reachable(tgt)
                if not any(u in reach for u in back_src):
                    stop_ok = True
    if stop_ok:
        R.ok("probe=>stop-segmenting", SPLIT, "after enqueuing a probe the loop is left")
    else:
        R.fail([SPLIT, "probe-enqueued-loop-continues"], "after enqueuing an MTU probe the segmentation loop can continue: the probe is no longer the newest segment / more than one probe can be outstanding", where=e.where(), instance="probe=>stop-segmenting")
    # NotExpired => nothing enqueued
    okn = False
    for blk in sp.blocks:
        if blk.cleanup or blk.term.kind != "switch":
            continue
        for tgt, lab in sp.edges(blk.idx):
            c, var = variant_of_edge(sp, blk.term, lab)
            if c is not None and var == "NotExpired" and c.trace.kind == "call" and call_matches(c.trace.root[1], ("Segments::pop_expired_mtu_probe",)):
                if e.bb not in sp.reachable(tgt):
                    okn = True
                else:
                    R.fail([SPLIT, "enqueue-reachable-with-outstanding-probe"], "new segments can be enqueued while an unexpired MTU probe is outstanding (it would no longer be the newest segment)", where=blk.term.where(), instance="outstanding-probe=>no-enqueue")
    if okn:
        R.ok("outstanding-probe=>no-enqueue", SPLIT, "PopExpiredProbe::NotExpired returns before the segmentation loop")
    pe = [t for t in sp.calls() if call_matches(t, ("Segments::pop_expired_mtu_probe",))]
    R.floor("pop_expired_mtu_probe call", len(pe), 1)
    if pe and e.bb in sp.reachable(pe[0].bb) and pe[0].bb in sp.dominators().get(e.bb, ()):
        R.ok("expiry-check-dominates-enqueue", SPLIT)
    else:
        R.fail([SPLIT, "enqueue-not-dominated-by(pop_expired_mtu_probe)"], "segmentation can run without first checking for an outstanding probe", where=e.where(), instance="expiry-check-dominates-enqueue")
    # pop_mtu_probe conditions
    pm = R.body("stream_tx_segments::Segments::pop_mtu_probe")
    decs = [s for s in pm.stmts() if (lambda fu: fu and fu.field == "Segments.len_bytes" and fu.op == "-=")(field_update(pm, s))]
    for s in decs:
        descs = [d for c, truth, d, *_ in controlling(pm, s.bb)]
        last = any("PartialEq>::eq=true" in d or ("eq=true" in d) for d in descs)
        if last:
            R.ok("pop-probe=>is-last", pm.name, "removal only when last_segment_seq_nr == seq_nr")
        else:
            R.fail([pm.name, "removal-not-under(last==seq_nr)", ",".join(sorted(descs))], "pop_mtu_probe can remove the last segment although EMSGSIZE was reported for a different sequence number", where=s.where(), instance="pop-probe=>is-last")
    # the result tells the caller whether a probe was really taken out: true only on a path that does not push the element back
    pushes = {t.bb for t in pm.calls() if call_on_field(pm, t, ("VecDeque::push_back",), "Segments.segments")}
    pops = {t.bb for t in pm.calls() if call_on_field(pm, t, ("VecDeque::pop_back",), "Segments.segments")}
    bad_t = [it for it, cls in ret_assignments(pm) if cls == "const:1" and (any(it.bb in pm.reachable(p) for p in pushes) or not must_pass_blocks(pm, [it.bb], pops)[0] or not any(d.endswith("=Some") for c, truth, d, *_ in controlling(pm, it.bb)))]
    bad_f = [it for it, cls in ret_assignments(pm) if cls == "const:0" and must_pass_blocks(pm, [it.bb], pops)[0] and any(d.endswith("=Some") for c, truth, d, *_ in controlling(pm, it.bb)) and not any(it.bb in pm.reachable(p) for p in pushes)]
    if not bad_t and not bad_f:
        R.ok("pop-probe-result", pm.name, "true <=> the last segment was removed and not pushed back")
    else:
        R.fail([pm.name, "result-vs-removal", "true-without-removal=%d false-after-removal=%d" % (len(bad_t), len(bad_f))], "pop_mtu_probe's result no longer says whether the probe was removed: the EMSGSIZE path lowers the ceiling and restarts for a segment that is still queued (or fails although it was removed)", where=(bad_t + bad_f)[0].where(), instance="pop-probe-result")
    px = R.body("stream_tx_segments::Segments::pop_expired_mtu_probe")
    for s in px.stmts():
        if s.rv.kind == "agg" and s.rv.j.get("variant") == "Expired":
            okx = False
            both = 0
            for c, truth, d, *_ in controlling(px, s.bb):
                for r_, x_, y_ in implied(c, truth):
                    if r_ != "le":
                        continue
                    a = trace(px, y_)
                    bsrc = value_sources(px, x_)
                    if a.kind == "call" and call_matches(a.root[1], ("Segment::retransmit_count",)) and ("param", 3) in bsrc:  # pop_expired_mtu_probe(self, retransmit_timed_out, max_probe_retransmissions)
                        okx = True
                if d.endswith("=true") and ("tuple." in d or "param#2" in d or "Segment.is_mtu_probe" in d):
                    both += 1
            if okx and both >= 2:
                R.ok("expiry-condition", px.name, "(timed_out, is_probe) = (true, true) && retransmit_count >= max_probe_retransmissions")
            else:
                R.fail([px.name, "expiry-condition", "count-check=%s tuple-true=%d" % (okx, both)], "a probe is declared expired under a different condition", where=s.where(), instance="expiry-condition")


@rule("C14.3", ["C14"], ["E3", "E4"], "both probe-failure paths lower the ceiling with the failed size",
      "EMSGSIZE path: pop_mtu_probe(seq_nr) = true is followed on every path by segment_sizes.on_probe_failed(size), disarm_cooldown and this_poll.restart = true, with (seq_nr, size) taken from the "
      "item whose send failed; otherwise Err(BugEmsgSizeNoProbe). Expiry path: PopExpiredProbe::Expired { payload_size, rewind_to } is followed by on_probe_failed(payload_size) and last_sent_seq_nr "
      "is lowered to at most rewind_to. on_probe_failed stores min(max_ss, size - 1).max(min_ss).")
def c14_3(R):
    F = R.facts
    stq = R.body(STQ)
    pm = [t for t in stq.calls() if call_matches(t, ("Segments::pop_mtu_probe",))]
    R.require(len(pm) == 1, "pop_mtu_probe call in send_tx_queue")
    t = pm[0]
    # true edge
    true_t = None
    for blk in stq.blocks:
        if blk.cleanup or blk.term.kind != "switch":
            continue
        c, neg = switch_cond(stq, blk.term)
        if c.kind == "call" and c.call is t:
            be = bool_edges(stq, blk.idx)
            true_t = be[0] if neg else be[1]
            false_t = be[1] if neg else be[0]
    R.require(true_t is not None, "branch on pop_mtu_probe's result")
    rets = stq.return_blocks()
    opf = {x.bb for x in stq.calls() if call_matches(x, ("mtu::SegmentSizes::on_probe_failed",))}
    dis = {x.bb for x in stq.calls() if call_matches(x, ("mtu::SegmentSizes::disarm_cooldown",))}
    rst = {s.bb for s in stq.stmts() if written_field(stq, s) == "ThisPoll.restart" and s.rv.ops and s.rv.ops[0].scalar == 1}
    miss = []
    for nm, blocks in (("on_probe_failed", opf), ("disarm_cooldown", dis), ("this_poll.restart=true", rst)):
        ok, _ = must_pass_blocks(stq, rets, blocks, start=true_t)
        if not ok or not blocks:
            miss.append(nm)
    if miss:
        R.fail([STQ, "emsgsize-path", "missing=" + ",".join(miss)], "after popping a too-large probe the path can finish without %s: the same oversized probe is retried forever or the loop is not restarted" % ", ".join(miss), where=t.where(), instance="emsgsize=>lower-ceiling")
    else:
        R.ok("emsgsize=>lower-ceiling", STQ, "on_probe_failed + disarm_cooldown + restart")
    # provenance of (seq_nr, size)
    for x in stq.calls():
        if call_matches(x, ("mtu::SegmentSizes::on_probe_failed",)):
            src = value_sources(stq, x.args[1])
            if ("call", "stream_tx_segments::SegmentForSending::payload_size") in src or any(s[0] == "field" and s[1].endswith("payload_size") for s in src):
                R.ok("failed-size-source", STQ, "size <- item.payload_size() of the failed send")
            else:
                R.fail([STQ, "on_probe_failed-arg", sources_str(stq, x.args[1])], "on_probe_failed is not given the payload size of the probe that failed", where=x.where(), instance="failed-size-source")
    ssrc = value_sources(stq, t.args[1])
    if ("call", "stream_tx_segments::SegmentForSending::seq_nr") in ssrc:
        R.ok("failed-seq-source", STQ, "seq_nr <- item.seq_nr() of the failed send")
    else:
        R.fail([STQ, "pop_mtu_probe-arg", sources_str(stq, t.args[1])], "pop_mtu_probe is not given the sequence number of the send that failed", where=t.where(), instance="failed-seq-source")
    berr = [cls for it, cls in ret_assignments(stq) if "BugEmsgSizeNoProbe" in cls and it.bb in stq.reachable(false_t)]
    if berr:
        R.ok("emsgsize-no-probe=>error", STQ)
    else:
        R.fail([STQ, "no-error-when-pop_mtu_probe-fails"], "EMSGSIZE for a non-probe segment no longer fails the connection", where=t.where(), instance="emsgsize-no-probe=>error")
    # expiry path
    sp = R.body(SPLIT)
    exp_t = None
    for blk in sp.blocks:
        if blk.cleanup or blk.term.kind != "switch":
            continue
        for tgt, lab in sp.edges(blk.idx):
            c, var = variant_of_edge(sp, blk.term, lab)
            if c is not None and var == "Expired" and c.trace.kind == "call" and call_matches(c.trace.root[1], ("Segments::pop_expired_mtu_probe",)):
                exp_t = tgt
    R.require(exp_t is not None, "Expired arm in split_tx_queue_into_segments")
    opf2 = [x for x in sp.calls() if call_matches(x, ("mtu::SegmentSizes::on_probe_failed",))]
    enq = [x.bb for x in sp.calls() if call_matches(x, ("stream_tx_segments::Segments::enqueue",))]
    ok, _ = must_pass_blocks(sp, enq + sp.return_blocks(), {x.bb for x in opf2}, start=exp_t)
    src_ok = any(any(s[0] == "field" and s[1].endswith("Expired.payload_size") for s in value_sources(sp, x.args[1])) or "payload_size" in trace(sp, x.args[1]).describe() for x in opf2)
    if ok and opf2 and src_ok:
        R.ok("expired=>lower-ceiling", SPLIT, "on_probe_failed(payload_size of the expired probe) before any re-segmentation")
    else:
        R.fail([SPLIT, "expired-path-without(on_probe_failed(payload_size))"], "an expired probe is popped without lowering the probing ceiling by its size: the same size is probed again forever", where=sp.where(), instance="expired=>lower-ceiling")
    # rewind: last_sent_seq_nr = rewind_to under last_sent_seq_nr > rewind_to
    rw = [s for s in sp.stmts() if written_field(sp, s) == "VirtualSocket.last_sent_seq_nr"]
    okr = False
    for s in rw:
        if "rewind_to" in trace(sp, s.rv.ops[0]).describe() and s.bb in sp.reachable(exp_t):
            okr = True
    if okr:
        R.ok("expired=>rewind", SPLIT, "last_sent_seq_nr lowered to rewind_to")
    else:
        R.fail([SPLIT, "expired-path-without(rewind)"], "after a probe expiry last_sent_seq_nr is not rewound: the re-segmented data is never sent", where=sp.where(), instance="expired=>rewind")
    # on_probe_failed shape
    b = R.body("mtu::SegmentSizes::on_probe_failed")
    B = Bounds(F)
    for s in b.stmts():
        if written_field(b, s) == "SegmentSizes.max_ss":
            shape_ok = False
            outer = select_minmax(b, s.rv.ops[0])  # the method form or the equivalent conditional
            if outer is not None and outer[0] == "max":
                for inner_t, floor_t in ((outer[1], outer[2]), (outer[2], outer[1])):
                    inner = None
                    if inner_t.kind == "call" and call_matches(inner_t.root[1], ("Ord::min", "Ord::max")):
                        inner = ("min" if call_matches(inner_t.root[1], ("Ord::min",)) else "max", trace(b, inner_t.root[1].args[0]), trace(b, inner_t.root[1].args[1]))
                    elif inner_t.kind == "multi" and not inner_t.fields:
                        inner = select_minmax(b, Place({"l": inner_t.root[1], "p": []}))
                    if inner is not None and inner[0] == "min" and floor_t.last_field == "SegmentSizes.min_ss":
                        for a0, a1 in ((inner[1], inner[2]), (inner[2], inner[1])):
                            if a0.last_field == "SegmentSizes.max_ss" and a1.kind == "call" and call_matches(a1.root[1], ("saturating_sub",)) and a1.root[1].args[1].scalar == 1 and ("param", 2) in value_sources(b, a1.root[1].args[0]):  # on_probe_failed(self, size)
                                shape_ok = True
            if shape_ok:
                R.ok("on_probe_failed-shape", b.name, "max_ss = min(max_ss, size - 1).max(min_ss)")
            else:
                R.fail([b.name, "shape"], "on_probe_failed no longer stores min(max_ss, size - 1).max(min_ss)", where=s.where(), instance="on_probe_failed-shape")


@rule("C14.4", ["C14", "C02"], ["E3"], "RTO mode cannot outlive a probe the sender removed itself",
      "The RTO path counts a retransmitted probe in rto_retransmissions (which blocks all other sends until an ACK clears it). When split_tx_queue_into_segments pops the expired probe "
      "(PopExpiredProbe::Expired) no ACK for it can ever arrive, so on every path from that arm rto_retransmissions is reset to 0 and the retransmit timer is turned off before anything else happens; "
      "otherwise the connection stays in RTO mode with an idle timer and never sends again.")
def c14_4(R):
    sp = R.body(SPLIT)
    exp_t = None
    for blk in sp.blocks:
        if blk.cleanup or blk.term.kind != "switch":
            continue
        for tgt, lab in sp.edges(blk.idx):
            c, var = variant_of_edge(sp, blk.term, lab)
            if c is not None and var == "Expired" and c.trace.kind == "call" and call_matches(c.trace.root[1], ("Segments::pop_expired_mtu_probe",)):
                exp_t = tgt
    R.require(exp_t is not None, "Expired arm in split_tx_queue_into_segments")
    resets = {s.bb for s in sp.stmts() if (lambda fu: fu and fu.field == "VirtualSocket.rto_retransmissions" and fu.op == "=" and fu.amount is not None and fu.amount.scalar == 0)(field_update(sp, s))}
    offs = {t.bb for t in sp.calls() if call_matches(t, ("stream_dispatch::Timer::turn_off",)) and trace(sp, t.args[0]).last_field == "Timers.retransmit"}
    ends = sp.return_blocks() + [x.bb for x in sp.calls() if call_matches(x, ("stream_tx_segments::Segments::enqueue",))]
    miss = []
    for nm, blocks in (("rto_retransmissions=0", resets), ("retransmit.turn_off", offs)):
        ok, _ = must_pass_blocks(sp, ends, blocks, start=exp_t)
        if not ok or not blocks:
            miss.append(nm)
    if miss:
        R.fail([SPLIT, "probe-expired-path", "missing=" + ",".join(miss)],
               "after an expired MTU probe is popped the path continues without %s: RTO mode (which blocks every send) can no longer be cleared by an ACK, the sender stalls forever" % ", ".join(miss),
               where=sp.blocks[exp_t].term.where(), instance="probe-expired=>leave-rto-mode")
    else:
        R.ok("probe-expired=>leave-rto-mode", SPLIT, "rto_retransmissions = 0 and retransmit.turn_off on every path from the Expired arm")


@rule("C14.5", ["C14"], ["E1", "E2", "E4"], "a payload size counts as proven deliverable only when a segment of that size was acknowledged",
      "SegmentSizes::on_payload_delivered is called with exactly two sources: OnAckResult.max_acked_payload_size of the ACK just processed, and the length of a payload received from the peer. In "
      "Segments::remove_up_to_ack the accumulator behind max_acked_payload_size is raised (x = x.max(segment.payload_size)) only for a segment drained by the cumulative ACK, or, in the selective-ACK "
      "closure, under bit = true for that segment - never for a segment that is merely inside the SACK range.")
def c14_5(R):
    F = R.facts
    n = 0
    for b, t in census_calls(R, F, (SS + "::on_payload_delivered",)):
        n += 1
        src = value_sources(b, t.args[1])
        tt = trace(b, t.args[1])
        from_ack = src == {("field", "OnAckResult.max_acked_payload_size")}
        from_peer = tt.kind == "call" and (tt.root[1].resolved or "").endswith("::len") and (lambda x: x.kind == "call" and call_matches(x.root[1], ("message::UtpMessage::payload",)))(trace(b, tt.root[1].args[0]))
        if from_ack or from_peer:
            R.ok("proven-size-sources", owner_fn(b), "acked segment size" if from_ack else "size of a payload received from the peer")
        else:
            R.fail([owner_fn(b), "on_payload_delivered", "source=" + sources_str(b, t.args[1])], "a payload size is recorded as deliverable from something other than an acknowledged segment or a received payload", where=t.where(), instance="proven-size-sources")
    R.floor("on_payload_delivered call sites", n, 2)
    ru = R.body("stream_tx_segments::Segments::remove_up_to_ack")
    acc = None
    for s in ru.stmts():
        if s.rv.kind == "agg" and s.rv.j.get("adt") == "stream_tx_segments::OnAckResult":
            i = s.rv.j["fields"].index("max_acked_payload_size")
            acc = copy_root(ru, s.rv.ops[i])
    R.require(acc is not None, "the local returned as OnAckResult.max_acked_payload_size")
    from utpsa.prov import upvar_origin
    raises = 0
    for b in [ru] + F.closures_of(ru.name):
        for t in b.calls():
            if not call_matches(t, ("Ord::max",)) or len(t.args) != 2:
                continue
            # x = x.max(seg.payload_size) stored back into the accumulator
            a0 = trace(b, t.args[0])
            is_acc = (b is ru and a0.kind in ("multi", "undef") and a0.root[1] == acc) or (a0.kind == "upvar" and (lambda o: o is not None and o[0] == "local" and o[1] == acc and o[2].name == ru.name)(upvar_origin(b, a0.root[1])))
            if not is_acc:
                continue
            raises += 1
            sz = trace(b, t.args[1])
            if sz.last_field != "Segment.payload_size":
                R.fail([ru.name, "max_acked_payload_size", "raised-by=" + sz.describe()[:50]], "the proven payload size is raised by something other than a segment's payload_size", where=t.where(), instance="proven-size=>acked-segment")
                continue
            if b is ru:
                seg = trace(ru, t.args[1])
                drained = seg.kind == "call" and call_matches(seg.root[1], ("Iterator::next",)) or any(isinstance(st, Term) and call_matches(st, ("Iterator::next",)) for st in seg.steps)
                if drained:
                    R.ok("proven-size=>acked-segment", "cumulative ACK", "raised for a drained (acknowledged) segment")
                else:
                    R.fail([ru.name, "max_acked_payload_size", "raised-outside-drain"], "the proven payload size is raised for a segment that is not being removed by the cumulative ACK", where=t.where(), instance="proven-size=>acked-segment")
            else:
                bit = any(c.kind in ("var", "multi", "field") and truth and c.trace.kind == "param" and c.trace.root[1] == 3 and not c.trace.fields for c, truth, d, *_ in controlling(b, t.bb))
                if bit:
                    R.ok("proven-size=>acked-segment", "selective ACK", "raised only under bit = true")
                else:
                    R.fail([ru.name, "max_acked_payload_size", "raised-for-unsacked-segment"], "the proven payload size is raised for a segment inside the SACK range whose bit is not set: an unacknowledged (possibly black-holed) probe size becomes the ordinary segment size", where=t.where(), instance="proven-size=>acked-segment")
    R.floor("sites raising max_acked_payload_size", raises, 2)


@rule("C14.6", ["C14", "C02"], ["E2"], "an expired probe is taken back on every poll that has data in the ring",
      "In split_tx_queue_into_segments every Ok exit other than the ones taken under an empty ring (tx_len == 0) or after the peer closed (is_remote_fin_or_later) has passed Segments::pop_expired_mtu_probe: it is the only place where a probe whose "
      "retransmissions ran out is removed, recorded as failed and re-cut; a fast path that returns before it leaves a black-holed probe in the queue until the connection dies.")
def c14_6(R):
    from .c02 import tx_len_zero_edges
    sp = R.body(SPLIT)
    pops = {t.bb for t in sp.calls() if call_matches(t, ("stream_tx_segments::Segments::pop_expired_mtu_probe",))}
    R.floor("pop_expired_mtu_probe in split_tx_queue_into_segments", len(pops), 1)
    zero = tx_len_zero_edges(sp)
    R.require(zero, "the tx_len == 0 test")
    # the other audited early exit: the peer has closed, nothing more is segmented
    closed = set()
    for blk in sp.blocks:
        if blk.cleanup or blk.term.kind != "switch" or blk.idx not in sp.live_blocks():
            continue
        c, neg = switch_cond(sp, blk.term)
        if c.kind == "call" and call_matches(c.call, ("VirtualSocketState::is_remote_fin_or_later",)):
            be = bool_edges(sp, blk.idx)
            closed.add((blk.idx, be[0] if neg else be[1]))
    reach = sp.reachable(0, removed_edges=set(zero) | closed, removed_blocks=pops)
    bad = [it for it, cls in ret_assignments(sp) if cls.startswith("Ok") and it.bb in reach]
    if not bad:
        R.ok("poll-with-data=>expired-probe-handled", sp.name, "every Ok exit with a non-empty ring passes pop_expired_mtu_probe")
    else:
        R.fail([sp.name, "Ok-exit-before(pop_expired_mtu_probe)"], "split_tx_queue_into_segments can return with data in the ring before looking for an expired MTU probe: a probe dropped by the path is never taken back",
               where=bad[0].where(), witness=path_lines(sp, shortest_path(sp, 0, [bad[0].bb], removed_edges=set(zero) | closed, removed_blocks=pops)), instance="poll-with-data=>expired-probe-handled")


@rule("C14.7", ["C14", "C10"], ["E4", "E3"], "the proven size never exceeds the ceiling: min_ss <= max_ss is preserved by every writer",
      "next_probe computes max_ss - min_ss (it overflows - a panic in checked builds, a 64 KiB 'probe' otherwise - as soon as min_ss > max_ss, and a peer can raise min_ss with a large payload). "
      "Outside SegmentSizes::new every store to max_ss is `x.max(self.min_ss)` where that read of min_ss is not followed by a later store to min_ss in the same function, and every store to min_ss "
      "is followed on every path by a store to max_ss (which re-establishes the order).")
def c14_7(R):
    F = R.facts
    n = 0
    for b in F.bodies(lambda nm: nm.startswith("mtu::SegmentSizes::") and not nm.endswith("::new")):
        wmax = [s for s in b.stmts() if written_field(b, s) == "SegmentSizes.max_ss"]
        wmin = [s for s in b.stmts() if written_field(b, s) == "SegmentSizes.min_ss"]
        for s in wmax:
            n += 1
            sel = select_minmax(b, s.rv.ops[0]) if s.rv.ops else None
            ok = False
            if sel is not None and sel[0] == "max":
                for ta in sel[1:]:
                    if ta.last_field == "SegmentSizes.min_ss":
                        reads = [st for st in ta.steps if isinstance(st, Stmt) and st.rv.ops and st.rv.ops[0].place is not None and st.rv.ops[0].place.last_field == "SegmentSizes.min_ss"]
                        stale = any(point_reaches(b, rd, w) and point_reaches(b, w, s) for rd in reads for w in wmin)
                        ok = bool(reads) and not stale
            if ok:
                R.ok("max_ss>=min_ss", b.name, "max_ss = (..).max(current min_ss)")
            else:
                R.fail([b.name, "write(SegmentSizes.max_ss)", "not-max-with-current(min_ss)"], "a store to max_ss does not end in .max(self.min_ss) of the current min_ss: min_ss can exceed max_ss and next_probe's max_ss - min_ss underflows (panic / absurd probe size)", where=s.where(), instance="max_ss>=min_ss")
        for w in wmin:
            n += 1
            after = {s.bb for s in wmax if point_reaches(b, w, s)}
            reach_ret = [r for r in b.return_blocks() if r in b.reachable(w.bb, removed_blocks=after - {w.bb})] if not any(s.bb == w.bb and s.idx > w.idx for s in wmax) else []
            if after and not reach_ret:
                R.ok("min_ss-store=>max_ss-restored", b.name)
            else:
                R.fail([b.name, "write(SegmentSizes.min_ss)", "not-followed-by(max_ss store)"], "min_ss is raised without re-establishing max_ss >= min_ss afterwards", where=w.where(), instance="min_ss-store=>max_ss-restored")
    R.floor("stores to min_ss / max_ss outside new", n, 3)


@rule("C14.8", ["C14", "C07"], ["E4"], "mss() is the proven size and max_ss() the ceiling",
      "SegmentSizes::mss returns min_ss and SegmentSizes::max_ss returns max_ss (table frozen in engine/pinned_fns.json): the sender's ordinary segment size, the 2 * MSS immediate-ACK threshold and "
      "the receive-window rounding all read the proven size through mss().")
def c14_8(R):
    n = check_getters(R, ("mtu::",))
    R.floor("SegmentSizes accessors", n, 2)


HEADROOM = 48  # IPV4_HEADER + UDP_HEADER + UTP_HEADER: the least that SegmentSizes::new subtracts from the u16 link MTU (C14.1), so max_ss <= 65535 - 48


def _u16_ub(b, op, depth=0):
    """symbolic upper bound of a u16 expression in mtu.rs: ("const", c) | ("min", c) [<= min_ss + c] | ("max", c) [<= max_ss + c] | ("diff",) [<= max_ss - min_ss] | None"""
    if depth > 8:
        return None
    if op.kind == "const":
        return ("const", op.scalar) if isinstance(op.scalar, int) else None
    t = trace(b, op, through_casts=False)
    f = [x for x in t.fields if not x.startswith("tuple.")]
    if f:
        if f[-1] == "SegmentSizes.max_ss":
            return ("max", 0)
        if f[-1] == "SegmentSizes.min_ss":
            return ("min", 0)
        return None
    if t.kind == "const":
        c = t.root[1]
        return ("const", c.scalar) if isinstance(getattr(c, "scalar", None), int) else None
    if t.kind == "multi":
        vals = []
        for d in t.root[3]:
            if isinstance(d, Stmt) and d.rv.kind == "use":
                vals.append(_u16_ub(b, d.rv.ops[0], depth + 1))
            else:
                vals.append(None)
        if vals and all(v is not None and v[0] == "const" for v in vals):
            return ("const", max(v[1] for v in vals))
        return None
    if t.kind == "rv" and t.root[1].rv.kind == "bin":
        rv = t.root[1].rv
        x, y = _u16_ub(b, rv.ops[0], depth + 1), _u16_ub(b, rv.ops[1], depth + 1)
        op_ = rv.op.replace("WithOverflow", "").replace("Unchecked", "")
        if op_ == "Sub":
            if x == ("max", 0) and y == ("min", 0):
                return ("diff",)
            return x  # subtraction only lowers an upper bound (underflow is judged at the Sub itself)
        if op_ in ("Div", "Shr"):
            if rv.ops[1].kind == "const" and isinstance(rv.ops[1].scalar, int) and rv.ops[1].scalar >= 1:
                return x
            return None
        if op_ == "Add":
            return _u16_add(x, y)
    if t.kind == "call":
        sel = select_minmax(b, op)
        if sel is not None and sel[0] == "min":
            return None
    return None


def _u16_add(x, y):
    if x is None or y is None:
        return None
    if x[0] == "const" and y[0] == "const":
        return ("const", x[1] + y[1])
    for a, c in ((x, y), (y, x)):
        if a[0] in ("min", "max") and c[0] == "const":
            return (a[0], a[1] + c[1])
        if a == ("min", 0) and c == ("diff",):
            return ("max", 0)
    return None


@rule("C14.9", ["C14", "C10", "C18"], ["E5", "E8"], "the probe-size arithmetic cannot leave the u16 range",
      "link_mtu, min_ss and max_ss are u16 and a loopback-sized link MTU (65535) is a legal setting. Every checked u16 addition / subtraction in mtu.rs is bounded symbolically from min_ss <= max_ss (C14.7) and "
      "max_ss <= 65535 - 48 (the headers SegmentSizes::new subtracts; segments never exceed max_ss, C14.1): max_ss - min_ss cannot underflow, min_ss + (max_ss - min_ss) / k <= max_ss, a bound of the "
      "form max_ss + c is in range for c <= 48, constants are summed. An addition whose operands are only known to be u16 each (e.g. min_ss + max_ss) overflows for link MTUs above 32 KiB: a panic in "
      "the connection task in checked builds, an undersized 'probe' that stalls the search otherwise. The subtractions of the headers in SegmentSizes::new (wherever they are written: a closure, a helper, inline) are judged with the values each call passes: the left side has a per-family lower bound (link_mtu.max(headers + 1); min(576 | 1280, that)) that is at least the per-family constant on the right.")
def c14_9(R):
    F = R.facts
    n = 0
    audited = {}
    ctx = _new_sub_judgements(F)
    for b in F.bodies(lambda nm: nm.startswith("mtu::")):
        for s in b.stmts():
            if s.rv is None or s.rv.kind != "bin" or s.is_tracing:
                continue
            op_ = s.rv.op
            if op_ not in ("AddWithOverflow", "SubWithOverflow", "MulWithOverflow", "Add", "Sub", "Mul"):
                continue
            tys = [b.local_ty(o.place.local) if o.place is not None and o.place.is_local else o.ty for o in s.rv.ops]
            if "u16" not in tys:
                continue
            n += 1
            x, y = _u16_ub(b, s.rv.ops[0]), _u16_ub(b, s.rv.ops[1])
            import re as _re
            dx, dy = (_re.sub(r"_\d+", "_", trace(b, o).describe()) for o in s.rv.ops)
            if op_.startswith("Sub"):
                if x == ("max", 0) and y == ("min", 0):
                    R.ok("u16-in-range", b.name, "max_ss - min_ss: min_ss <= max_ss (C14.7)")
                elif ctx.get((b.name, s.bb, s.idx)) is True:
                    R.ok("u16-in-range", b.name, "%s - %s: the left side is at least the headers + 1 at every call (link MTU clamped up with .max, the family minimum is larger)" % (dx, dy))
                else:
                    R.fail([b.name, "u16-sub-may-underflow", dx, dy], "a u16 subtraction in the MTU arithmetic whose right side is not known to be the smaller: underflow panics the connection task (checked build) or yields an absurd segment size", where=s.where(), instance="u16-in-range")
            elif op_.startswith("Add"):
                r = _u16_add(x, y)
                if r is not None and ((r[0] == "const" and r[1] <= 65535) or (r[0] in ("min", "max") and r[1] <= HEADROOM)):
                    R.ok("u16-in-range", b.name, "%s + %s <= %s" % (dx, dy, "%d" % r[1] if r[0] == "const" else "%s_ss + %d" % (r[0], r[1])))
                else:
                    R.fail([b.name, "u16-add-may-overflow", dx, dy], "the sum %s + %s is only bounded by 2 * 65535: it leaves the u16 range for large (loopback-sized) link MTUs - the midpoint must be formed as "
                           "min_ss + (max_ss - min_ss) / 2" % (dx, dy), where=s.where(), instance="u16-in-range")
            else:
                R.fail([b.name, "u16-mul", dx, dy], "a u16 multiplication in the MTU arithmetic has no bound here", where=s.where(), instance="u16-in-range")
    R.floor("checked u16 additions / subtractions in mtu.rs", n, 6)


def _fam_lin(F, b, op, depth=0, env=None):
    """value of a u16 expression of SegmentSizes::new (and the closures / helpers it calls) as ({opaque atom: coefficient}, {is_ipv4: constant}) or None.
    `env` binds the parameters of the body being evaluated to values of the caller."""
    from utpsa.prov import upvar_origin
    if depth > 16:
        return None

    def const(v):
        return ({}, {True: v, False: v})

    def add(x, y, sign):
        at = dict(x[0])
        for k, c in y[0].items():
            at[k] = at.get(k, 0) + sign * c
        return ({k: c for k, c in at.items() if c}, {k: x[1][k] + sign * y[1][k] for k in (True, False)})
    if op.kind == "const":
        return const(op.scalar) if isinstance(op.scalar, int) else None
    t = trace(b, op, through_casts=False)
    if [f for f in t.fields if not f.startswith("tuple.")]:
        return ({("field", b.name, tuple(t.fields)): 1}, {True: 0, False: 0})
    if t.kind == "const":
        v = getattr(t.root[1], "scalar", None)
        return const(v) if isinstance(v, int) else None
    if t.kind == "param":
        if env is not None and t.root[1] in env:
            return env[t.root[1]]
        return ({("param", b.name, t.root[1]): 1}, {True: 0, False: 0})
    if t.kind == "upvar":
        o = upvar_origin(b, t.root[1])
        if o is None:
            return None
        _k, idx, owner = o
        return _fam_lin(F, owner, Operand({"k": "copy", "pl": {"l": idx, "p": []}}), depth + 1)
    if t.kind == "multi":
        out = {}
        for d in t.root[3]:
            if not (isinstance(d, Stmt) and d.rv.kind == "use"):
                return None
            v = _fam_lin(F, b, d.rv.ops[0], depth + 1, env)
            if v is None or v[0] or v[1][True] != v[1][False]:
                return None
            fams = [x for _c, _t, x, *_ in controlling(b, d.bb) if x.startswith("field:SegmentSizesConfig.is_ipv4=")]
            if len(fams) != 1:
                return None
            out[fams[0].endswith("=true")] = v[1][True]
        return ({}, out) if set(out) == {True, False} else None
    if t.kind == "rv" and t.root[1].rv.kind == "bin":
        rv = t.root[1].rv
        x, y = _fam_lin(F, b, rv.ops[0], depth + 1, env), _fam_lin(F, b, rv.ops[1], depth + 1, env)
        if x is None or y is None:
            return None
        o_ = rv.op.replace("WithOverflow", "").replace("Unchecked", "")
        if o_ == "Add":
            return add(x, y, 1)
        if o_ == "Sub":
            return add(x, y, -1)
        return None
    if t.kind == "call":
        c = t.root[1]
        cb = F.body(c.resolved or "")
        if cb is not None and cb.name.startswith("mtu::"):
            # a local closure / helper: evaluate its return value with its parameters bound to the arguments
            rets = [d for d in cb.all_defs(0) if isinstance(d, Stmt) and d.rv.ops]
            if len(rets) != 1:
                return None
            args = list(c.args)
            binds = {}
            if cb.kind == "closure" and len(args) == 2:
                # closure call ABI: (&closure, (args...)) - the tuple's fields are parameters 2..
                tt = trace(b, args[1], through_casts=False)
                if tt.kind == "rv" and tt.root[1].rv.kind == "agg" and tt.root[1].rv.j.get("ak") == "tuple":
                    for i, o in enumerate(tt.root[1].rv.ops):
                        binds[2 + i] = _fam_lin(F, b, o, depth + 1, env)
            else:
                for i, o in enumerate(args):
                    binds[1 + i] = _fam_lin(F, b, o, depth + 1, env)
            if any(v is None for v in binds.values()):
                return None
            return _fam_lin(F, cb, rets[0].rv.ops[0], depth + 1, binds)
        # anything else (Ord::max / Ord::min of the configured MTU ...) is an opaque quantity, identified by the call itself
        return ({("call", c): 1}, {True: 0, False: 0})
    return None


def _fam_lb(F, b, op, env=None, depth=0, visit=None):
    """per-family lower bound {is_ipv4: n} of a u16 expression reachable from SegmentSizes::new (0 when nothing is known).  While walking, every
    subtraction met is judged in its calling context: left lower bound >= right (a per-family constant) - recorded in `visit`."""
    from utpsa.prov import upvar_origin
    Z = {True: 0, False: 0}
    if depth > 16:
        return Z
    if op.kind == "const":
        return {True: op.scalar, False: op.scalar} if isinstance(op.scalar, int) else Z
    t = trace(b, op, through_casts=False)
    if [f for f in t.fields if not f.startswith("tuple.")]:
        return Z
    if t.kind == "const":
        v = getattr(t.root[1], "scalar", None)
        return {True: v, False: v} if isinstance(v, int) else Z
    if t.kind == "param":
        return env.get(t.root[1], Z) if env else Z
    if t.kind == "upvar":
        o = upvar_origin(b, t.root[1])
        if o is None:
            return Z
        _k, idx, owner = o
        return _fam_lb(F, owner, Operand({"k": "copy", "pl": {"l": idx, "p": []}}), None, depth + 1, visit)
    if t.kind == "multi":
        v = _fam_lin(F, b, op)
        return dict(v[1]) if v is not None and not v[0] else Z
    if t.kind == "rv" and t.root[1].rv.kind == "bin":
        st = t.root[1]
        rv = st.rv
        o_ = rv.op.replace("WithOverflow", "").replace("Unchecked", "")
        x = _fam_lb(F, b, rv.ops[0], env, depth + 1, visit)
        y = _fam_lb(F, b, rv.ops[1], env, depth + 1, visit)
        if o_ == "Add":
            return {k: x[k] + y[k] for k in Z}
        if o_ == "Sub":
            cy = _fam_lin(F, b, rv.ops[1])
            if cy is not None and not cy[0]:
                ok = all(x[k] >= cy[1][k] for k in Z)
                if visit is not None:
                    key = (b.name, st.bb, st.idx)
                    visit[key] = visit.get(key, True) and ok
                return {k: max(0, x[k] - cy[1][k]) for k in Z}
            if visit is not None:
                visit[(b.name, st.bb, st.idx)] = False
            return Z
        return Z
    if t.kind == "call":
        c = t.root[1]
        if call_matches(c, ("Ord::max",)) and len(c.args) == 2:
            x, y = (_fam_lb(F, b, a, env, depth + 1, visit) for a in c.args)
            return {k: max(x[k], y[k]) for k in Z}
        if call_matches(c, ("Ord::min",)) and len(c.args) == 2:
            x, y = (_fam_lb(F, b, a, env, depth + 1, visit) for a in c.args)
            return {k: min(x[k], y[k]) for k in Z}
        cb = F.body(c.resolved or "")
        if cb is not None and cb.name.startswith("mtu::"):
            rets = [d for d in cb.all_defs(0) if isinstance(d, Stmt) and d.rv.ops]
            if len(rets) != 1:
                return Z
            binds = {}
            args = list(c.args)
            if cb.kind == "closure" and len(args) == 2:
                tt = trace(b, args[1], through_casts=False)
                if tt.kind == "rv" and tt.root[1].rv.kind == "agg" and tt.root[1].rv.j.get("ak") == "tuple":
                    for i, o in enumerate(tt.root[1].rv.ops):
                        binds[2 + i] = _fam_lb(F, b, o, env, depth + 1, visit)
            else:
                for i, o in enumerate(args):
                    binds[1 + i] = _fam_lb(F, b, o, env, depth + 1, visit)
            return _fam_lb(F, cb, rets[0].rv.ops[0], binds, depth + 1, visit)
    return Z


def _new_sub_judgements(F):
    """{(body, bb, idx): ok} for every u16 subtraction on the way to min_ss / max_ss in SegmentSizes::new, judged with the values the call sites pass"""
    new = F.body(SS + "::new")
    visit = {}
    if new is None:
        return visit
    for s in new.stmts():
        if s.rv.kind == "agg" and s.rv.j.get("adt") == SS:
            names = s.rv.j["fields"]
            for fld in ("min_ss", "max_ss"):
                _fam_lb(F, new, s.rv.ops[names.index(fld)], None, 0, visit)
    return visit


@rule("C14.10", ["C14", "C02", "C10"], ["E4", "E7"], "the payload ceiling subtracts the headers of the peer's address family",
      "A datagram is IP header + 8 (UDP) + 20 (uTP) + payload, and the IP header is 20 bytes for IPv4 and 40 for IPv6. The closure SegmentSizes::new maps an MTU to a payload size with is evaluated "
      "symbolically per address family (constants summed, the captured header size followed to its two definitions under config.is_ipv4 = true / false): it must be mtu - 48 for IPv4 and mtu - 68 for "
      "IPv6. Anything less for IPv6 makes every full segment 20 bytes larger than the link MTU allows (dropped or EMSGSIZE on a 1280-byte path: the connection dies on ordinary segments).")
def c14_10(R):
    F = R.facts
    new = R.body(SS + "::new")
    want = {True: -48, False: -68}
    consts = {n: F.const_scalar("constants::" + n) for n in ("IPV4_HEADER", "IPV6_HEADER", "UDP_HEADER", "UTP_HEADER")}
    n = 0
    for s in new.stmts():
        if s.rv.kind == "agg" and s.rv.j.get("adt") == SS:
            names = s.rv.j["fields"]
            for fld in ("min_ss", "max_ss"):
                n += 1
                v = _fam_lin(F, new, s.rv.ops[names.index(fld)])
                if v is not None and len(v[0]) == 1 and list(v[0].values()) == [1] and v[1] == want:
                    R.ok("headers-of-the-family", "%s.%s" % (new.name, fld), "an MTU - 48 (IPv4), - 68 (IPv6); constants %s" % consts)
                else:
                    R.fail([new.name, "payload-ceiling", fld, "ipv4=%s" % (v[1].get(True) if v else "?"), "ipv6=%s" % (v[1].get(False) if v else "?")],
                           "SegmentSizes::new computes %s = MTU %s for IPv4 and MTU %s for IPv6 (expected -48 / -68): segments to peers of that family are larger than the configured link MTU allows"
                           % (fld, v[1].get(True) if v else "?", v[1].get(False) if v else "?"), where=s.where(), instance="headers-of-the-family")
    R.floor("size fields initialised in SegmentSizes::new", n, 2)


@rule("C14.11", ["C14", "C18", "C02"], ["E3"], "only a probe that is still undelivered holds segmentation back",
      "split_tx_queue_into_segments returns without segmenting when Segments::pop_expired_mtu_probe answers NotExpired (a probe is in flight and its fate decides the next size). "
      "That answer is therefore given only for a newest segment that is an MTU probe AND has not been delivered: a probe that was (selectively) acknowledged has done its job, and "
      "waiting for it would hold all buffered data back until an unrelated hole is repaired - with Nagle disabled as well.")
def c14_11(R):
    px = R.body("stream_tx_segments::Segments::pop_expired_mtu_probe")
    n = 0
    for it, cls in ret_assignments(px):
        if not cls.startswith("NotExpired"):
            continue
        n += 1
        conds = [describe_cond(px, t, lab) for t, tgt, lab in controlling_edges(px, it.bb)]
        probe = any(("is_mtu_probe" in c or "tuple.1" in c) and c.endswith("=true") for c in conds)
        undeliv = any("Segment.is_delivered" in c and c.endswith("=false") for c in conds)
        if probe and undeliv:
            R.ok("NotExpired=>undelivered-probe", px.name, "answer given under is_mtu_probe && !is_delivered")
        else:
            R.fail([px.name, "NotExpired-not-under(is_mtu_probe&&!is_delivered)", "guards=" + ",".join(sorted(conds))],
                   "pop_expired_mtu_probe answers NotExpired for a segment that is not an undelivered probe: segmentation of buffered data waits for a probe that needs no waiting for",
                   where=it.where(), instance="NotExpired=>undelivered-probe")
    R.floor("NotExpired answers in pop_expired_mtu_probe", n, 1)


@rule("C14.12", ["C14"], ["E3"], "a probe size is declared failed only after a datagram of that size was transmitted",
      "Segments::pop_expired_mtu_probe answers Expired - and the caller then lowers the ceiling below that size - under `retransmit_timed_out && is_mtu_probe && retransmit_count() >= limit`. "
      "The timer that timed out belongs to the oldest outstanding segment, not necessarily to the probe: the answer must also be control-dependent on the probe having been transmitted "
      "(its SentStatus, send_count() > 0, ...), or a probe that is queued behind the congestion window is declared lost without ever having been on the wire (with a limit of 0 retransmissions) "
      "and the search settles below the largest size that fits.")
def c14_12(R):
    px = R.body("stream_tx_segments::Segments::pop_expired_mtu_probe")
    n = 0
    for it, cls in ret_assignments(px):
        if not cls.startswith("Expired"):
            continue
        n += 1
        conds = [describe_cond(px, t, lab) for t, tgt, lab in controlling_edges(px, it.bb)]
        sent = any("Segment.sent" in c or "send_count" in c or "is_sent" in c for c in conds)
        if sent:
            R.ok("Expired=>probe-was-transmitted", px.name, "answer given under a test of the probe's sent status")
        else:
            R.fail([px.name, "Expired-not-under(transmitted)"],
                   "pop_expired_mtu_probe declares a probe failed without testing that it was ever transmitted (guards: %s): with mtu_probe_max_retransmissions = 0 another segment's timeout "
                   "lowers the ceiling below a size that was never tried" % ", ".join(sorted(conds)), where=it.where(), instance="Expired=>probe-was-transmitted")
    R.floor("Expired answers in pop_expired_mtu_probe", n, 1)
