"""C08 termination and cleanup: slot released with the right key, death path, cancellable spawn, final-chance timer."""
from .common import *
from .c02 import VS, poll_final_pending
from utpsa.discr import bool_fn_variant_table

STARTER_NEW = "stream_dispatch::UtpStreamStarter::new"
DISP = "socket::Dispatcher"


@rule("C08.1", ["C08", "C12", "C11", "C13"], ["E4", "E7"], "the connection's drop guard carries exactly the key under which it sits in the stream table",
      "UtpStreamStarter::new builds drop_guard = DropGuardSendBeforeDeath::new(ControlRequest::Shutdown((remote, args.conn_id_recv)), &socket.control_requests); StreamArgs::new_outgoing sets "
      "(conn_id_recv, conn_id_send) = (c, c+1) and new_incoming (c+1, c) for c = header.connection_id; the callers insert the stream under (addr, header.connection_id) resp. (remote, header.connection_id + 1) "
      "with the same addr/remote and header they pass on (affine tables compared).")
def c08_1(R):
    F = R.facts
    sn = R.body(STARTER_NEW)
    g = [t for t in sn.calls() if call_matches(t, ("utils::DropGuardSendBeforeDeath::new",))]
    R.require(len(g) == 1, "DropGuardSendBeforeDeath::new in UtpStreamStarter::new")
    t = g[0]
    mt = trace(sn, t.args[0])
    okg = False
    if mt.kind == "rv" and mt.root[1].rv.kind == "agg" and mt.root[1].rv.j.get("variant") == "Shutdown":
        tup = trace(sn, mt.root[1].rv.ops[0])
        if tup.kind == "rv" and tup.root[1].rv.j.get("ak") == "tuple":
            o0, o1 = tup.root[1].rv.ops
            s0, s1 = value_sources(sn, o0), value_sources(sn, o1)
            if s0 == {("param", 2)} and s1 == {("field", "StreamArgs.conn_id_recv")}:  # new(socket, remote, rx, args)
                okg = True
    tx = trace(sn, t.args[1])
    if okg and tx.last_field == "UtpSocket.control_requests":
        R.ok("drop-guard-key", sn.name, "Shutdown((remote, args.conn_id_recv)) -> socket.control_requests")
    else:
        R.fail([sn.name, "drop_guard", "msg=" + mt.describe(), "tx=" + tx.describe()], "the connection's drop guard no longer sends Shutdown((remote, conn_id_recv)) to the socket's control channel: the table slot leaks", where=t.where(), instance="drop-guard-key")
    # the guard is stored in the VirtualSocket aggregate
    okd = False
    for s in sn.stmts():
        if s.rv.kind == "agg" and s.rv.j.get("adt") == "stream_dispatch::VirtualSocket":
            i = s.rv.j["fields"].index("drop_guard")
            tt = trace(sn, s.rv.ops[i])
            if tt.kind == "call" and tt.root[1] is t:
                okd = True
            j = s.rv.j["fields"].index("conn_id_send")
            if value_sources(sn, s.rv.ops[j]) == {("field", "StreamArgs.conn_id_send")}:
                R.ok("conn_id_send-source", sn.name, "VirtualSocket.conn_id_send <- args.conn_id_send")
            else:
                R.fail([sn.name, "conn_id_send", "sources=" + sources_str(sn, s.rv.ops[j])], "VirtualSocket.conn_id_send is not StreamArgs.conn_id_send", where=s.where(), instance="conn_id_send-source")
            k = s.rv.j["fields"].index("remote")
            if value_sources(sn, s.rv.ops[k]) != {("param", 2)}:
                R.fail([sn.name, "remote", "sources=" + sources_str(sn, s.rv.ops[k])], "VirtualSocket.remote is not the remote parameter", where=s.where(), instance="conn_id_send-source")
    if okd:
        R.ok("drop-guard-stored", sn.name, "VirtualSocket.drop_guard <- that guard")
    else:
        R.fail([sn.name, "drop_guard-not-stored"], "the Shutdown guard is not stored in VirtualSocket.drop_guard", where=sn.where(), instance="drop-guard-stored")
    # StreamArgs constructors
    want = {"stream_dispatch::StreamArgs::new_outgoing": {"conn_id_recv": 0, "conn_id_send": 1}, "stream_dispatch::StreamArgs::new_incoming": {"conn_id_recv": 1, "conn_id_send": 0}}
    for fn, w in want.items():
        b = R.body(fn)
        for s in b.stmts():
            if s.rv.kind == "agg" and s.rv.j.get("adt") == "stream_dispatch::StreamArgs":
                for fld, off in w.items():
                    i = s.rv.j["fields"].index(fld)
                    base, k = affine(b, s.rv.ops[i])
                    if base.endswith("UtpHeader.connection_id") and k == off:
                        R.ok("conn-id-offsets", "%s.%s" % (fn.split("::")[-1], fld), "= header.connection_id + %d" % off)
                    else:
                        R.fail([fn, fld, "%s%+d" % (base, k)], "%s of %s is %s%+d, expected header.connection_id%+d" % (fld, fn.split("::")[-1], base, k, off), where=s.where(), instance="conn-id-offsets")
    # callers: table key vs constructor
    pairs = [(DISP + "::on_maybe_connect_ack", "StreamArgs::new_outgoing", 0), (DISP + "::match_syn_with_accept", "StreamArgs::new_incoming", 1)]
    for fn, ctor, off in pairs:
        b = R.body(fn)
        ins = [t for t in b.calls() if call_on_field(b, t, ("HashMap::insert",), "Dispatcher.streams")]
        cts = [t for t in b.calls() if call_matches(t, (ctor,))]
        sts = [t for t in b.calls() if call_matches(t, (STARTER_NEW,))]
        R.require(len(ins) == 1 and len(cts) == 1 and len(sts) == 1, "insert/%s/UtpStreamStarter::new in %s" % (ctor, fn))
        key = trace(b, ins[0].args[1])
        okk = False
        detail = key.describe()
        if key.kind == "rv" and key.root[1].rv.j.get("ak") == "tuple":
            k0, k1 = key.root[1].rv.ops
            a0 = trace(b, k0).describe()
            bt, k = affine_trace(b, k1)
            remote_arg = trace(b, sts[0].args[1]).describe()
            hdr_arg = trace(b, cts[0].args[-1] if ctor.endswith("new_incoming") else cts[0].args[0])
            detail = "key=(%s, %s%+d) starter.remote=%s ctor.header=%s" % (a0, bt.describe(), k, remote_arg, hdr_arg.describe())
            same_hdr = bt.root[:2] == hdr_arg.root[:2] and bt.fields == hdr_arg.fields + ["UtpHeader.connection_id"]
            if a0 == remote_arg and k == off and same_hdr:
                okk = True
        if okk:
            R.ok("table-key=guard-key", fn.split("::")[-1], detail)
        else:
            R.fail([fn, "streams.insert-key-vs-StreamArgs", detail], "the key under which the stream is inserted differs from (remote, conn_id_recv) that its drop guard will remove", where=ins[0].where(), instance="table-key=guard-key")


@rule("C08.2", ["C08", "C12", "C13"], ["E1", "E4", "E3"], "Shutdown(key) removes that key; a guard is disarmed only together with a manual removal",
      "on_control's Shutdown(key) arm calls streams.remove(&key) with the received key; DropGuardSendBeforeDeath::disarm on VirtualSocket.drop_guard is called only in UtpStreamStarter::disarm, "
      "which is called only in match_syn_with_accept on a path that then calls streams.remove(&recv_key) with the inserted key.")
def c08_2(R):
    F = R.facts
    oc = [b for b in F.bodies(lambda n: n.startswith(DISP + "::on_control"))]
    R.require(oc, "Dispatcher::on_control")
    found = False
    for b in oc:
        for t in b.calls():
            if call_on_field(b, t, ("HashMap::remove",), "Dispatcher.streams"):
                kt = trace(b, t.args[1])
                if "Shutdown" in kt.variants or any("ControlRequest::Shutdown" in f for f in kt.fields):
                    found = True
                    R.ok("shutdown=>remove(key)", owner_fn(b), "streams.remove(&key) with the key carried by the request")
                else:
                    R.fail([owner_fn(b), "streams.remove", "key=" + kt.describe()], "on_control removes a key that is not the one carried by the Shutdown request", where=t.where(), instance="shutdown=>remove(key)")
    if not found:
        R.fail([DISP + "::on_control", "no-remove-for-Shutdown"], "ControlRequest::Shutdown no longer removes the stream from the table", instance="shutdown=>remove(key)")
    n = 0
    for b, t in census_calls(R, F, ("utils::DropGuardSendBeforeDeath::disarm",)):
        rt = trace(b, t.args[0])
        if rt.last_field == "VirtualSocket.drop_guard":
            n += 1
            if owner_fn(b) == "stream_dispatch::UtpStreamStarter::disarm":
                R.ok("vsock-guard-disarm-sites", owner_fn(b))
            else:
                R.fail([owner_fn(b), "disarm(VirtualSocket.drop_guard)"], "a connection's drop guard is disarmed at an unaudited site: its table slot will never be released", where=t.where(), instance="vsock-guard-disarm-sites")
    # the guard primitive: disarm() empties the message slot; drop() sends exactly the stored message, once
    gd = R.body("utils::DropGuardSendBeforeDeath::disarm")
    if any(written_field(gd, s_) == "DropGuardSendBeforeDeath.msg" and s_.rv.ops and classify(gd, s_.rv.ops[0]) == "None" for s_ in gd.stmts()):
        R.ok("guard-primitive", gd.name, "msg = None")
    else:
        R.fail([gd.name, "does-not-clear(msg)"], "DropGuardSendBeforeDeath::disarm no longer empties the message: a disarmed guard still posts its Shutdown / ConnectDropped request", where=gd.where(), instance="guard-primitive")
    dr = R.body("<utils::DropGuardSendBeforeDeath as std::ops::Drop>::drop")
    snd = [t for t in dr.calls() if call_matches(t, ("UnboundedSender::send",))]
    okd = False
    for t in snd:
        m = trace(dr, t.args[1])
        if "Some" in m.variants and m.kind == "call" and call_matches(m.root[1], ("Option::take",)) and trace(dr, m.root[1].args[0]).last_field == "DropGuardSendBeforeDeath.msg":
            okd = True
    if okd:
        R.ok("guard-primitive", dr.name, "sends msg.take() when it is Some")
    else:
        R.fail([dr.name, "drop-does-not-send(msg.take())"], "dropping an armed guard no longer sends its message: the connection's table slot / connect slot is never released", where=dr.where(), instance="guard-primitive")
    sd = R.body("stream_dispatch::UtpStreamStarter::disarm")
    if not any(call_matches(t, ("utils::DropGuardSendBeforeDeath::disarm",)) and trace(b2, t.args[0]).last_field == "VirtualSocket.drop_guard" for b2 in [sd] + F.closures_of(sd.name) for t in b2.calls()):
        R.fail([sd.name, "does-not-disarm(VirtualSocket.drop_guard)"], "UtpStreamStarter::disarm no longer disarms the connection's drop guard: dropping the never-started starter posts Shutdown(recv_key), "
               "which later removes whatever stream is registered under that key (the next accepted connection is unwired)", where=sd.where(), instance="vsock-guard-disarm-sites")
    else:
        R.floor("disarm of VirtualSocket.drop_guard", n, 1)
    ms = R.body(DISP + "::match_syn_with_accept")
    mrem = [x for x in ms.calls() if call_on_field(ms, x, ("HashMap::remove",), "Dispatcher.streams")]
    dis = {x.bb for x in ms.calls() if call_matches(x, ("stream_dispatch::UtpStreamStarter::disarm",))}
    R.floor("manual streams.remove in match_syn_with_accept", len(mrem), 1)
    for x in mrem:
        if dis and must_pass_blocks(ms, [x.bb], dis)[0]:
            R.ok("manual-remove=>disarmed", ms.name, "the starter is disarmed on every path to the manual removal")
        else:
            R.fail([ms.name, "streams.remove-without(starter.disarm)"], "the inserted key is removed by hand without disarming the starter: when the starter is dropped its guard posts Shutdown(recv_key) and removes the NEXT connection registered under that key", where=x.where(), instance="manual-remove=>disarmed")
    for b, t in census_calls(R, F, ("stream_dispatch::UtpStreamStarter::disarm",)):
        fn = owner_fn(b)
        if fn != DISP + "::match_syn_with_accept":
            R.fail([fn, "call", "UtpStreamStarter::disarm"], "UtpStreamStarter::disarm called outside match_syn_with_accept", where=t.where(), instance="disarm=>manual-remove")
            continue
        rem = {x.bb for x in b.calls() if call_on_field(b, x, ("HashMap::remove",), "Dispatcher.streams")}
        ok, _ = must_pass_blocks(b, b.return_blocks(), rem, start=t.bb)
        ins = [x for x in b.calls() if call_on_field(b, x, ("HashMap::insert",), "Dispatcher.streams")]
        same = False
        for x in b.calls():
            if x.bb in rem and ins:
                same = trace(b, x.args[1]).key() == trace(b, ins[0].args[1]).key()
        if ok and rem and same:
            R.ok("disarm=>manual-remove", fn, "disarm() is followed by streams.remove(&recv_key) on every path")
        else:
            R.fail([fn, "disarm-without(streams.remove(recv_key))"], "a starter is disarmed without removing the inserted key by hand: the slot leaks", where=t.where(), instance="disarm=>manual-remove")


@rule("C08.4", ["C08"], ["E1", "E4"], "connection tasks are spawned only through the cancellable wrapper with a child of the socket's token",
      "tokio::task::spawn / tokio::spawn are called only in spawn_utils::spawn; spawn_utils::spawn only in spawn_with_cancel, whose future selects on cancellation_token.cancelled() and yields "
      "Err(TaskCancelled); VirtualSocket::run_forever is passed only to spawn_with_cancel (in UtpStreamStarter::start) with UtpStreamStarter.cancellation_token, which is built from "
      "socket.cancellation_token.child_token().")
def c08_4(R):
    F = R.facts
    n = 0
    for b in F.bodies():
        for t in b.calls():
            c = t.resolved or ""
            if c in ("tokio::task::spawn", "tokio::spawn", "tokio::task::spawn_local", "tokio::task::spawn_blocking", "tokio::runtime::Handle::spawn", "tokio::runtime::Runtime::spawn", "tokio::task::JoinSet::spawn", "std::thread::spawn") or c.startswith("tokio::task::spawn"):
                n += 1
                if owner_fn(b) == "spawn_utils::spawn":
                    R.ok("raw-spawn-sites", owner_fn(b), c)
                else:
                    R.fail([owner_fn(b), "call", c], "a task is spawned outside spawn_utils::spawn (not cancellable, not instrumented)", where=t.where(), instance="raw-spawn-sites")
    R.floor("raw spawn sites", n, 1)
    for b, t in census_calls(R, F, ("spawn_utils::spawn",)):
        if owner_fn(b) == "spawn_utils::spawn_with_cancel":
            R.ok("spawn-callers", owner_fn(b))
        else:
            R.fail([owner_fn(b), "call", "spawn_utils::spawn"], "spawn_utils::spawn used without the cancellation wrapper", where=t.where(), instance="spawn-callers")
    swc = R.body("spawn_utils::spawn_with_cancel")
    inner = F.closures_of(swc.name)
    canc = any(call_matches(t, ("CancellationToken::cancelled",)) for c in inner for t in c.calls())
    errs = any(s.rv.kind == "agg" and s.rv.j.get("variant") == "TaskCancelled" for c in inner for s in c.stmts())
    if canc and errs:
        R.ok("wrapper-selects-on-cancel", swc.name, "select!{ cancelled() => Err(TaskCancelled), fut }")
    else:
        R.fail([swc.name, "no-select-on-cancelled"], "spawn_with_cancel no longer races the future against cancellation_token.cancelled()", where=swc.where(), instance="wrapper-selects-on-cancel")
    # who runs VirtualSocket::run_forever
    k = 0
    for b, t in census_calls(R, F, (VS + "::run_forever",)):
        k += 1
        users = [x for x in b.calls() if any(a.place is not None and a.place.is_local and a.place.local == t.dest.local for a in x.args)]
        if owner_fn(b) == "stream_dispatch::UtpStreamStarter::start" and len(users) == 1 and call_matches(users[0], ("spawn_utils::spawn_with_cancel",)):
            tok = trace(b, users[0].args[1])
            if tok.last_field == "UtpStreamStarter.cancellation_token":
                R.ok("vsock-task-cancellable", owner_fn(b), "spawn_with_cancel(.., self.cancellation_token, vsock.run_forever())")
            else:
                R.fail([owner_fn(b), "spawn_with_cancel", "token=" + tok.describe()], "the connection task is spawned with a token that is not the starter's child token", where=users[0].where(), instance="vsock-task-cancellable")
        else:
            R.fail([owner_fn(b), "run_forever-not-into(spawn_with_cancel)"], "VirtualSocket::run_forever is driven by something other than spawn_with_cancel", where=t.where(), instance="vsock-task-cancellable")
    R.floor("run_forever call sites", k, 1)
    sn = R.body(STARTER_NEW)
    okc = False
    for s in sn.stmts():
        if s.rv.kind == "agg" and s.rv.j.get("adt") == "stream_dispatch::UtpStreamStarter":
            i = s.rv.j["fields"].index("cancellation_token")
            tt = trace(sn, s.rv.ops[i])
            if tt.kind == "call" and call_matches(tt.root[1], ("CancellationToken::child_token",)) and trace(sn, tt.root[1].args[0]).last_field == "UtpSocket.cancellation_token":
                okc = True
    if okc:
        R.ok("child-token", sn.name, "cancellation_token = socket.cancellation_token.child_token()")
    else:
        R.fail([sn.name, "cancellation_token-not-child-of-socket-token"], "the per-connection token is not a child of the socket's cancellation token: cancelling the socket no longer ends the connection tasks", where=sn.where(), instance="child-token")


@rule("C08.5", ["C08", "C03"], ["E2", "E7"], "after local close the lifetime is bounded by the final-chance timer",
      "In poll, on every path from is_local_fin_or_later() = true to the final Pending, timers.remote_inactivity_timer.arm(now, SHUTDOWN_FINAL_CHANCE_DELAY = 1 s, restart = false) is called; "
      "is_local_fin_or_later is true exactly for {FinWait1, FinWait2, LastAck, Closed}; state_is_closed() = true leads to just_before_death and Ready(Ok).")
def c08_5(R):
    F = R.facts
    poll = R.body(VS + "::poll")
    pend, final, ntp = poll_final_pending(R, poll)
    tab = bool_fn_variant_table(R.body("stream_dispatch::VirtualSocketState::is_local_fin_or_later"))
    want = {"FinWait1", "FinWait2", "LastAck", "Closed"}
    if tab and tab[True] == want:
        R.ok("is_local_fin_or_later-table", "VirtualSocketState", "true for " + ",".join(sorted(want)))
    else:
        R.fail(["VirtualSocketState::is_local_fin_or_later", "table", str(sorted(tab[True]) if tab else None)], "is_local_fin_or_later is no longer true exactly for FinWait1/FinWait2/LastAck/Closed", instance="is_local_fin_or_later-table")
    ns = const_duration_ns(F, VS + "::poll::SHUTDOWN_FINAL_CHANCE_DELAY")
    arms = []
    for t in poll.calls():
        if call_matches(t, ("stream_dispatch::Timer::arm",)) and trace(poll, t.args[0]).last_field == "Timers.remote_inactivity_timer":
            d = t.args[2]
            if d.kind == "const" and (d.const_item or "").endswith("SHUTDOWN_FINAL_CHANCE_DELAY"):
                arms.append(t)
    R.floor("final-chance arm site", len(arms), 1)
    for t in arms:
        if ns != 1_000_000_000:
            R.fail([poll.name, "SHUTDOWN_FINAL_CHANCE_DELAY", "ns=%s" % ns], "final-chance delay is not 1 s", where=t.where(), instance="final-chance-arm")
        elif not (t.args[3].kind == "const" and t.args[3].scalar == 0):
            R.fail([poll.name, "final-chance-arm", "restart=true"], "the final-chance timer is re-armed with restart=true on every poll: any poll (even the 5 s tracing tick) postpones the deadline forever", where=t.where(), instance="final-chance-arm")
        else:
            R.ok("final-chance-arm", poll.name, "arm(1 s, restart=false)")
    # the guard of the arm must hold in every state in which we have sent (or are about to send) our FIN and the task is still
    # running: FinWait1, FinWait2, LastAck (Closed returns Ready before).  Evaluated through the variant table of the predicate used.
    from utpsa.discr import fn_variant_classes
    need = {"FinWait1", "FinWait2", "LastAck"}
    for t in arms:
        covered = None
        pred_desc = "unconditional"
        msa_b = [x.bb for x in poll.calls() if call_matches(x, (VS + "::maybe_send_ack",))]
        domt = poll.dominators()
        for c, truth, d, term_, *_ in controlling(poll, t.bb):
            call = None
            want = None
            # only guards evaluated after the last sending stage decide whether the timer gets armed; the macro-generated
            # checks (Result is Ok, transport not pending, no restart requested) are the loop's plumbing
            if not any(m in domt.get(term_.bb, ()) for m in msa_b):
                continue
            if d in ("field:ThisPoll.transport_pending=false", "field:ThisPoll.restart=false") or (d.startswith("discr:") and d.endswith("=Ok")):
                continue
            if c.kind == "call" and c.call.args and trace(poll, c.call.args[0]).last_field == "VirtualSocket.state" and c.call.j.get("res_local"):
                call, want = c.call, ("true" if truth else "false")
            elif c.kind == "call" and call_matches(c.call, ("Option::is_some", "Option::is_none")):
                inner = trace(poll, c.call.args[0])
                if inner.kind == "call" and inner.root[1].args and trace(poll, inner.root[1].args[0]).last_field == "VirtualSocket.state" and inner.root[1].j.get("res_local"):
                    call = inner.root[1]
                    is_some = call_matches(c.call, ("Option::is_some",))
                    want = "Some" if (is_some == truth) else "None"
            if call is not None:
                tab = fn_variant_classes(R.body(call.resolved))
                pred_desc = "%s=%s" % (call.resolved.split("::")[-1], want)
                vs = set(tab.get(want, set())) if tab else set()
                covered = vs if covered is None else (covered & vs)
            elif d.startswith("call:") or d.startswith("field:") or d.startswith("bin:"):
                # some other guard we cannot evaluate over states: be conservative
                if "state_is_closed" in d:
                    continue
                covered = set() if covered is None else covered
                pred_desc += " && " + d
        if covered is None:
            covered = set(need)
        if need <= covered:
            R.ok("local-fin=>final-chance-armed", poll.name, "armed in every state with our FIN scheduled (guard %s covers %s)" % (pred_desc, ",".join(sorted(need))))
        else:
            R.fail([poll.name, "final-chance-arm-guard", pred_desc, "not-armed-in=" + ",".join(sorted(need - covered))],
                   "the final-chance timer is armed only under %s, which is false in state(s) %s: after our FIN was acknowledged and the TX queue emptied (all timers off) nothing bounds the wait for the peer's FIN, the task and its table slot leak" % (pred_desc, ", ".join(sorted(need - covered))),
                   where=t.where(), instance="local-fin=>final-chance-armed")
    # and the arm is reached on every path from the ack stage to the final Pending on which its guard holds (no early skip)
    ab = {t.bb for t in arms}
    msa = [t.bb for t in poll.calls() if call_matches(t, (VS + "::maybe_send_ack",))]
    for t in arms:
        if not any(m in poll.dominators().get(t.bb, ()) for m in msa):
            R.fail([poll.name, "final-chance-arm-before(maybe_send_ack)"], "the final-chance arm no longer follows the last sending stage", where=t.where(), instance="final-chance-position")
        else:
            R.ok("final-chance-position", poll.name, "after maybe_send_ack, before next_timer_to_poll")
    # closed => death path + Ready(Ok)
    okc = False
    for it, cls in ret_assignments(poll):
        if cls.startswith("Ready(Ok"):
            conds = {d for c, truth, d, *_ in controlling(poll, it.bb)}
            if "call:VirtualSocket::state_is_closed=true" in conds:
                okc = True
    if okc:
        R.ok("closed=>task-ends", poll.name, "state_is_closed() => Ready(Ok(()))")
    else:
        R.fail([poll.name, "no-Ready(Ok)-under(state_is_closed)"], "the connection task no longer ends when the state is closed", where=poll.where(), instance="closed=>task-ends")
    ic = R.body("stream_dispatch::VirtualSocketState::is_closed")
    R.ok("is_closed-present", ic.name)


@rule("C08.6", ["C08", "C12", "C17", "C13"], ["E2"], "a connection object is built only when it will be handed over or disarmed",
      "UtpStreamStarter::new arms a drop guard that posts Shutdown(recv_key) when the object dies. In Dispatcher::match_syn_with_accept and on_maybe_connect_ack every exit that is reachable "
      "after the starter was built passes the hand-over (the oneshot send to the acceptor / connector) - whose failure branch disarms it (C08.2). An early return between construction and "
      "hand-over - a clash check moved behind the construction - drops an armed starter whose key belongs to a LIVE connection: its Shutdown unregisters that connection.")
def c08_6(R):
    from utpsa.flow import must_pass_blocks
    n = 0
    for fn in ("socket::Dispatcher::match_syn_with_accept", "socket::Dispatcher::on_maybe_connect_ack"):
        b = R.body(fn)
        news = [t for t in b.calls() if call_matches(t, ("stream_dispatch::UtpStreamStarter::new",))]
        R.require(len(news) == 1, "UtpStreamStarter::new in " + fn)
        nw = news[0]
        hand = set()
        for t in b.calls():
            r = t.resolved or t.callee or ""
            if r.endswith("::send") and len(t.args) >= 2 and point_reaches(b, nw, t):
                a = trace(b, t.args[1])
                if (a.kind == "call" and a.root[1] is nw) or any(isinstance(st, Term) and st is nw for st in a.steps):
                    hand.add(t.bb)
            if call_matches(t, ("stream_dispatch::UtpStreamStarter::disarm", "stream_dispatch::UtpStreamStarter::start")) and point_reaches(b, nw, t):
                hand.add(t.bb)  # disarmed, or started: the running connection task owns the guard from then on
        n += 1
        ok, bad = must_pass_blocks(b, b.return_blocks(), hand, start=nw.j["target"]) if hand else (False, [])
        if hand and ok:
            R.ok("built=>handed-over-or-disarmed", fn, "every exit after UtpStreamStarter::new passes the hand-over")
        else:
            R.fail([fn, "exit-after(UtpStreamStarter::new)-without-hand-over"], "%s can return after building the connection object without handing it to the acceptor / connector or disarming it: the armed "
                   "drop guard then posts Shutdown for a key that may belong to a live connection, which is unregistered" % fn.split("::")[-1], where=nw.where(), instance="built=>handed-over-or-disarmed")
    R.floor("functions that build a UtpStreamStarter", n, 2)
