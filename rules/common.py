"""Helpers shared by several rule files (no registration here)."""
import os
import sys

sys.path.insert(0, os.path.join(os.path.dirname(os.path.dirname(os.path.abspath(__file__))), "engine"))

from utpsa.facts import Stmt, Term, Place, Operand  # noqa
from utpsa.prov import trace, value_sources, short_callee, place_fields  # noqa
from utpsa.flow import ordering, typestate, switch_cond, bool_edges, switch_variant_edges, must_pass_edges, must_pass_blocks, shortest_path, path_lines, classify, ret_assignments, fmt_state  # noqa
from utpsa.events import *  # noqa
from utpsa.registry import rule, RuleAbort  # noqa

PUSH = {"VecDeque::push_back": "back", "VecDeque::push_front": "front"}
POP = {"VecDeque::pop_back": "back", "VecDeque::pop_front": "front"}


def removal_kind(body, call, container):
    """'front'/'back' if `call` removes one element from `container` (pop_*, or next() of its drain)"""
    if not isinstance(call, Term) or call.kind != "call":
        return None
    for n, k in POP.items():
        if call_on_field(body, call, (n,), container):
            return k
    if call_matches(call, ("Iterator::next",)) and call.args:
        t = trace(body, call.args[0])
        if t.kind == "call" and call_on_field(body, t.root[1], ("VecDeque::drain",), container):
            return "front"
        if t.kind == "multi":
            for d in t.root[3]:
                if isinstance(d, Term) and d.kind == "call":
                    # `iter = IntoIterator::into_iter(drain(..))`
                    tt = trace(body, d.args[0]) if call_matches(d, ("IntoIterator::into_iter",)) and d.args else None
                    if tt is not None and tt.kind == "call" and call_on_field(body, tt.root[1], ("VecDeque::drain",), container):
                        return "front"
    return None


def counter_helper_summary(facts, fname, container, counters):
    """A private helper that does nothing to `container` and adjusts its counters, on every path, by amounts that are its own
    parameters (e.g. `fn unaccount(&mut self, n) { self.len_bytes -= n; self.offset -= n as u64 }`): {tag: parameter index}.
    None if `fname` is not such a helper.  Callers are then charged with the helper's events (amount = their argument)."""
    b = facts.body(fname)
    if b is None or b.kind == "closure":
        return None
    for t in b.calls():
        if t.is_tracing or not t.args or t.args[0].place is None:
            continue
        lf = trace(b, t.args[0]).last_field
        if lf == container:
            return None
        for tag, (fld, op, chk) in counters.items():
            if lf == fld:
                return None  # AddAssign-style counter updates are not summarised
    out = {}
    rets = b.return_blocks()
    for s in b.stmts():
        fu = field_update(b, s)
        if fu is None:
            continue
        for tag, (fld, op, chk) in counters.items():
            if fu.field != fld:
                continue
            if fu.op != op:
                if any(f2 == fld and o2 == fu.op for f2, o2, _ in counters.values()):
                    continue
                return None
            if fu.amount is None or tag in out:
                return None
            src = value_sources(b, fu.amount)
            if len(src) != 1 or next(iter(src))[0] != "param":
                return None
            ok, _ = must_pass_blocks(b, rets, {s.bb})
            if not ok:
                return None
            out[tag] = next(iter(src))[1]
    return out or None


def container_accounting(R, body, container, counters, balance, instance, local_acc=None, extra_events=None):
    """E3 coupled counters.  Per loop iteration (states are checked and reset at loop boundary edges)
    and at every return, the set of events seen must satisfy `balance(tags) -> [missing...]`.

    counters: {tag: (field, op, amount_check or None)}; amount_check(body, operand) -> bool
    local_acc: optional fn(body, it) -> tag for local accumulations
    extra_events: optional fn(body, it) -> tag
    """
    problems = {}
    n_events = [0]
    helper_cache = {}
    if counter_helper_summary(body.facts, body.name, container, counters):
        callers = [b2.name for b2 in body.facts.bodies() for t in b2.calls() if t.resolved == body.name]
        R.ok(instance, body.name, "counter helper (amounts = its parameters, every path): its events are charged to the callers %s" % ", ".join(sorted(set(c.split("::")[-1] for c in callers))))
        return 0

    def step(it, s):
        tags = set(s)
        changed = False
        if isinstance(it, Term) and it.kind == "call":
            for n, end in PUSH.items():
                if call_on_field(body, it, (n,), container):
                    n_events[0] += 1
                    if is_fresh_value(body, it.args[1]):
                        t = trace(body, it.args[1])
                        if t.kind == "call" and (t.root[1].callee or "").endswith("Default::default"):
                            tags.add("push_default")
                        else:
                            tags.add("ins")
                    else:
                        pend = [t for t in tags if t.startswith("rem_")]
                        if pend:
                            for t in pend:
                                tags.discard(t)
                        else:
                            tags.add("ins")
                    changed = True
            root = unwrap_root_call(body, it)
            if root is not None:
                k = removal_kind(body, root, container)
                if k:
                    n_events[0] += 1
                    tags.add("rem_" + k)
                    changed = True
        elif isinstance(it, Stmt):
            root = extraction_root_call(body, it)
            if root is not None:
                k = removal_kind(body, root, container)
                if k:
                    n_events[0] += 1
                    tags.add("rem_" + k)
                    changed = True
            fu = field_update(body, it)
            if fu is not None:
                for tag, (fld, op, chk) in counters.items():
                    if fu.field == fld and fu.op == op:
                        if chk is not None and fu.amount is not None and not chk(body, fu.amount):
                            problems.setdefault(("wrong-amount", tag, sources_str(body, fu.amount)), it)
                        n_events[0] += 1
                        tags.add(tag)
                        changed = True
            if local_acc is not None:
                tag = local_acc(body, it)
                if tag:
                    tags.add(tag)
                    changed = True
        if isinstance(it, Term) and it.kind == "call" and it.j.get("res_local") and it.resolved != body.name:
            hs = helper_cache.get(it.resolved, False)
            if hs is False:
                hs = helper_cache[it.resolved] = counter_helper_summary(body.facts, it.resolved, container, counters)
            if hs:
                for tag, pidx in hs.items():
                    fld, op, chk = counters[tag]
                    if pidx - 1 < len(it.args):
                        if chk is not None and not chk(body, it.args[pidx - 1]):
                            problems.setdefault(("wrong-amount", tag, sources_str(body, it.args[pidx - 1])), it)
                        n_events[0] += 1
                        tags.add(tag)
                        changed = True
        if isinstance(it, Term) and it.kind == "call":
            # AddAssign on a field (SeqNr counters)
            for tag, (fld, op, chk) in counters.items():
                if op == "add_assign" and call_on_field(body, it, ("AddAssign::add_assign",), fld):
                    n_events[0] += 1
                    tags.add(tag)
                    changed = True
                if op == "sub_assign" and call_on_field(body, it, ("SubAssign::sub_assign",), fld):
                    n_events[0] += 1
                    tags.add(tag)
                    changed = True
        if extra_events is not None:
            tag = extra_events(body, it)
            if tag:
                tags.add(tag)
                changed = True
        return frozenset(tags) if changed else None

    cuts = body.loop_boundary_edges()
    cut_viol = []

    def on_cut(s, src, tgt):
        miss = balance(s)
        if miss:
            cut_viol.append((s, tuple(miss), src))
        return [frozenset()]

    res = typestate(body, [frozenset()], step, cut_edges=cuts, on_cut=on_cut)
    found = False
    for (tagk, tag, srcs), it in problems.items():
        found = True
        R.fail([body.name, container, tagk, tag, "sources=" + srcs], "%s: counter update %s uses an amount that does not come from the element (%s)" % (body.name, tag, srcs),
               where=it.where(), instance=instance)
    reported = set()
    for bb, states in res.exits.items():
        for s in states:
            miss = balance(s)
            if miss:
                key = (tuple(sorted(s)), tuple(miss))
                if key in reported:
                    continue
                reported.add(key)
                found = True
                R.fail([body.name, container, "events=" + ",".join(sorted(s)), "missing=" + ",".join(miss)],
                       "%s: on some path the events {%s} on %s happen without {%s} before return - bookkeeping diverges from the queue" % (body.name, ", ".join(sorted(s)), container, ", ".join(miss)),
                       where=body.where(), witness=res.witness_lines(bb, s), instance=instance)
    for s, miss, src in cut_viol:
        key = (tuple(sorted(s)), tuple(miss))
        if key in reported:
            continue
        reported.add(key)
        found = True
        R.fail([body.name, container, "events=" + ",".join(sorted(s)), "missing=" + ",".join(miss), "per-iteration"],
               "%s: within one loop iteration the events {%s} on %s happen without {%s}" % (body.name, ", ".join(sorted(s)), container, ", ".join(miss)),
               where=body.blocks[src].term.where(), instance=instance)
    if not found:
        R.ok(instance, body.name, "%d accounting events balanced on every path/iteration" % n_events[0])
    return n_events[0]


def census_calls(R, facts, callee_names, field=None, argi=0, scope=None):
    """all call sites (body, term) of callee_names, optionally restricted to receiver field"""
    out = []
    for b in facts.bodies(scope):
        for t in b.calls():
            if call_matches(t, callee_names):
                if field is None or (len(t.args) > argi and trace(b, t.args[argi]).last_field == field):
                    out.append((b, t))
    return out


def census_field_writes(facts, field, scope=None):
    out = []
    for b in facts.bodies(scope):
        for s in b.stmts():
            if written_field(b, s) == field:
                out.append((b, s))
    return out


def owner_fn(body):
    """name of the enclosing fn/method for a closure body (closure numbering is unstable, do not key on it)"""
    n = body.name
    b = body
    while b is not None and b.kind == "closure" and b.parent:
        n = b.parent
        b = body.facts.body(b.parent)
    return n


def calls_on_container(facts, container, scope=None):
    """every method called with (a view of) `container` as receiver: (body, term, method_short_name)"""
    out = []
    for b in facts.bodies(scope):
        for t in b.calls():
            if not t.args or t.is_tracing:
                continue
            a = t.args[0]
            if a.place is None:
                continue
            tr = trace(b, a)
            if tr.last_field == container:
                out.append((b, t, short_callee(t.callee)))
    return out


import re as _re


def const_duration_ns(facts, name):
    """evaluated std::time::Duration constant -> nanoseconds (None if absent / not a Duration)"""
    p = facts.const_pretty(name)
    if not p:
        return None
    m = _re.search(r"secs: (\d+)_u64, nanos: [^(]*\((\d+)_u32", p)
    if not m:
        return None
    return int(m.group(1)) * 1_000_000_000 + int(m.group(2))


def edge_truth(label, neg=False):
    v = (label[1] != 0) if label[0] == "val" else (0 in label[1])
    return (not v) if neg else v


def controlling(body, bb):
    """[(Cond, truth, description)] for the switch edges every path to bb must take"""
    from utpsa.flow import controlling_edges, describe_cond
    out = []
    for t, tgt, lab in controlling_edges(body, bb):
        c, neg = switch_cond(body, t)
        out.append((c, edge_truth(lab, neg), describe_cond(body, t, lab), t, tgt, lab))
    return out


def affine_trace(body, op, depth=0):
    """(Trace of the base, constant offset) for SeqNr/integer expressions built from one source by +k / -k"""
    t = trace(body, op)
    if t.kind == "call" and not t.fields and depth < 6:
        c = t.root[1]
        if call_matches(c, ("Add::add",)) and c.args[1].kind == "const" and isinstance(c.args[1].scalar, int):
            b, k = affine_trace(body, c.args[0], depth + 1)
            return b, k + c.args[1].scalar
        if call_matches(c, ("Sub::sub",)) and c.args[1].kind == "const" and isinstance(c.args[1].scalar, int):
            b, k = affine_trace(body, c.args[0], depth + 1)
            return b, k - c.args[1].scalar
    return t, 0


def affine(body, op):
    t, k = affine_trace(body, op)
    return t.describe(), k


def copied_from(body, op):
    """name of the user variable an operand was copied from (through plain copies/moves only)"""
    if op.place is None or not op.place.is_local:
        return None
    l = op.place.local
    for _ in range(6):
        if body.local_name(l):
            return body.local_name(l)
        d = body.unique_def(l)
        if isinstance(d, Stmt) and d.rv.kind == "use" and d.rv.ops[0].place is not None and d.rv.ops[0].place.is_local:
            l = d.rv.ops[0].place.local
        else:
            return None
    return None




def copy_root(body, op):
    """index of the local an operand is a plain copy of (through single-definition `x = copy/move y` chains); None for constants/projections"""
    pl = op.place if isinstance(op, Operand) else op
    if pl is None or not pl.is_local:
        return None
    l = pl.local
    for _ in range(8):
        d = body.unique_def(l)
        if isinstance(d, Stmt) and d.rv.kind == "use" and d.rv.ops[0].place is not None and d.rv.ops[0].place.is_local:
            l = d.rv.ops[0].place.local
        else:
            break
    return l


def nonzero_test(c, truth):
    """if the branch condition `c` having value `truth` implies X != 0 for an unsigned operand X, return X (an Operand)"""
    if c.kind != "bin":
        return None
    a, b, op = c.a, c.b, c.op

    def k(o, v):
        return o.kind == "const" and o.scalar == v
    if k(b, 0) and ((op in ("Gt", "Ne") and truth) or (op in ("Eq", "Le") and not truth)):
        return a
    if k(a, 0) and ((op in ("Lt", "Ne") and truth) or (op in ("Eq", "Ge") and not truth)):
        return b
    if k(b, 1) and ((op == "Ge" and truth) or (op == "Lt" and not truth)):
        return a
    if k(a, 1) and ((op == "Le" and truth) or (op == "Gt" and not truth)):
        return b
    return None


def zero_test(c, truth):
    """if `c == truth` implies X == 0 for an unsigned operand X, return X"""
    return nonzero_test(c, not truth)


def implied(c, truth):
    """normalised relations implied by "branch condition c evaluates to truth": a list of (rel, x, y) with rel in
    lt (x < y), le (x <= y), eq, ne (both symmetric, listed in both orders).  Every way of writing the same test -
    swapped operands, negated operator, taking the else branch - yields the same relations."""
    out = []
    if c.kind == "call" and len(c.call.args) == 2:
        # comparisons of non-primitive values go through the operator traits (SeqNr: derived ==, modular <)
        a, b = c.call.args
        for nm, rels_t, rels_f in (("PartialEq::eq", "eq", "ne"), ("PartialEq::ne", "ne", "eq")):
            if call_matches(c.call, (nm,)):
                r = rels_t if truth else rels_f
                out += [(r, a, b), (r, b, a)]
                if r == "eq":
                    out += [("le", a, b), ("le", b, a)]
        for nm, lo, hi, strict in (("PartialOrd::lt", a, b, True), ("PartialOrd::le", a, b, False), ("PartialOrd::gt", b, a, True), ("PartialOrd::ge", b, a, False)):
            if call_matches(c.call, (nm,)):
                if not truth:
                    lo, hi, strict = hi, lo, not strict
                out.append(("le", lo, hi))
                if strict:
                    out += [("lt", lo, hi), ("ne", lo, hi), ("ne", hi, lo)]
        return out
    o = ordering(c, truth)
    if o is not None:
        lo, hi, strict = o
        out.append(("le", lo, hi))
        if strict:
            out.append(("lt", lo, hi))
            out.append(("ne", lo, hi))
            out.append(("ne", hi, lo))
    if c.kind == "bin" and c.op in ("Eq", "Ne"):
        if (c.op == "Eq") == truth:
            out += [("eq", c.a, c.b), ("eq", c.b, c.a), ("le", c.a, c.b), ("le", c.b, c.a)]
        else:
            out += [("ne", c.a, c.b), ("ne", c.b, c.a)]
    return out


def guarded(body, bb, rel, px, py, strict=None):
    """is block bb control-dependent on a test implying `x rel y` with px(x) and py(y)?  px/py: Operand -> bool.
    strict (for rel == "le"): None = either; False = the test must be exactly `x <= y` (not `x < y`); True = must be `x < y`."""
    for c, truth, d, *_ in controlling(body, bb):
        rels = implied(c, truth)
        for r, x, y in rels:
            if r == rel and px(x) and py(y):
                if strict is None or rel != "le":
                    return True
                is_strict = any(r2 == "lt" and x2 is x and y2 is y for r2, x2, y2 in rels)
                if is_strict == strict:
                    return True
    return False


def rv_ordering(rv):
    """for a comparison *value* `v = a OP b` (not a branch): (lo, hi, strict) that holds when v is true"""
    class _C:
        pass
    c = _C()
    c.kind, c.op = rv.kind, rv.op
    if rv.kind != "bin" or len(rv.ops) != 2:
        return None
    c.a, c.b = rv.ops
    return ordering(c, True)


def call_sites_of(F, fname):
    return [(b, t) for b in F.bodies() for t in b.calls() if t.resolved == fname]


def resolve_param(F, body, t, k=0, depth=0):
    """A value that is a bare parameter of a (private) fn is whatever its callers pass: [(caller body, affine Trace of the argument, offset)]
    over every call site; [(body, t, k)] unchanged for anything else.  This is what makes `extract helper fn` refactorings invisible."""
    if t.kind == "param" and not t.fields and body.kind != "closure" and depth < 3:
        sites = call_sites_of(F, body.name)
        if sites:
            out = []
            for cb, ct in sites:
                i = t.root[1] - 1
                if i >= len(ct.args):
                    return [(body, t, k)]
                at, ak = affine_trace(cb, ct.args[i])
                out += resolve_param(F, cb, at, k + ak, depth + 1)
            return out
    return [(body, t, k)]


def returned_call(body):
    """the call whose result a fn returns (its only definition of the return place, through plain copies), else None"""
    t = trace(body, Place({"l": 0, "p": []}))
    if t.kind == "call" and not t.fields:
        return t.root[1]
    return None


def is_fn_param(body, t, idx):
    """the Trace root is parameter `idx` of the enclosing fn - directly, or as a variable captured by a closure / async block of it"""
    from utpsa.prov import upvar_origin
    if t.kind == "param":
        return t.root[1] == idx and body.kind != "closure"
    if t.kind == "upvar":
        o = upvar_origin(body, t.root[1])
        while o is not None and o[0] == "local":
            # a local of an intermediate closure that re-binds the captured parameter under the same name
            return False
        return o is not None and o[0] == "param" and o[1] == idx and o[2].kind != "closure"
    return False


def int_affine(body, op, depth=0):
    """(Trace of the base, constant k) for integer / SeqNr expressions of the form base + k or base - k, written with the built-in
    operators (AddWithOverflow ...) or the SeqNr Add/Sub impls; k = 0 for anything else"""
    t = trace(body, op)
    if depth < 6 and not [f for f in t.fields if not f.startswith("tuple.")]:
        if t.kind == "rv" and t.root[1].rv.kind == "bin" and (not t.fields or t.fields == ["tuple.0"]):
            rv = t.root[1].rv
            a, b_ = rv.ops
            if rv.op in ADD_OPS and b_.kind == "const" and isinstance(b_.scalar, int):
                bt, k = int_affine(body, a, depth + 1)
                return bt, k + b_.scalar
            if rv.op in ADD_OPS and a.kind == "const" and isinstance(a.scalar, int):
                bt, k = int_affine(body, b_, depth + 1)
                return bt, k + a.scalar
            if rv.op in SUB_OPS and b_.kind == "const" and isinstance(b_.scalar, int):
                bt, k = int_affine(body, a, depth + 1)
                return bt, k - b_.scalar
        if t.kind == "call" and not t.fields:
            c = t.root[1]
            if call_matches(c, ("Add::add",)) and c.args[1].kind == "const" and isinstance(c.args[1].scalar, int):
                bt, k = int_affine(body, c.args[0], depth + 1)
                return bt, k + c.args[1].scalar
            if call_matches(c, ("Sub::sub",)) and c.args[1].kind == "const" and isinstance(c.args[1].scalar, int):
                bt, k = int_affine(body, c.args[0], depth + 1)
                return bt, k - c.args[1].scalar
    return t, 0


def point_reaches(body, a, b):
    """can control flow from item `a` (after it executed) reach item `b`?  (same block: b later than a; or b's block reachable from a successor of a's block)"""
    if a.bb == b.bb and b.idx > a.idx:
        return True
    for nxt in body.succ(a.bb):
        if b.bb in body.reachable(nxt):
            return True
    return False


def check_getters(R, prefixes, instance="accessor-fidelity"):
    """Accessors of the reviewed tree that merely hand out one field path (engine/pinned_fns.json `getters`, frozen by bin/gen-pinned)
    still hand out that field.  The rules read the code *through* these accessors (`seg.is_delivered()`, `sizes.mss()`), so an
    accessor that starts returning a sibling field of the same type silently changes what every such rule - and the library - means."""
    import json as _json
    import os as _os
    p = _os.path.join(_os.path.dirname(_os.path.dirname(_os.path.abspath(__file__))), "engine", "pinned_fns.json")
    try:
        table = _json.load(open(p)).get("getters", {})
    except (OSError, ValueError):
        table = {}
    n = 0
    for name, fields in sorted(table.items()):
        if not name.startswith(tuple(prefixes)):
            continue
        b = R.facts.body(name)
        if b is None:
            continue  # the accessor is gone: rules anchored in it fail closed on their own
        n += 1
        t = trace(b, Place({"l": 0, "p": []}))
        if t.kind == "param" and t.root[1] == 1 and t.fields == fields:
            R.ok(instance, name.split("::", 1)[1], "-> " + ".".join(f.split(".")[1] for f in fields))
        else:
            R.fail([name, "returns", ".".join(t.fields) if t.fields else t.describe()[:40], "reviewed=" + ".".join(fields)],
                   "%s no longer returns %s (now: %s): every guard and computation that reads the state through this accessor now reads something else" % (name.split("::", 1)[1], ".".join(f.split(".")[1] for f in fields), ".".join(t.fields) or t.describe()[:40]),
                   where=b.where(), instance=instance)
    return n


def select_minmax(body, op):
    """Recognise a minimum / maximum however it is written: `a.min(b)` / `Ord::min(a, b)`, or the equivalent conditional
    `if a <= b { a } else { b }` (any comparison spelling, either branch order, pure operands re-evaluated).
    Returns ("min"|"max", Trace of a, Trace of b) or None."""
    from utpsa.bounds import _select_minmax
    from utpsa.prov import Trace, TRANSPARENT
    t = trace(body, op)
    if t.fields:
        return None
    if t.kind == "call" and call_matches(t.root[1], ("Ord::min", "Ord::max")) and len(t.root[1].args) == 2:
        return ("min" if call_matches(t.root[1], ("Ord::min",)) else "max", trace(body, t.root[1].args[0]), trace(body, t.root[1].args[1]))
    if t.kind != "multi":
        return None
    sel = _select_minmax(body, t)
    if sel is None:
        return None

    def as_trace(v):
        if isinstance(v, Term):
            if (v.callee in TRANSPARENT or v.resolved in TRANSPARENT) and v.args:
                return trace(body, v.args[0])
            return Trace(("call", v), [], [], [v], [])
        return trace(body, v)
    ta, tb = as_trace(sel[1]), as_trace(sel[2])
    # where the two values are read (the conditional assignments themselves), for ordering arguments
    d1, d2 = list(t.root[3])
    ta.steps = list(ta.steps) + [d1]
    tb.steps = list(tb.steps) + [d2]
    return (sel[0], ta, tb)
