"""Helpers shared by several rule files (no registration here)."""
import os
import sys

sys.path.insert(0, os.path.join(os.path.dirname(os.path.dirname(os.path.abspath(__file__))), "engine"))

from utpsa.facts import Stmt, Term, Place, Operand  # noqa
from utpsa.prov import trace, value_sources, short_callee, place_fields  # noqa
from utpsa.flow import typestate, switch_cond, bool_edges, switch_variant_edges, must_pass_edges, must_pass_blocks, shortest_path, path_lines, classify, ret_assignments, fmt_state  # noqa
from utpsa.events import *  # noqa
from utpsa.registry import rule, RuleAbort  # noqa

PUSH = {"VecDeque::push_back": "back", "VecDeque::push_front": "front"}
POP = {"VecDeque::pop_back": "back", "VecDeque::pop_front": "front"}


def removal_kind(body, call, container):
    """'front'/'back' if `call` removes one element from `container` (pop_*, or next() of its drain)"""
    if not isinstance(call, Term) or call.kind != "call":
        return None
    for n, k in POP.items():
        if call_on_field(body, call, (n,), container):
            return k
    if call_matches(call, ("Iterator::next",)) and call.args:
        t = trace(body, call.args[0])
        if t.kind == "call" and call_on_field(body, t.root[1], ("VecDeque::drain",), container):
            return "front"
        if t.kind == "multi":
            for d in t.root[3]:
                if isinstance(d, Term) and d.kind == "call":
                    # `iter = IntoIterator::into_iter(drain(..))`
                    tt = trace(body, d.args[0]) if call_matches(d, ("IntoIterator::into_iter",)) and d.args else None
                    if tt is not None and tt.kind == "call" and call_on_field(body, tt.root[1], ("VecDeque::drain",), container):
                        return "front"
    return None


def container_accounting(R, body, container, counters, balance, instance, local_acc=None, extra_events=None):
    """E3 coupled counters.  Per loop iteration (states are checked and reset at loop boundary edges)
    and at every return, the set of events seen must satisfy `balance(tags) -> [missing...]`.

    counters: {tag: (field, op, amount_check or None)}; amount_check(body, operand) -> bool
    local_acc: optional fn(body, it) -> tag for local accumulations
    extra_events: optional fn(body, it) -> tag
    """
    problems = {}
    n_events = [0]

    def step(it, s):
        tags = set(s)
        changed = False
        if isinstance(it, Term) and it.kind == "call":
            for n, end in PUSH.items():
                if call_on_field(body, it, (n,), container):
                    n_events[0] += 1
                    if is_fresh_value(body, it.args[1]):
                        t = trace(body, it.args[1])
                        if t.kind == "call" and (t.root[1].callee or "").endswith("Default::default"):
                            tags.add("push_default")
                        else:
                            tags.add("ins")
                    else:
                        pend = [t for t in tags if t.startswith("rem_")]
                        if pend:
                            for t in pend:
                                tags.discard(t)
                        else:
                            tags.add("ins")
                    changed = True
            root = unwrap_root_call(body, it)
            if root is not None:
                k = removal_kind(body, root, container)
                if k:
                    n_events[0] += 1
                    tags.add("rem_" + k)
                    changed = True
        elif isinstance(it, Stmt):
            root = extraction_root_call(body, it)
            if root is not None:
                k = removal_kind(body, root, container)
                if k:
                    n_events[0] += 1
                    tags.add("rem_" + k)
                    changed = True
            fu = field_update(body, it)
            if fu is not None:
                for tag, (fld, op, chk) in counters.items():
                    if fu.field == fld and fu.op == op:
                        if chk is not None and fu.amount is not None and not chk(body, fu.amount):
                            problems.setdefault(("wrong-amount", tag, sources_str(body, fu.amount)), it)
                        n_events[0] += 1
                        tags.add(tag)
                        changed = True
            if local_acc is not None:
                tag = local_acc(body, it)
                if tag:
                    tags.add(tag)
                    changed = True
        if isinstance(it, Term) and it.kind == "call":
            # AddAssign on a field (SeqNr counters)
            for tag, (fld, op, chk) in counters.items():
                if op == "add_assign" and call_on_field(body, it, ("AddAssign::add_assign",), fld):
                    n_events[0] += 1
                    tags.add(tag)
                    changed = True
                if op == "sub_assign" and call_on_field(body, it, ("SubAssign::sub_assign",), fld):
                    n_events[0] += 1
                    tags.add(tag)
                    changed = True
        if extra_events is not None:
            tag = extra_events(body, it)
            if tag:
                tags.add(tag)
                changed = True
        return frozenset(tags) if changed else None

    cuts = body.loop_boundary_edges()
    cut_viol = []

    def on_cut(s, src, tgt):
        miss = balance(s)
        if miss:
            cut_viol.append((s, tuple(miss), src))
        return [frozenset()]

    res = typestate(body, [frozenset()], step, cut_edges=cuts, on_cut=on_cut)
    found = False
    for (tagk, tag, srcs), it in problems.items():
        found = True
        R.fail([body.name, container, tagk, tag, "sources=" + srcs], "%s: counter update %s uses an amount that does not come from the element (%s)" % (body.name, tag, srcs),
               where=it.where(), instance=instance)
    reported = set()
    for bb, states in res.exits.items():
        for s in states:
            miss = balance(s)
            if miss:
                key = (tuple(sorted(s)), tuple(miss))
                if key in reported:
                    continue
                reported.add(key)
                found = True
                R.fail([body.name, container, "events=" + ",".join(sorted(s)), "missing=" + ",".join(miss)],
                       "%s: on some path the events {%s} on %s happen without {%s} before return - bookkeeping diverges from the queue" % (body.name, ", ".join(sorted(s)), container, ", ".join(miss)),
                       where=body.where(), witness=res.witness_lines(bb, s), instance=instance)
    for s, miss, src in cut_viol:
        key = (tuple(sorted(s)), tuple(miss))
        if key in reported:
            continue
        reported.add(key)
        found = True
        R.fail([body.name, container, "events=" + ",".join(sorted(s)), "missing=" + ",".join(miss), "per-iteration"],
               "%s: within one loop iteration the events {%s} on %s happen without {%s}" % (body.name, ", ".join(sorted(s)), container, ", ".join(miss)),
               where=body.blocks[src].term.where(), instance=instance)
    if not found:
        R.ok(instance, body.name, "%d accounting events balanced on every path/iteration" % n_events[0])
    return n_events[0]


def census_calls(R, facts, callee_names, field=None, argi=0, scope=None):
    """all call sites (body, term) of callee_names, optionally restricted to receiver field"""
    out = []
    for b in facts.bodies(scope):
        for t in b.calls():
            if call_matches(t, callee_names):
                if field is None or (len(t.args) > argi and trace(b, t.args[argi]).last_field == field):
                    out.append((b, t))
    return out


def census_field_writes(facts, field, scope=None):
    out = []
    for b in facts.bodies(scope):
        for s in b.stmts():
            if written_field(b, s) == field:
                out.append((b, s))
    return out


def owner_fn(body):
    """name of the enclosing fn/method for a closure body (closure numbering is unstable, do not key on it)"""
    n = body.name
    b = body
    while b is not None and b.kind == "closure" and b.parent:
        n = b.parent
        b = body.facts.body(b.parent)
    return n


def calls_on_container(facts, container, scope=None):
    """every method called with (a view of) `container` as receiver: (body, term, method_short_name)"""
    out = []
    for b in facts.bodies(scope):
        for t in b.calls():
            if not t.args or t.is_tracing:
                continue
            a = t.args[0]
            if a.place is None:
                continue
            tr = trace(b, a)
            if tr.last_field == container:
                out.append((b, t, short_callee(t.callee)))
    return out


import re as _re


def const_duration_ns(facts, name):
    """evaluated std::time::Duration constant -> nanoseconds (None if absent / not a Duration)"""
    p = facts.const_pretty(name)
    if not p:
        return None
    m = _re.search(r"secs: (\d+)_u64, nanos: [^(]*\((\d+)_u32", p)
    if not m:
        return None
    return int(m.group(1)) * 1_000_000_000 + int(m.group(2))


def edge_truth(label, neg=False):
    v = (label[1] != 0) if label[0] == "val" else (0 in label[1])
    return (not v) if neg else v


def controlling(body, bb):
    """[(Cond, truth, description)] for the switch edges every path to bb must take"""
    from utpsa.flow import controlling_edges, describe_cond
    out = []
    for t, tgt, lab in controlling_edges(body, bb):
        c, neg = switch_cond(body, t)
        out.append((c, edge_truth(lab, neg), describe_cond(body, t, lab), t, tgt, lab))
    return out


def affine_trace(body, op, depth=0):
    """(Trace of the base, constant offset) for SeqNr/integer expressions built from one source by +k / -k"""
    t = trace(body, op)
    if t.kind == "call" and not t.fields and depth < 6:
        c = t.root[1]
        if call_matches(c, ("Add::add",)) and c.args[1].kind == "const" and isinstance(c.args[1].scalar, int):
            b, k = affine_trace(body, c.args[0], depth + 1)
            return b, k + c.args[1].scalar
        if call_matches(c, ("Sub::sub",)) and c.args[1].kind == "const" and isinstance(c.args[1].scalar, int):
            b, k = affine_trace(body, c.args[0], depth + 1)
            return b, k - c.args[1].scalar
    return t, 0


def affine(body, op):
    t, k = affine_trace(body, op)
    return t.describe(), k


def copied_from(body, op):
    """name of the user variable an operand was copied from (through plain copies/moves only)"""
    if op.place is None or not op.place.is_local:
        return None
    l = op.place.local
    for _ in range(6):
        if body.local_name(l):
            return body.local_name(l)
        d = body.unique_def(l)
        if isinstance(d, Stmt) and d.rv.kind == "use" and d.rv.ops[0].place is not None and d.rv.ops[0].place.is_local:
            l = d.rv.ops[0].place.local
        else:
            return None
    return None


