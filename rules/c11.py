"""C11 wire format: total parser, layout agreement between encoder and decoder, every Eq-relevant field encoded."""
from .common import *
from .c10 import census, AUDITED
from utpsa.panics import reachable_bodies
from utpsa.facts import short_owner

IDX = ("std::ops::Index::index", "std::ops::IndexMut::index_mut", "std::array::index", "std::array::index_mut", "core::slice::index::index", "core::slice::index::index_mut")

SER = "raw::UtpHeader::serialize"
DES = "raw::UtpHeader::deserialize"
PARSERS = [DES, "message::UtpMessage::deserialize", "raw::selective_ack::SelectiveAck::deserialize", "raw::ext_close_reason::LibTorrentCloseReason::parse", "raw::Type::from_number"]


@rule("C11.1", ["C11", "C10"], ["E8"], "the parser has no unaudited panic-capable operation",
      "The panic census of C10.1 restricted to UtpHeader::deserialize, UtpMessage::deserialize, SelectiveAck::deserialize, LibTorrentCloseReason::parse, Type::from_number and their closures: every "
      "constant index/range is auto-discharged by the dominating `len() < UTP_HEADER -> None` guard; the rest matches the audited table.")
def c11_1(R):
    F = R.facts
    for p in PARSERS:
        R.body(p)
    seen, parent = reachable_bodies(F, PARSERS)
    seen = {n for n in seen if any(n == p or n.startswith(p + "::") for p in PARSERS)}
    auto, naud, overflow = census(R, seen, parent, AUDITED, "parser:")
    R.note("parser: auto_discharged=%d audited=%d overflow-asserts=%d" % (auto, naud, overflow))
    R.floor("auto-discharged constant accesses in the parser", auto, 10)
    # the guard itself
    d = R.body(DES)
    okg = False
    for it, cls in ret_assignments(d):
        if cls == "None":
            for c, truth, desc, *_ in controlling(d, it.bb):
                for r_, x_, y_ in implied(c, truth):
                    tb = trace(d, y_)
                    if r_ == "lt" and tb.kind == "const" and tb.root[1].const_item == "constants::UTP_HEADER":
                        okg = True
    if okg and F.const_scalar("constants::UTP_HEADER") == 20:
        R.ok("short-datagram=>None", DES, "len() < UTP_HEADER (20) -> None")
    else:
        R.fail([DES, "no-guard(len<UTP_HEADER)"], "deserialize no longer rejects datagrams shorter than the 20-byte header", where=d.where(), instance="short-datagram=>None")


def ser_table(R):
    b = R.body(SER)
    tab = {}
    for t in b.calls():
        if call_matches(t, ("core::slice::copy_from_slice",)):
            dt = trace(b, t.args[0])
            st = trace(b, t.args[1], extra_transparent=())
            if dt.kind == "call" and call_matches(dt.root[1], ("index_mut", "IndexMut::index_mut")):
                rg = trace(b, dt.root[1].args[1])
                if rg.kind == "rv" and rg.root[1].rv.kind == "agg" and all(o.kind == "const" for o in rg.root[1].rv.ops):
                    a, e = [o.scalar for o in rg.root[1].rv.ops]
                    if st.kind == "call" and (st.root[1].resolved or "").endswith("to_be_bytes"):
                        src = value_sources(b, st.root[1].args[0])
                        flds = sorted(x[1] for x in src if x[0] == "field")
                        tab[(a, e)] = (flds[0] if len(flds) == 1 else str(sorted(src)), t)
    return b, tab


def des_table(R):
    b = R.body(DES)
    tab = {}
    for s in b.stmts():
        f = written_field(b, s)
        if f and f.startswith("UtpHeader.") and s.rv.ops:
            t = trace(b, s.rv.ops[0], extra_transparent=("core::num::from_be_bytes", "std::result::Result::unwrap"))
            if t.kind == "call" and call_matches(t.root[1], ("core::slice::index::index", "Index::index")):
                rg = trace(b, t.root[1].args[1])
                if rg.kind == "rv" and rg.root[1].rv.kind == "agg" and all(o.kind == "const" for o in rg.root[1].rv.ops):
                    a, e = [o.scalar for o in rg.root[1].rv.ops]
                    tab[(a, e)] = (f, s)
    return b, tab


@rule("C11.2", ["C11"], ["E7"], "encoder and decoder agree on the byte layout",
      "Extracted from serialize: {byte range -> header field} (ranges of copy_from_slice destinations, fields by provenance of to_be_bytes' argument); from deserialize: {header field <- byte range} "
      "(provenance of from_be_bytes' argument). The tables must be equal and tile bytes 2..20; byte 0 is (htype.to_number() << 4) | VERSION with VERSION = 1 against `>> 4`, `& 0xf`, `!= 1 -> None`; "
      "Type::to_number and from_number are mutually inverse over the 5 variants; the extension ids written and matched are the same constants.")
def c11_2(R):
    F = R.facts
    sb, st = ser_table(R)
    db, dt = des_table(R)
    R.floor("fixed-field ranges in serialize", len(st), 6)
    R.floor("fixed-field ranges in deserialize", len(dt), 6)
    for rg in sorted(set(st) | set(dt)):
        s_f = st.get(rg, (None, None))[0]
        d_f = dt.get(rg, (None, None))[0]
        if s_f == d_f and s_f is not None:
            R.ok("layout", "bytes %d..%d" % rg, s_f)
        else:
            w = (st.get(rg) or dt.get(rg))[1]
            R.fail(["layout-mismatch", "bytes=%d..%d" % rg, "serialize=%s" % s_f, "deserialize=%s" % d_f], "bytes %d..%d: serialize writes %s, deserialize reads %s" % (rg[0], rg[1], s_f, d_f), where=w.where(), instance="layout")
    cover = sorted(st)
    pos = 2
    okc = True
    for a, e in cover:
        if a != pos:
            okc = False
        pos = e
    if okc and pos == 20:
        R.ok("layout-tiles-2..20", SER, "%d ranges" % len(cover))
    else:
        R.fail([SER, "layout-does-not-tile(2..20)", str(cover)], "the fixed header fields written by serialize do not tile bytes 2..20", where=sb.where(), instance="layout-tiles-2..20")
    # widths: u16 fields 2 bytes, u32 fields 4 bytes
    # byte 0
    ver = F.const_scalar(SER + "::VERSION")
    ok0 = False
    for s in sb.stmts():
        if s.rv.kind == "bin" and s.rv.op == "BitOr":
            a, c = s.rv.ops
            ta = trace(sb, a, through_casts=False)
            if c.kind == "const" and c.const_item == SER + "::VERSION" and ta.kind == "rv" and ta.root[1].rv.kind == "bin" and ta.root[1].rv.op == "Shl" and ta.root[1].rv.ops[1].scalar == 4:
                tt = trace(sb, ta.root[1].rv.ops[0])
                if tt.kind == "call" and call_matches(tt.root[1], ("raw::Type::to_number",)):
                    ok0 = True
    shr = any(s.rv.kind == "bin" and s.rv.op == "Shr" and s.rv.ops[1].kind == "const" and s.rv.ops[1].scalar == 4 for s in db.stmts())
    andf = any(s.rv.kind == "bin" and s.rv.op == "BitAnd" and s.rv.ops[1].kind == "const" and s.rv.ops[1].scalar == 15 for s in db.stmts())
    vcheck = False
    for it, cls in ret_assignments(db):
        if cls == "None":
            for c, truth, desc, *_ in controlling(db, it.bb):
                if c.kind == "bin" and c.op == "Ne" and truth and c.b.kind == "const" and c.b.scalar == 1:
                    ta = trace(db, c.a, through_casts=False)
                    if ta.kind == "rv" and ta.root[1].rv.kind == "bin" and ta.root[1].rv.op == "BitAnd":
                        vcheck = True
    if ok0 and ver == 1 and shr and andf and vcheck:
        R.ok("byte0", "type<<4 | version", "VERSION = 1; decoder: >> 4, & 0xf, != 1 -> None")
    else:
        R.fail(["byte0", "enc=%s" % ok0, "VERSION=%s" % ver, "shr4=%s" % shr, "and15=%s" % andf, "version-check=%s" % vcheck], "byte 0 (type/version) is no longer encoded as (type << 4) | 1 and decoded/validated symmetrically", where=sb.where(), instance="byte0")
    # Type tables
    tn = R.body("raw::Type::to_number")
    fn = R.body("raw::Type::from_number")
    to = {}
    for it, cls in ret_assignments(tn):
        for c, truth, desc, *_ in controlling(tn, it.bb):
            if desc.startswith("discr:") and cls.startswith("const:"):
                to[desc.split("=")[-1]] = int(cls.split(":")[1])
    frm = {}
    for s in fn.stmts():
        if s.rv.kind == "agg" and s.rv.j.get("adt") == "raw::Type":
            for t, tgt, lab in __import__("utpsa.flow", fromlist=["controlling_edges"]).controlling_edges(fn, s.bb):
                if lab[0] == "val" and t.op.place is not None and fn.is_param(trace(fn, t.op).root[1] if trace(fn, t.op).kind == "param" else -1):
                    frm[lab[1]] = s.rv.j["variant"]
    adt = F.adt("raw::Type")
    names = {v["name"]: v["discr"] for v in adt["variants"]}
    inv = {v: k for k, v in to.items()}
    if len(to) == 5 and inv == frm and set(to) == set(names):
        R.ok("type-tables-inverse", "Type::to_number / from_number", str(sorted(to.items(), key=lambda x: x[1])))
    else:
        R.fail(["raw::Type", "to_number=%s" % sorted(to.items()), "from_number=%s" % sorted(frm.items())], "Type::to_number and Type::from_number are not mutually inverse over the five packet types", where=tn.where(), instance="type-tables-inverse")
    # extension ids
    ids_w = set()
    for s in sb.stmts():
        if s.rv.kind == "use" and s.rv.ops[0].kind == "const" and (s.rv.ops[0].const_item or "").startswith("raw::EXT_"):
            ids_w.add(s.rv.ops[0].const_item)
    ids_r = set()
    for it in db.items():
        ops = it.rv.ops if isinstance(it, Stmt) else []
        for o in ops:
            if o.kind == "const" and (o.const_item or "").startswith("raw::EXT_"):
                ids_r.add(o.const_item)
    # the decoder matches on the tuple (ext, ext_len) with literal patterns: compare values
    vals_w = {F.const_scalar(i) for i in ids_w}
    sw_vals = set()
    for blk in db.blocks:
        if blk.cleanup or blk.term.kind != "switch":
            continue
        pl = blk.term.op.place
        # `match (ext, ext_len) { (EXT_.., _) => .. }`: a switch on element 0 of a freshly built pair, or directly on the id variable
        if pl is not None and pl.fields == ["tuple.0"]:
            d_ = db.unique_def(pl.local)
            if isinstance(d_, Stmt) and d_.rv.kind == "agg" and d_.rv.j.get("ak") == "tuple" and len(d_.rv.ops) == 2:
                for v, tg in blk.term.j["targets"]:
                    sw_vals.add(v)
        elif pl is not None and not pl.proj and len(blk.term.j["targets"]) >= 2 and {v for v, tg in blk.term.j["targets"]} <= {1, 2, 3}:
            t = trace(db, blk.term.op)
            if t.kind == "multi" and "u8" in db.local_ty(t.root[1]):
                for v, tg in blk.term.j["targets"]:
                    sw_vals.add(v)
    if vals_w == {1, 3} and vals_w <= sw_vals:
        R.ok("extension-ids", "EXT_SELECTIVE_ACK=1, EXT_CLOSE_REASON=3", "written ids are matched by the decoder")
    else:
        R.fail(["extension-ids", "written=%s" % sorted(vals_w), "matched=%s" % sorted(sw_vals)], "the extension ids written by serialize are not the ones the decoder matches", where=sb.where(), instance="extension-ids")


@rule("C11.3", ["C11"], ["E6"], "payload present exactly for data packets",
      "UtpMessage::deserialize returns None under (type = ST_DATA and payload_size == 0) and under (type != ST_DATA and payload_size > 0), and for nothing else after the header parsed.")
def c11_3(R):
    b = R.body("message::UtpMessage::deserialize")
    seen = set()
    n = 0
    for it, cls in ret_assignments(b):
        if cls != "None":
            continue
        n += 1
        ctl = controlling(b, it.bb)
        descs = [d for c, truth, d, *_ in ctl]
        if any(d.startswith("discr:call:") and "UtpHeader::deserialize" in d and d.endswith("=None") for d in descs):
            n -= 1
            continue  # the header itself did not parse (`?` written out as a match): not a payload-rule rejection
        data = any(d.endswith("=ST_DATA") for d in descs)
        nondata = any(d.startswith("discr:") and "get_type" in d and not d.endswith("=ST_DATA") for d in descs)
        zero = any(zero_test(c, truth) is not None for c, truth, d, *_ in ctl)
        pos = any(nonzero_test(c, truth) is not None for c, truth, d, *_ in ctl)
        if data and zero:
            seen.add("data-empty")
        elif nondata and pos:
            seen.add("nondata-payload")
        else:
            R.fail([b.name, "unexpected-None", ",".join(sorted(descs))], "UtpMessage::deserialize rejects packets under a condition other than the payload rule", where=it.where(), instance="payload-rule")
    for k in ("data-empty", "nondata-payload"):
        if k in seen:
            R.ok("payload-rule:" + k, b.name)
        else:
            R.fail([b.name, "missing-rejection", k], "UtpMessage::deserialize no longer rejects %s" % k, where=b.where(), instance="payload-rule:" + k)
    # payload = buf[hsize..]
    okp = False
    for s in b.stmts():
        if s.rv.kind == "agg" and s.rv.j.get("adt") == "message::UtpMessage":
            i = s.rv.j["fields"].index("data")
            t = trace(b, s.rv.ops[i])
            if t.kind == "call" and call_matches(t.root[1], ("Index::index", "index::index")):
                rg = trace(b, t.root[1].args[1])
                if rg.kind == "rv" and rg.root[1].rv.j.get("adt", "").endswith("RangeFrom"):
                    st = trace(b, rg.root[1].rv.ops[0])
                    if "tuple.1" in st.fields and st.kind == "call" and call_matches(st.root[1], (DES,)) or (st.kind == "call" and "Try::branch" in (st.root[1].callee or "")):
                        okp = True
    if okp:
        R.ok("payload=buf[hsize..]", b.name, "payload starts at the header size returned by UtpHeader::deserialize")
    else:
        R.fail([b.name, "payload-boundary"], "the payload no longer starts at the header size returned by UtpHeader::deserialize", where=b.where(), instance="payload=buf[hsize..]")


EQ_ADTS = {
    "raw::UtpHeader": [SER],
    "raw::Extensions": [SER],
    "raw::selective_ack::SelectiveAck": [SER, "raw::selective_ack::SelectiveAck::as_bytes"],
    "raw::ext_close_reason::LibTorrentCloseReason": [SER, "raw::ext_close_reason::LibTorrentCloseReason::as_bytes"],
}


@rule("C11.4", ["C11"], ["E1"], "every field that takes part in header equality is encoded",
      "For each ADT reachable from UtpHeader that derives PartialEq (UtpHeader, Extensions, SelectiveAck, LibTorrentCloseReason) every field is read on some path of serialize / as_bytes: "
      "otherwise parse(serialize(h)) cannot equal h for some h.")
def c11_4(R):
    F = R.facts
    derives = {(im.get("self_adt"), im.get("trait")) for im in F.impls if im.get("derived")}
    for adt, fns in EQ_ADTS.items():
        a = F.adt(adt)
        R.require(a is not None, "ADT " + adt)
        if (adt, "std::cmp::PartialEq") not in derives:
            R.note("%s no longer derives PartialEq" % adt)
            continue
        reads = set()
        for fnn in fns:
            b = R.body(fnn)
            for it in b.items():
                pls = []
                if isinstance(it, Stmt):
                    pls = [o.place for o in it.rv.ops if o.place is not None]
                    if it.rv.place is not None:
                        pls.append(it.rv.place)
                elif it.kind == "call":
                    pls = [o.place for o in it.args if o.place is not None]
                elif it.kind == "switch" and it.op.place is not None:
                    pls = [it.op.place]
                for pl in pls:
                    ff, _, _ = place_fields(b, pl)
                    for f in ff:
                        reads.add(f)
        short = short_owner(adt)
        for f in a["variants"][0]["fields"]:
            key = "%s.%s" % (short, f["name"])
            if key in reads:
                R.ok("eq-field-encoded", key, "read by " + "/".join(x.split("::")[-1] for x in fns))
            else:
                R.fail([adt, "field-in-PartialEq-not-encoded", f["name"]],
                       "%s takes part in the derived PartialEq of %s but is never read by %s: serialising and re-parsing changes it" % (key, short, "/".join(x.split("::")[-1] for x in fns)),
                       where="%s:%d" % (a["loc"][0], a["loc"][1]), instance="eq-field-encoded")


@rule("C11.5", ["C11", "C12"], ["E1", "E4"], "every datagram handed to the transport starts with the output of UtpHeader::serialize",
      "Transport::send_to is called only in Dispatcher::on_control (SYN) and try_send_rst (RST); Transport::poll_send_to only in UtpSocket::try_poll_send_to (one caller: send_control_packet); "
      "poll_send_to_vectored only in try_poll_send_to_vectored (callers: the three send_data! expansions). At each site the (first) buffer is the one a dominating UtpHeader::serialize call wrote.")
def c11_5(R):
    F = R.facts
    table = {
        "traits::Transport::send_to": {"socket::Dispatcher::on_control", "socket::Dispatcher::try_send_rst"},
        "traits::Transport::poll_send_to": {"socket::UtpSocket::try_poll_send_to"},
        "PollSendToVectored::poll_send_to_vectored": {"socket::UtpSocket::try_poll_send_to_vectored"},
        "socket::UtpSocket::try_poll_send_to": {"stream_dispatch::VirtualSocket::send_control_packet"},
        "socket::UtpSocket::try_poll_send_to_vectored": {"stream_dispatch::VirtualSocket::send_tx_queue"},
    }
    n = 0
    for b in F.bodies(lambda x: not x.startswith("<") or "Transport for" not in x):
        if b.name.startswith("<librqbit_dualstack_sockets") or b.name.startswith("<tokio") or "as traits::Transport>" in b.name:
            continue
        for t in b.calls():
            for callee, allowed in table.items():
                if call_matches(t, (callee,)):
                    n += 1
                    fn = owner_fn(b)
                    if fn not in allowed:
                        R.fail([fn, "call", callee.split("::")[-1]], "a datagram is handed to the transport from an unaudited site", where=t.where(), instance="send-sites")
                        continue
                    if callee.startswith("socket::UtpSocket::try_poll_send_to") or callee == "traits::Transport::send_to":
                        # buffer argument
                        bi = 2 if callee.startswith("socket::") else 1
                        buf = trace(b, t.args[bi])
                        sers = [x for x in b.calls() if call_matches(x, (SER,))]
                        dom = b.dominators()
                        okb = False
                        for s in sers:
                            if s.bb in dom.get(t.bb, ()):
                                sb = trace(b, s.args[1], extra_transparent=IDX)
                                if callee.endswith("vectored"):
                                    # bufs = [IoSlice::new(&h[..hlen]), ..]: the first element derives from the serialized array
                                    arr = trace(b, t.args[bi])
                                    first = None
                                    if arr.kind == "rv" and arr.root[1].rv.kind == "agg" and arr.root[1].rv.ops:
                                        first = trace(b, arr.root[1].rv.ops[0], extra_transparent=("std::io::IoSlice::new",) + IDX)
                                    if first is not None and first.root[:2] == sb.root[:2] and first.root[0] in ("rv", "multi", "undef", "param"):
                                        okb = True
                                else:
                                    bt = trace(b, t.args[bi], extra_transparent=IDX)
                                    if bt.root[:2] == sb.root[:2] and (bt.fields[:1] == sb.fields[:1] or not sb.fields):
                                        okb = True
                        if okb:
                            R.ok("sent-bytes<-serialize", fn.split("::")[-1], "buffer written by a dominating UtpHeader::serialize")
                        else:
                            R.fail([fn, callee.split("::")[-1], "buffer-not-from(UtpHeader::serialize)"], "bytes handed to the transport are not the buffer UtpHeader::serialize wrote", where=t.where(), instance="sent-bytes<-serialize")
                    else:
                        R.ok("send-sites", fn.split("::")[-1], callee.split("::")[-1])
    R.floor("transport send sites", n, 8)


@rule("C11.6", ["C11", "C13", "C17"], ["E4", "E7"], "the two datagrams built outside a connection carry the ids owed to the initiator",
      "Dispatcher::on_control builds the SYN as UtpHeader { htype: ST_SYN, connection_id: <the id returned by get_next_free_conn_id>, .. } (the id under which the SYN-ACK is looked up and the stream "
      "inserted, C08.1); try_send_rst builds UtpHeader { htype: ST_RESET, connection_id: syn.header.connection_id (+0), ack_nr: syn.header.seq_nr, .. }: the initiator matches replies by the id it put in its SYN.")
def c11_6(R):
    F = R.facts
    seen = set()
    nfound = [0]
    failed = [0]
    if True:
        for b in F.bodies(lambda n_: n_.startswith("socket::")):
            fname = owner_fn(b)
            for s in b.stmts():
                if s.rv.kind == "agg" and s.rv.j.get("adt") == "raw::UtpHeader":
                    names = s.rv.j["fields"]
                    ht = classify(b, s.rv.ops[names.index("htype")])
                    cid_t, k = affine_trace(b, s.rv.ops[names.index("connection_id")])
                    nfound[0] += 1
                    if "ST_SYN" in ht:
                        # the id may reach the literal through a private helper's parameter
                        srcs = resolve_param(F, b, cid_t, k)
                        okc = all(t_.kind == "call" and call_matches(t_.root[1], ("socket::Dispatcher::get_next_free_conn_id",)) and k_ == 0 for b_, t_, k_ in srcs)
                        if okc:
                            seen.add("syn")
                            R.ok("syn-header", fname, "ST_SYN, connection_id = get_next_free_conn_id(addr)")
                        else:
                            R.fail([fname, "SYN-header", "type=%s conn_id=%s%+d" % (ht, cid_t.describe()[:50], k)], "the SYN does not carry the freshly chosen receive connection id", where=s.where(), instance="syn-header")
                    else:
                        ack_t, ka = affine_trace(b, s.rv.ops[names.index("ack_nr")])
                        okr = "ST_RESET" in ht and cid_t.fields[-2:] == ["Syn.header", "UtpHeader.connection_id"] and k == 0 and ack_t.fields[-2:] == ["Syn.header", "UtpHeader.seq_nr"] and ka == 0
                        if okr:
                            seen.add("rst")
                            R.ok("rst-header", fname, "ST_RESET, connection_id = syn.header.connection_id, ack_nr = syn.header.seq_nr")
                        else:
                            R.fail([fname, "RST-header", "type=%s conn_id=%s%+d ack_nr=%s%+d" % (ht, ".".join(cid_t.fields[-2:]), k, ".".join(ack_t.fields[-2:]), ka)], "the RESET answering a refused SYN does not carry the SYN's own connection id / sequence number: the initiator cannot match it", where=s.where(), instance="rst-header")
    R.floor("SYN and RST header aggregates", nfound[0], 2)
    for what in ("syn", "rst"):
        if what not in seen and nfound[0] >= 2:
            R.fail(["socket", "no-%s-header-literal" % what], "no conforming %s header is built by the dispatcher any more" % what.upper(), instance=what + "-header")


@rule("C11.7", ["C11"], ["E4", "E7"], "header extensions are chained through the byte the parser follows",
      "An extension block is [next-extension id][length][payload]; the chain starts at header byte 1. In UtpHeader::serialize every add_ext! expansion writes the terminator NO_NEXT_EXT at buffer[offset], "
      "the length at buffer[offset + 1] and the payload at buffer[offset + 2 ..]; the id of the NEXT extension is later stored at buffer[next_ext_pos], so next_ext_pos must be updated to the index where this "
      "block's terminator was written (offset + 0) - any other value overwrites the length byte or payload of the previous block and a header with two extensions does not survive a round trip. "
      "UtpHeader::deserialize reads the same three positions (first()/[0], get(1), get(2 .. 2 + len)) and advances by 2 + len, as serialize does.")
def c11_7(R):
    b = R.body(SER)
    # index writes buffer[i] = v
    idx_writes = []
    for s in b.stmts():
        pr = s.place.proj
        if any(isinstance(p, list) and p and p[0] == "i" for p in pr) and s.rv is not None and s.rv.kind in ("use", "cast"):
            il = [p[1] for p in pr if isinstance(p, list) and p and p[0] == "i"][0]
            idx_writes.append((s, il))
    def stored_const(s):
        """the named constant a store writes - directly, or through a variable bound to it (an argument of an expanded helper)"""
        o = s.rv.ops[0]
        if o.kind == "const":
            return o.const_item or ""
        t = trace(b, o)
        return (t.root[1].const_item or "") if t.kind == "const" and not t.fields else ""
    ids = [(s, il) for s, il in idx_writes if stored_const(s).startswith("raw::EXT_")]
    terms = [(s, il) for s, il in idx_writes if stored_const(s) == "raw::NO_NEXT_EXT"]
    R.floor("extension id stores in serialize", len(ids), 2)
    R.floor("NO_NEXT_EXT stores in serialize", len(terms), 2)
    ptrs = {copy_root(b, Place({"l": il, "p": []})) for s, il in ids}
    R.require(len(ptrs) == 1, "one chain-pointer variable (next_ext_pos) indexes every extension id store")
    ptr = ptrs.pop()
    # where the terminators go, relative to the running offset variable
    offs = set()
    tk = set()
    for s, il in terms:
        d = b.unique_def(il)
        if isinstance(d, Stmt) and d.rv.kind == "use":
            bt, k = int_affine(b, d.rv.ops[0])
            if bt.kind == "multi" and not bt.fields:
                offs.add(bt.root[1])
                tk.add(k)
    # header byte 1 also holds a terminator (NEXT_EXT_IDX): only the ones relative to the running offset count
    R.require(len(offs) == 1 and tk, "terminators are stored relative to one running offset variable")
    off = offs.pop()
    updates = [d for d in b.all_defs(ptr) if isinstance(d, Stmt) and not (d.rv.kind == "use" and d.rv.ops[0].kind == "const")]
    R.floor("updates of the chain pointer", len(updates), 2)
    for d in updates:
        bt, k = int_affine(b, d.rv.ops[0]) if d.rv.kind == "use" else (trace(b, d.place), None)
        if bt.kind == "multi" and bt.root[1] == off and k is not None and {k} == tk:
            R.ok("chain-pointer=terminator-position", b.name, "next_ext_pos = offset%+d, where NO_NEXT_EXT was stored" % k)
        else:
            R.fail([SER, "next_ext_pos", "offset%+d" % k if k is not None else "?", "terminator-at=offset%s" % ",".join("%+d" % x for x in sorted(tk))],
                   "after writing an extension the chain pointer is set to offset%s but this block's next-extension byte is at offset%s: the next extension's id overwrites the previous block's %s, "
                   "so a header carrying two extensions is not parsed back (length and payload boundary shift)" % ("%+d" % k if k is not None else "?", ",".join("%+d" % x for x in sorted(tk)), "length byte" if k == 1 else "bytes"),
                   where=d.where(), instance="chain-pointer=terminator-position")
    # ... and the running offset must still have the value the terminator was stored at: no advance of `offset` between this block's terminator store and the pointer update
    adv = [d for d in b.all_defs(off) if isinstance(d, Stmt) and not (d.rv.kind == "use" and d.rv.ops[0].kind == "const")]
    R.floor("advances of the running offset", len(adv), 2)
    for d in updates:
        before = [s for s, il in terms if s.place.proj and point_reaches(b, s, d) and b.unique_def(il) is not None and int_affine(b, b.unique_def(il).rv.ops[0])[0].kind == "multi" and int_affine(b, b.unique_def(il).rv.ops[0])[0].root[1] == off]
        nearest = [s for s in before if not any(o is not s and point_reaches(b, s, o) for o in before)]
        if not nearest:
            R.fail([SER, "next_ext_pos", "no-terminator-before-update"], "the chain pointer is updated where no terminator store of this block precedes it", where=d.where(), instance="chain-pointer-same-offset")
            continue
        moved = [a for a in adv for s in nearest if point_reaches(b, s, a) and point_reaches(b, a, d)]
        if moved:
            R.fail([SER, "next_ext_pos", "offset-advanced-before-pointer-update"],
                   "the running offset is advanced between storing this block's NO_NEXT_EXT terminator and recording its position in the chain pointer: next_ext_pos then names the byte after this block, "
                   "the next extension's id is written over the next block's own terminator position and the chain ends early (second extension lost, its bytes parsed as payload)", where=moved[0].where(), instance="chain-pointer-same-offset")
        else:
            R.ok("chain-pointer-same-offset", b.name, "no advance of the offset between the terminator store and next_ext_pos = offset (%s)" % d.where())
    # the three positions in the parser
    d_ = R.body(DES)
    pos = {}
    for t in d_.calls():
        if call_matches(t, ("core::slice::first",)):
            pos["next@0"] = True
        if call_matches(t, ("core::slice::get",)) and len(t.args) == 2:
            a = t.args[1]
            if a.kind == "const" and a.scalar == 1:
                pos["len@1"] = True
            rg = trace(d_, a)
            if rg.kind == "rv" and rg.root[1].rv.kind == "agg" and rg.root[1].rv.j.get("adt", "").startswith("std::ops::Range") and rg.root[1].rv.ops:
                st = rg.root[1].rv.ops[0]
                names = rg.root[1].rv.j.get("fields", [])
                if names == ["start", "end"] and st.kind == "const" and st.scalar == 2:
                    bt, k = int_affine(d_, rg.root[1].rv.ops[1])
                    pos["data@2..2+len"] = True
                if names == ["start"]:
                    bt, k = int_affine(d_, rg.root[1].rv.ops[0])
                    tt = trace(d_, rg.root[1].rv.ops[0], through_casts=False)
                    if tt.kind == "rv" and tt.root[1].rv.kind == "bin" and any(o.kind == "const" and o.scalar == 2 for o in tt.root[1].rv.ops):
                        pos["advance=2+len"] = True
    for k_ in ("next@0", "len@1", "data@2..2+len", "advance=2+len"):
        if pos.get(k_):
            R.ok("parser-extension-layout", k_)
        else:
            R.fail([DES, "extension-layout", k_], "the parser no longer reads an extension block as [next id][length][payload] (%s missing)" % k_, where=d_.where(), instance="parser-extension-layout")
