"""C18 Nagle coalescing: truth table of the gate over {nagle, full-sized, in-flight} and the provenance of those atoms."""
from .common import *
from .c05 import SPLIT, window_budget_local


def split_vars(sp):
    """the segmentation loop's variables, identified by shape: ps = the local passed to Segments::enqueue (a min(..)), mp = the
    argument of that min which is itself min(next_segment_size(), window budget), rem = the other argument"""
    enq = [t for t in sp.calls() if call_matches(t, ("stream_tx_segments::Segments::enqueue",))]
    if len(enq) != 1:
        return None
    ps = copy_root(sp, enq[0].args[1])
    d = sp.unique_def(ps) if ps is not None else None
    if not (isinstance(d, Term) and call_matches(d, ("Ord::min",))):
        return None
    roots = [copy_root(sp, d.args[0]), copy_root(sp, d.args[1])]
    mp = [r for r in roots if r is not None and isinstance(sp.unique_def(r), Term) and call_matches(sp.unique_def(r), ("Ord::min",))]
    if len(mp) != 1:
        return None
    rem = [r for r in roots if r != mp[0]]
    return {"ps": ps, "mp": mp[0], "rem": rem[0] if rem else None}


def atom_of(body, term):
    """which Nagle atom does this switch test?  returns (name, value_of_atom_when_operand_is_true) or None"""
    c, neg = switch_cond(body, term)
    if c.kind == "field" and c.trace.last_field == "ValidatedSocketOpts.nagle":
        return ("n", not neg)
    if c.kind == "call" and call_matches(c.call, ("stream_tx_segments::Segments::is_empty",)) and trace(body, c.call.args[0]).last_field == "VirtualSocket.user_tx_segments":
        # operand true <=> is_empty() xor neg ; atom i = !is_empty
        return ("i", neg)
    if c.kind == "bin" and c.op in ("Eq", "Ne"):
        v = split_vars(body)
        if v is not None and {copy_root(body, c.a), copy_root(body, c.b)} == {v["ps"], v["mp"]}:
            val = (c.op == "Eq")
            return ("f", val != neg)
    return None


@rule("C18.1", ["C18"], ["E6"], "the Nagle gate holds a segment back iff nagle && !full-sized && data in flight",
      "In the segmentation loop of split_tx_queue_into_segments, over the atoms n <- socket_opts.nagle, f <- (payload_size == max_payload_size), i <- !user_tx_segments.is_empty(): for each of "
      "the 8 valuations the CFG is walked from the loop body taking the edges the valuation dictates (all other branches both ways); Segments::enqueue must be reachable within the iteration "
      "exactly when !(n && !f && i). Any equivalent rewrite of the condition yields the same table.")
def c18_1(R):
    sp = R.body(SPLIT)
    enq = [t for t in sp.calls() if call_matches(t, ("stream_tx_segments::Segments::enqueue",))]
    R.require(len(enq) == 1, "enqueue in split_tx_queue_into_segments")
    e = enq[0]
    loops = [(h, blocks) for h, blocks in sp.natural_loops() if e.bb in blocks]
    R.require(loops, "segmentation loop")
    h, loop = min(loops, key=lambda x: len(x[1]))
    atoms = {}
    for blk in sp.blocks:
        if blk.cleanup or blk.term.kind != "switch" or blk.idx not in loop:
            continue
        a = atom_of(sp, blk.term)
        if a:
            atoms[blk.idx] = a
    seen_atoms = {a[0] for a in atoms.values()}
    # an atom that is no longer tested simply does not constrain the walk: the table then shows which valuations changed
    R.require("n" in seen_atoms or "f" in seen_atoms or "i" in seen_atoms, "at least one Nagle atom in the segmentation loop (found %s)" % sorted(seen_atoms))
    if seen_atoms != {"n", "f", "i"}:
        R.note("Nagle atoms tested in the loop: %s (missing ones are don't-care in the table)" % sorted(seen_atoms))
    back = sp.back_edges()
    table = {}
    for n in (0, 1):
        for f in (0, 1):
            for i in (0, 1):
                val = {"n": bool(n), "f": bool(f), "i": bool(i)}
                seen = {h}
                stack = [h]
                while stack:
                    bb = stack.pop()
                    for tgt, lab in sp.edges(bb):
                        if (bb, tgt) in back or tgt not in loop or sp.blocks[tgt].cleanup:
                            continue
                        if bb in atoms and lab is not None:
                            name, when_true = atoms[bb]
                            operand_true = (val[name] == when_true)
                            edge_true = (lab[1] != 0) if lab[0] == "val" else (0 in lab[1])
                            if edge_true != operand_true:
                                continue
                        if tgt not in seen:
                            seen.add(tgt)
                            stack.append(tgt)
                table[(n, f, i)] = e.bb in seen
    want = {(n, f, i): not (n and not f and i) for n in (0, 1) for f in (0, 1) for i in (0, 1)}
    if table == want:
        R.ok("nagle-table", SPLIT, "enqueue reachable iff !(nagle && !full && in_flight): " + " ".join("%d%d%d:%s" % (k + ("E" if v else "-",)) for k, v in sorted(table.items())))
    else:
        diff = ["nfi=%d%d%d:%s(expected %s)" % (k + ("sent" if table[k] else "held", "sent" if want[k] else "held")) for k in sorted(table) if table[k] != want[k]]
        R.fail([SPLIT, "nagle-table", ",".join(diff)], "the Nagle gate's decision table differs from nagle && !full-sized && in-flight => hold: " + ", ".join(diff), where=e.where(), instance="nagle-table")


@rule("C18.2", ["C18"], ["E4", "E5"], "what counts as a full segment, and where the Nagle switch comes from",
      "max_payload_size = min(next_segment_size(), remote_window_remaining) (a window-limited segment counts as full); payload_size = min(max_payload_size, remaining); "
      "ValidatedSocketOpts.nagle = !SocketOpts.disable_nagle; remaining = tx_len - segmented_len.")
def c18_2(R):
    F = R.facts
    sp = R.body(SPLIT)

    v = split_vars(sp)
    R.require(v is not None, "enqueue(payload) with payload = min(min(..), ..)")
    mp, ps = v["mp"], v["ps"]
    rw = window_budget_local(sp)
    d = sp.unique_def(mp)
    ok1 = False
    if isinstance(d, Term) and call_matches(d, ("Ord::min",)):
        s0, s1 = value_sources(sp, d.args[0]), trace(sp, d.args[1])
        if ("call", "mtu::SegmentSizes::next_segment_size") in s0 and s1.kind == "multi" and rw is not None and s1.root[1] == rw:
            ok1 = True
    if ok1:
        R.ok("full-size=min(ss,window)", SPLIT, "max_payload_size = min(next_segment_size(), remote_window_remaining)")
    else:
        R.fail([SPLIT, "max_payload_size-shape"], "max_payload_size is no longer min(next_segment_size(), remote_window_remaining): window-limited segments would be held back by Nagle", where=sp.where(), instance="full-size=min(ss,window)")
    d = sp.unique_def(ps)
    ok2 = False
    if isinstance(d, Term) and call_matches(d, ("Ord::min",)):
        rem = v["rem"]
        # remaining: decremented by every segment, starts at tx_len - segmented_len
        dec = rem is not None and any(isinstance(x, Stmt) and (lambda lu: lu and lu[0] == rem and lu[1] == "-=")(local_update(sp, x)) for x in sp.all_defs(rem))
        if dec:
            ok2 = True
    if ok2:
        R.ok("payload=min(full,remaining)", SPLIT)
    else:
        R.fail([SPLIT, "payload_size-shape"], "payload_size is no longer min(max_payload_size, remaining)", where=sp.where(), instance="payload=min(full,remaining)")
    v = R.body("socket::SocketOpts::validate")
    okn = False
    for s in v.stmts():
        if s.rv.kind == "agg" and s.rv.j.get("adt") == "socket::ValidatedSocketOpts":
            i = s.rv.j["fields"].index("nagle")
            t = trace(v, s.rv.ops[i], through_casts=False)
            if t.kind == "rv" and t.root[1].rv.kind == "un" and t.root[1].rv.op == "Not" and trace(v, t.root[1].rv.ops[0]).last_field == "SocketOpts.disable_nagle":
                okn = True
    if okn:
        R.ok("nagle=!disable_nagle", v.name)
    else:
        R.fail([v.name, "nagle-source"], "ValidatedSocketOpts.nagle is no longer !disable_nagle (Nagle default/enable inverted)", where=v.where(), instance="nagle=!disable_nagle")
