"""C09 wrap safety: sequence numbers only through the modular type; tolerance vs configured windows."""
from .common import *
from utpsa.facts import short_owner

SEQ_BODIES = ("seq_nr::", "<seq_nr::SeqNr as ")
TRACING_SINKS = ("tracing::", "tracing_core::", "log::", "core::fmt::", "std::fmt::")
ORDER_OPS = {"Lt", "Le", "Gt", "Ge", "Cmp"}
ARITH_OPS = {"Add", "AddWithOverflow", "AddUnchecked", "Sub", "SubWithOverflow", "SubUnchecked", "Mul", "MulWithOverflow", "Div", "Rem"}
OK_SINKS = ("to_be_bytes", "to_le_bytes", "to_ne_bytes", "fmt", "hash", "Hash::hash", "wrapping_add", "wrapping_sub", "PartialEq::eq", "PartialEq::ne", "Argument::new_display", "Argument::new_debug", "Value::from", "from_be_bytes")


def raw_reads(body):
    """items that read the raw u16 out of a SeqNr: `x.0` as an operand, or <SeqNr as Deref>::deref"""
    out = []
    for it in body.items():
        if isinstance(it, Stmt):
            for o in it.rv.ops:
                if o.place is not None:
                    f, _, _ = place_fields(body, o.place)
                    if f and f[-1] == "SeqNr.0":
                        out.append((it, it.place.local if it.place.is_local else None))
            if it.rv.kind == "ref" and it.rv.place is not None:
                f, _, _ = place_fields(body, it.rv.place)
                if f and f[-1] == "SeqNr.0":
                    out.append((it, it.place.local if it.place.is_local else None))
        elif it.kind == "call":
            if (it.resolved or "").startswith("<seq_nr::SeqNr as std::ops::Deref>"):
                out.append((it, it.dest.local if it.dest.is_local else None))
            for o in it.args:
                if o.place is not None:
                    f, _, _ = place_fields(body, o.place)
                    if f and f[-1] == "SeqNr.0":
                        out.append((it, None))
    return out


def forward_uses(body, start_locals):
    """(item, how) for every use of a value derived (copy/ref/deref/cast) from the tainted locals"""
    tainted = set(start_locals)
    uses = []
    changed = True
    seen_items = set()
    while changed:
        changed = False
        for it in body.items():
            key = (it.bb, it.idx)
            if isinstance(it, Stmt):
                rv = it.rv
                srcs = [o for o in rv.ops if o.place is not None and o.place.local in tainted]
                refsrc = rv.place is not None and rv.place.local in tainted and rv.kind in ("ref", "use")
                if not srcs and not refsrc:
                    continue
                if rv.kind in ("use", "ref", "cast", "un") or (rv.kind == "agg" and rv.j["ak"] == "tuple"):
                    if it.place.is_local and it.place.local not in tainted:
                        tainted.add(it.place.local)
                        changed = True
                elif rv.kind == "bin":
                    if key not in seen_items:
                        seen_items.add(key)
                        uses.append((it, "bin:" + rv.op))
                else:
                    if key not in seen_items:
                        seen_items.add(key)
                        uses.append((it, "rv:" + rv.kind))
            elif it.kind == "call":
                if any(o.place is not None and o.place.local in tainted for o in it.args):
                    if key not in seen_items:
                        seen_items.add(key)
                        uses.append((it, "call:" + (it.resolved or "?")))
                    if call_matches(it, ("Deref::deref", "Clone::clone", "Into::into", "From::from")) and it.dest.is_local and it.dest.local not in tainted:
                        tainted.add(it.dest.local)
                        changed = True
            elif it.kind == "switch":
                pass
    return uses


@rule("C09.1", ["C09"], ["E1", "E4"], "sequence numbers are ordered and subtracted only through the modular type",
      "Outside seq_nr.rs, the raw u16 of a SeqNr (`.0`, Deref) flows only into to_be_bytes, formatting, hashing and (in)equality - never into <, <=, >, >=, Ord::cmp, min/max or non-wrapping +/-; "
      "<SeqNr as Sub<SeqNr>>::sub is seq_nr_offset(self.0, rhs.0, WRAP_TOLERANCE) in that order and Ord::cmp compares that offset with 0. Expected number of offending sites: 0.")
def c09_1(R):
    F = R.facts
    nreads = 0
    for b in F.bodies(lambda n: not n.startswith(SEQ_BODIES)):
        rr = raw_reads(b)
        if not rr:
            continue
        starts = [l for it, l in rr if l is not None]
        for it, l in rr:
            nreads += 1
            if l is None:
                # used in place (as a call argument)
                if isinstance(it, Term) and any(call_matches(it, (s,)) for s in OK_SINKS):
                    R.ok("raw-seqnr-use", owner_fn(b), "raw value -> " + short_callee(it.resolved))
                else:
                    R.fail([owner_fn(b), "raw-seqnr-into", short_callee(it.resolved) if isinstance(it, Term) else repr(it.rv)[:40]], "the raw u16 of a sequence number is used directly outside the modular type", where=it.where(), instance="raw-seqnr-use")
        for it, how in forward_uses(b, starts):
            bad = False
            if how.startswith("bin:"):
                op = how[4:]
                bad = op in ORDER_OPS or op in ARITH_OPS
            elif how.startswith("call:"):
                c = how[5:]
                if any(c == s or c.endswith("::" + s) for s in OK_SINKS) or call_matches(it, ("Deref::deref",)):
                    bad = False
                elif getattr(it, "is_tracing", False) or c.startswith(TRACING_SINKS) or "::field::debug" in c or "::field::display" in c:
                    bad = False  # a log argument
                else:
                    # allow-list: anything else that receives the raw 16-bit value (comparisons, min/max, checked / saturating arithmetic, range
                    # constructors, conversions to wider integers ...) takes it out of the modular type
                    bad = True
            elif how == "rv:agg" and not getattr(it, "is_tracing", False):
                bad = True  # packed into a tuple / range / struct as a plain integer
            if bad:
                R.fail([owner_fn(b), "raw-seqnr", how.split("::")[-1]], "a raw 16-bit sequence value is compared/ordered or added without wrap handling (%s): wrong across the 65535 -> 0 wrap" % how, where=it.where(), instance="raw-seqnr-use")
            else:
                R.ok("raw-seqnr-use", owner_fn(b), how.split("::")[-1])
    R.floor("raw SeqNr reads outside seq_nr.rs (serialize + dup-ack log)", nreads, 3)
    # the modular operators themselves
    sub = R.body("<seq_nr::SeqNr as std::ops::Sub>::sub")
    calls = [t for t in sub.calls() if call_matches(t, ("utils::seq_nr_offset",))]
    R.require(len(calls) == 1, "seq_nr_offset call in <SeqNr as Sub<SeqNr>>::sub")
    t = calls[0]
    a0, a1, a2 = trace(sub, t.args[0]), trace(sub, t.args[1]), t.args[2]
    if a0.kind == "param" and a0.root[1] == 1 and a1.kind == "param" and a1.root[1] == 2 and a2.kind == "const" and a2.const_item == "constants::WRAP_TOLERANCE":
        R.ok("modular-sub", sub.name, "seq_nr_offset(self.0, rhs.0, WRAP_TOLERANCE)")
    else:
        R.fail([sub.name, "seq_nr_offset-args", "%s,%s,%r" % (a0.describe(), a1.describe(), a2)], "SeqNr - SeqNr no longer calls seq_nr_offset(self, rhs, WRAP_TOLERANCE) in that order", where=t.where(), instance="modular-sub")
    cmp_ = R.body("<seq_nr::SeqNr as std::cmp::Ord>::cmp")
    okc = False
    for t in cmp_.calls():
        if call_matches(t, ("Ord::cmp",)) and t.dest.local == 0:
            l = trace(cmp_, t.args[0])
            r = trace(cmp_, t.args[1])
            if l.kind == "call" and (l.root[1].resolved or "").startswith("<seq_nr::SeqNr as std::ops::Sub>") and r.kind == "const" and r.root[1].scalar == 0:
                s0 = trace(cmp_, l.root[1].args[0])
                s1 = trace(cmp_, l.root[1].args[1])
                if s0.kind == "param" and s0.root[1] == 1 and s1.kind == "param" and s1.root[1] == 2:
                    okc = True
    if okc:
        R.ok("modular-ord", cmp_.name, "(*self - *other).cmp(&0)")
    else:
        R.fail([cmp_.name, "ord-shape"], "Ord for SeqNr is no longer (self - other).cmp(0)", where=cmp_.where(), instance="modular-ord")
    pc = R.body("<seq_nr::SeqNr as std::cmp::PartialOrd>::partial_cmp")
    if any(call_matches(t, ("Ord::cmp",)) and (t.resolved or "").startswith("<seq_nr::SeqNr") for t in pc.calls()):
        R.ok("modular-partial-ord", pc.name, "Some(self.cmp(other))")
    else:
        R.fail([pc.name, "partial_cmp-shape"], "PartialOrd for SeqNr no longer delegates to the modular Ord", where=pc.where(), instance="modular-partial-ord")
    # SeqNr must not derive PartialOrd/Ord (a derived impl would compare raw values)
    for im in F.impls:
        if im.get("self_adt") == "seq_nr::SeqNr" and im.get("derived") and im.get("trait") in ("std::cmp::PartialOrd", "std::cmp::Ord"):
            R.fail(["seq_nr::SeqNr", "derived", im["trait"]], "SeqNr derives %s: raw u16 ordering" % im["trait"], instance="modular-ord")


@rule("C09.2", ["C09"], ["E1"], "no absolute sequence constants in connection logic",
      "A SeqNr is built from an integer literal only in the two don't-care header fields of socket.rs (ack_nr of our SYN, seq_nr of an RST) - plus Default; the connection code contains no literal sequence numbers.")
def c09_2(R):
    F = R.facts
    # don't-care header fields: ack_nr of a SYN (nothing received yet), seq_nr of a RESET
    dont_care = {"ST_SYN": "ack_nr", "ST_RESET": "seq_nr"}
    n = 0
    for b in F.bodies(lambda n_: not n_.startswith(SEQ_BODIES)):
        for t in b.calls():
            if call_matches(t, ("Into::into", "From::from")) and t.args and t.args[0].kind == "const" and "seq_nr::SeqNr" in (t.callee_full or "") + (t.resolved or ""):
                n += 1
                uses = []
                for s in b.stmts():
                    if s.rv.kind == "agg" and s.rv.j.get("adt") == "raw::UtpHeader":
                        names = s.rv.j["fields"]
                        ht = classify(b, s.rv.ops[names.index("htype")])
                        for i_, o_ in enumerate(s.rv.ops):
                            if t.dest is not None and copy_root(b, o_) == t.dest.local:
                                uses.append((ht.split("::")[-1], names[i_]))
                if uses and all(dont_care.get(h) == f for h, f in uses):
                    R.ok("literal-seqnr-sites", owner_fn(b), "literal %s only in %s" % (t.args[0].scalar, ", ".join("%s.%s" % u for u in uses)))
                else:
                    R.fail([owner_fn(b), "literal-SeqNr", str(t.args[0].scalar)], "a literal sequence number appears in connection logic", where=t.where(), instance="literal-seqnr-sites")
        for s in b.stmts():
            if s.rv.kind == "agg" and s.rv.j.get("adt") == "seq_nr::SeqNr" and s.rv.ops and s.rv.ops[0].kind == "const":
                n += 1
                R.fail([owner_fn(b), "literal-SeqNr-aggregate", str(s.rv.ops[0].scalar)], "SeqNr(literal) outside seq_nr.rs", where=s.where(), instance="literal-seqnr-sites")
    R.floor("literal SeqNr sites", n, 2)


@rule("C09.3", ["C09"], ["E7"], "wrap tolerance vs. the largest distance the default configuration permits",
      "WRAP_TOLERANCE must be >= the number of packets the default windows allow in flight / in reassembly: RX_BUF_SIZE_PER_VSOCK_DEFAULT (and TX_BUF_SIZE_PER_VSOCK_MAX_DEFAULT) divided by the minimum "
      "payload (576 - IPV4_HEADER - UDP_HEADER - UTP_HEADER); otherwise SeqNr ordering/distance is wrong for distances the configuration allows.")
def c09_3(R):
    F = R.facts
    tol = F.const_scalar("constants::WRAP_TOLERANCE")
    rx = F.const_scalar("constants::RX_BUF_SIZE_PER_VSOCK_DEFAULT")
    tx = F.const_scalar("constants::TX_BUF_SIZE_PER_VSOCK_MAX_DEFAULT")
    hdrs = [F.const_scalar("constants::" + n) for n in ("IPV4_HEADER", "UDP_HEADER", "UTP_HEADER")]
    R.require(None not in (tol, rx, tx) and None not in hdrs, "constants WRAP_TOLERANCE / buffer sizes / header sizes")
    # the minimum MTU literal of SegmentSizes::new (IPv4)
    sn = R.body("mtu::SegmentSizes::new")
    lits = sorted({s.rv.ops[0].scalar for s in sn.stmts() if s.rv.kind == "use" and s.rv.ops[0].kind == "const" and isinstance(s.rv.ops[0].scalar, int) and s.rv.ops[0].scalar >= 500})
    R.require(lits, "default minimum MTU literal in SegmentSizes::new")
    min_payload = lits[0] - sum(hdrs)
    need = max(rx, tx) // min_payload
    if tol >= need:
        R.ok("tolerance>=window-in-packets", "constants", "WRAP_TOLERANCE=%d >= %d" % (tol, need))
    else:
        R.fail(["WRAP_TOLERANCE=%d" % tol, "default-window-packets=%d" % need],
               "WRAP_TOLERANCE (%d) is smaller than the %d packets the default buffers (%d bytes / %d-byte minimum payload) allow in flight: e.g. seq_nr_offset(964, 65000) = -64036 although the modular distance is +1500" % (tol, need, max(rx, tx), min_payload),
               where="src/constants.rs", instance="tolerance>=window-in-packets")


@rule("C09.4", ["C09", "C17", "C06", "C01", "C04"], ["E1", "E4"], "the modular type's own arithmetic wraps",
      "Inside seq_nr.rs every arithmetic on the raw u16 of a SeqNr is wrapping: Add<u16> / AddAssign<u16> reach u16::wrapping_add(self.0, rhs), Sub<u16> / SubAssign<u16> reach "
      "u16::wrapping_sub(self.0, rhs) (directly or through the sibling operator), and no saturating_*, checked_*, overflowing_* or built-in +/- touches the raw value: a saturating "
      "`-= 1` at sequence number 0 (the FIN retransmission rewind) pins the cursor and the FIN is never retransmitted; a plain `+` panics or wraps depending on the build profile.")
def c09_4(R):
    F = R.facts
    want = {
        "<seq_nr::SeqNr as std::ops::Add<u16>>::add": "wrapping_add",
        "<seq_nr::SeqNr as std::ops::AddAssign<u16>>::add_assign": "wrapping_add",
        "<seq_nr::SeqNr as std::ops::Sub<u16>>::sub": "wrapping_sub",
        "<seq_nr::SeqNr as std::ops::SubAssign<u16>>::sub_assign": "wrapping_sub",
    }
    sib = {"wrapping_add": "<seq_nr::SeqNr as std::ops::Add<u16>>::add", "wrapping_sub": "<seq_nr::SeqNr as std::ops::Sub<u16>>::sub"}
    for name, op in want.items():
        b = R.body(name)
        calls = [t for t in b.calls()]
        direct = [t for t in calls if (t.resolved or "").endswith("::" + op) and "u16" in (t.resolved or "") + (t.callee_full or "")]
        via = [t for t in calls if t.resolved == sib[op] and name != sib[op]]
        bad = [t for t in calls if any((t.resolved or "").endswith("::" + x) or ("::" + x) in (t.resolved or "") for x in ("saturating_add", "saturating_sub", "checked_add", "checked_sub", "overflowing_add", "overflowing_sub", "wrapping_add" if op == "wrapping_sub" else "wrapping_sub"))]
        raw_arith = [s for s in b.stmts() if s.rv.kind == "bin" and s.rv.op in ADD_OPS | SUB_OPS]
        args_ok = True
        for t in direct:
            a0, a1 = trace(b, t.args[0]), trace(b, t.args[1])
            if not (a0.kind == "param" and a0.root[1] == 1 and a0.last_field == "SeqNr.0" and a1.kind == "param" and a1.root[1] == 2):
                args_ok = False
        for t in via:
            a0, a1 = trace(b, t.args[0]), trace(b, t.args[1])
            if not (a0.kind == "param" and a0.root[1] == 1 and a1.kind == "param" and a1.root[1] == 2):
                args_ok = False
        if (direct or via) and not bad and not raw_arith and args_ok:
            R.ok("seqnr-arith-wraps", name.split(" as ")[1], "u16::%s(self.0, rhs)%s" % (op, "" if direct else " via the sibling operator"))
        else:
            what = short_callee(bad[0].resolved) if bad else ("built-in " + raw_arith[0].rv.op if raw_arith else ("wrong-operands" if not args_ok else "no-" + op))
            R.fail([name, "not-wrapping", what], "%s is no longer u16::%s(self.0, rhs) (%s): sequence arithmetic breaks at the 16-bit wrap" % (name.split(" as ")[1].rstrip(">"), op, what), where=(bad[0].where() if bad else b.where()), instance="seqnr-arith-wraps")
    # nothing else in seq_nr.rs does arithmetic on the raw value
    for b in F.bodies(lambda n: n.startswith(SEQ_BODIES) and n not in want):
        for s in b.stmts():
            if s.rv.kind == "bin" and s.rv.op in ADD_OPS | SUB_OPS | MUL_OPS:
                R.fail([b.name, "raw-arithmetic", s.rv.op], "built-in arithmetic on a sequence number inside seq_nr.rs", where=s.where(), instance="seqnr-arith-wraps")


# ---- C09.5: the two numbering spaces ---------------------------------------------------------------------------------------
# Every sequence-number slot of the connection logic belongs to exactly one of the two independent numberings of a connection:
# "local" (what we number our own packets with; the peer acknowledges it in its ack_nr) or "remote" (what the peer numbers its
# packets with; we acknowledge it in our ack_nr).  Confirmed by reading the declaration comments and every store of each field.
SPACE_FIELDS = {
    "VirtualSocket.seq_nr": "local", "VirtualSocket.last_sent_seq_nr": "local",
    "StreamArgs.seq_nr": "local", "StreamArgs.last_sent_seq_nr": "local",
    "VirtualSocketState::FinWait1.our_fin": "local", "VirtualSocketState::LastAck.our_fin": "local",
    "Segments.snd_una": "local", "SegmentForSending.seq_nr": "local",
    "Recovering.recovery_point": "local", "Recovering.high_rxt": "local", "RecoveryPhase::IgnoringUntilRecoveryPoint.recovery_point": "local",
    "LastAck.ack_nr": "local",  # recovery::LastAck: the ack_nr of the last *incoming* header
    "PopExpiredProbe::Expired.rewind_to": "local",
    "Connecting.seq_nr": "local",  # socket::Connecting: the seq_nr our SYN carried, matched against the ack_nr of the reply
    "VirtualSocket.last_consumed_remote_seq_nr": "remote", "VirtualSocket.last_sent_ack_nr": "remote",
    "StreamArgs.last_consumed_remote_seq_nr": "remote", "StreamArgs.last_sent_ack_nr": "remote",
    "VirtualSocketState::LastAck.remote_fin": "remote",
}
HDR_IN = {"UtpHeader.seq_nr": "remote", "UtpHeader.ack_nr": "local"}    # a header that arrived
HDR_OUT = {"UtpHeader.seq_nr": "local", "UtpHeader.ack_nr": "remote"}   # a header we build
WRAPPERS = ("Option::Some.", "tuple.", "ControlFlow::", "Result::Ok.")
IN_HEADER_FIELDS = ("UtpMessage.header", "Syn.header")
SPACE_MODULES = ("stream_dispatch::", "recovery::", "stream_tx_segments::", "socket::")
SEQ_BINARY = ("PartialEq::eq", "PartialEq::ne", "PartialEq>::eq", "PartialEq>::ne", "PartialOrd::lt", "PartialOrd::le", "PartialOrd::gt", "PartialOrd::ge",
              "PartialOrd>::lt", "PartialOrd>::le", "PartialOrd>::gt", "PartialOrd>::ge", "PartialOrd>::partial_cmp", "PartialOrd::partial_cmp", "Ord>::cmp", "Ord::cmp",
              "Ord::max", "Ord::min", "Ord>::max", "Ord>::min", "Sub>::sub")


def _is_seq_ty(ty):
    return (ty or "").replace("&", "").replace("mut ", "").strip() == "seq_nr::SeqNr"


def _op_ty(body, o):
    if o.place is not None and o.place.is_local:
        return body.local_ty(o.place.local)
    return o.ty if o.kind == "const" else None


class Spaces:
    def __init__(self, F):
        self.F = F
        self.memo = {}

    def of_op(self, body, op, depth=0):
        t, _k = affine_trace(body, op)
        return self.of_trace(body, t, depth)

    def of_trace(self, body, t, depth=0):
        if depth > 5:
            return None
        fields = [f for f in t.fields if not f.startswith(WRAPPERS)]
        if fields:
            f = fields[-1]
            if f in SPACE_FIELDS:
                return SPACE_FIELDS[f]
            if f in HDR_IN:
                return self.header_direction(body, t, depth, f)
            return None
        if t.kind == "call":
            c = t.root[1]
            r = c.resolved or c.callee or ""
            if r.startswith("<seq_nr::SeqNr as std::ops::Add<") or r.startswith("<seq_nr::SeqNr as std::ops::Sub<u16>") or call_matches(c, ("Clone::clone", "Deref::deref", "Ord::max", "Ord::min")):
                if _is_seq_ty(_op_ty(body, c.args[0])) or c.args[0].place is not None:
                    return self.of_op(body, c.args[0], depth + 1)
            cb = self.F.body(r)
            if cb is not None and not r.startswith(SEQ_BODIES):
                return self.of_return(cb, depth + 1)
            return None
        if t.kind == "param" and body.kind != "closure":
            key = ("param", body.name, t.root[1])
            if key in self.memo:
                return self.memo[key]
            self.memo[key] = None
            got = set()
            for cb, ct in call_sites_of(self.F, body.name):
                i = t.root[1] - 1
                if i < len(ct.args):
                    got.add(self.of_op(cb, ct.args[i], depth + 1))
            got.discard(None)
            self.memo[key] = got.pop() if len(got) == 1 else None
            return self.memo[key]
        if t.kind == "upvar":
            from utpsa.prov import upvar_origin
            o = upvar_origin(body, t.root[1])
            if o is not None:
                kind, idx, owner = o
                return self.of_trace(owner, trace(owner, Place({"l": idx, "p": []})), depth + 1)
        if t.kind == "multi":
            # a variable bound in several match arms (`FinWait1 { our_fin } | LastAck { our_fin, .. }`): every binding must be of one space
            got = set()
            for d in t.root[3]:
                if isinstance(d, Stmt) and d.rv.kind == "use" and d.rv.ops[0].kind != "const":
                    got.add(self.of_op(body, d.rv.ops[0], depth + 1))
                elif isinstance(d, Stmt) and d.rv.kind == "ref" and d.rv.place is not None:
                    got.add(self.of_trace(body, trace(body, d.rv.place), depth + 1))
                elif isinstance(d, Stmt) and d.rv.kind == "agg" and d.rv.j.get("ak") == "adt" and short_owner(d.rv.j.get("adt", "")).startswith("Option"):
                    if d.rv.ops:
                        got.add(self.of_op(body, d.rv.ops[0], depth + 1))
                else:
                    got.add(None)
            return got.pop() if len(got) == 1 else None
        return None

    def header_direction(self, body, t, depth, f):
        """which way the header travels.  UtpMessage (built only by the parser) and socket::Syn (filled from one) hold headers that arrived; a UtpHeader
        aggregate, or the result of a crate fn that returns one (outgoing_header), is on its way out; a bare &UtpHeader parameter / captured variable
        is whatever every call site / the owning fn passes."""
        if body.name.startswith("raw::") or body.name.startswith("<raw::"):
            return None
        i = max(n for n, x in enumerate(t.fields) if x == f)
        d = self.direction(body, t, [x for x in t.fields[:i] if not x.startswith(WRAPPERS)], depth)
        return None if d is None else (HDR_IN if d == "in" else HDR_OUT)[f]

    def direction(self, body, t, prefix, depth):
        if depth > 6:
            return None
        if prefix:
            return "in" if prefix[-1] in IN_HEADER_FIELDS else None
        if t.kind == "rv" and t.root[1].rv.kind == "agg":
            return "out" if short_owner(t.root[1].rv.j.get("adt", "")) == "UtpHeader" else None
        if t.kind == "call":
            r = t.root[1].resolved or ""
            if "deserialize" in r:
                return "in"
            if r.startswith("<raw::UtpHeader as std::default::Default>"):
                return "out"  # a blank header that this code goes on to fill
            if call_matches(t.root[1], ("Clone::clone", "Deref::deref")):
                return self._dir_op(body, t.root[1].args[0], depth + 1) if t.root[1].args else None
            cb = self.F.body(r)
            if cb is not None and not r.startswith(("raw::", "<raw::")):
                key = ("dret", r)
                if key not in self.memo:
                    self.memo[key] = None
                    rt = trace(cb, Place({"l": 0, "p": []}))
                    self.memo[key] = self.direction(cb, rt, [x for x in rt.fields if not x.startswith(WRAPPERS)], depth + 1)
                return self.memo[key]
            return None
        if t.kind == "param" and body.kind != "closure":
            key = ("dparam", body.name, t.root[1])
            if key in self.memo:
                return self.memo[key]
            self.memo[key] = None
            got = set()
            for cb, ct in call_sites_of(self.F, body.name):
                i = t.root[1] - 1
                if i < len(ct.args):
                    got.add(self._dir_op(cb, ct.args[i], depth + 1))
            self.memo[key] = got.pop() if len(got) == 1 else None
            return self.memo[key]
        if t.kind == "upvar":
            from utpsa.prov import upvar_origin
            o = upvar_origin(body, t.root[1])
            if o is not None:
                kind, idx, owner = o
                ot = trace(owner, Place({"l": idx, "p": []}))
                return self.direction(owner, ot, [x for x in ot.fields if not x.startswith(WRAPPERS)], depth + 1)
        return None

    def _dir_op(self, body, op, depth):
        t = trace(body, op)
        return self.direction(body, t, [x for x in t.fields if not x.startswith(WRAPPERS)], depth)

    def of_return(self, cb, depth):
        key = ("ret", cb.name)
        if key in self.memo:
            return self.memo[key]
        self.memo[key] = None
        got = set()
        for d in cb.all_defs(0):
            if isinstance(d, Stmt):
                if d.rv.kind == "agg" and d.rv.ops and d.rv.j.get("ak") == "adt" and short_owner(d.rv.j.get("adt", "")).startswith("Option"):
                    got.add(self.of_op(cb, d.rv.ops[0], depth + 1))
                elif d.rv.kind == "use" and d.rv.ops[0].kind != "const":
                    got.add(self.of_op(cb, d.rv.ops[0], depth + 1))
            elif getattr(d, "kind", None) == "call":
                got.add(self.of_trace(cb, trace(cb, Place({"l": 0, "p": []})), depth + 1) if len(cb.all_defs(0)) == 1 else None)
        got.discard(None)
        self.memo[key] = got.pop() if len(got) == 1 else None
        return self.memo[key]


@rule("C09.5", ["C09", "C17", "C06"], ["E1", "E4"], "the two independent numberings of a connection are never compared with, subtracted from or stored into one another",
      "A connection has two independent sequence spaces: ours (seq_nr of what we send = ack_nr of what arrives) and the peer's (seq_nr of what arrives = ack_nr of what we send). Relabelling the two "
      "initial numbers independently leaves behaviour unchanged only if no value of one space is ever ordered against, subtracted from or stored in a slot of the other. Every SeqNr field of "
      "VirtualSocket / VirtualSocketState / StreamArgs / Segments / Recovery is assigned its space in a table (confirmed by reading); header fields get theirs from the direction the header travels "
      "(a header that reached the fn as a parameter arrived; one built in place leaves); bare parameters take the space every call site passes, call results the space the callee returns. "
      "At every SeqNr x SeqNr comparison / subtraction / max / min, every aggregate that fills a tabled field, and every assignment to a tabled field, both sides must be of the same space "
      "(sites where one side cannot be classified are counted, not judged).")
def c09_5(R):
    F = R.facts
    sp = Spaces(F)
    judged = skipped = 0
    stores = 0
    for b in F.bodies():
        if not b.name.startswith(SPACE_MODULES) or "::tests" in b.name:
            continue
        for t in b.calls():
            r = t.resolved or t.callee or ""
            if len(t.args) != 2 or not r.endswith(SEQ_BINARY):
                continue
            if not all(_is_seq_ty(_op_ty(b, a)) for a in t.args):
                continue
            x, y = sp.of_op(b, t.args[0]), sp.of_op(b, t.args[1])
            dx, dy = affine(b, t.args[0])[0], affine(b, t.args[1])[0]
            if x is None or y is None:
                skipped += 1
                R.note("unclassified operand at %s: %s (%s) vs %s (%s)" % (t.where(), dx, x, dy, y))
                continue
            judged += 1
            if x == y:
                R.ok("same-space-operands", b.name, "%s: %s ~ %s (%s)" % (r.split("::")[-1], dx, dy, x))
            else:
                R.fail([b.name, "mixed-spaces", r.split("::")[-1], "%s:%s" % (x, dx), "%s:%s" % (y, dy)],
                       "a %s sequence number (%s) is %s a %s one (%s): the two numberings start at independent random values, so the outcome depends on how the two initial numbers happen to relate"
                       % (x, dx, "compared with" if "sub" not in r else "subtracted from/with", y, dy), where=t.where(), instance="same-space-operands")
        for s in b.stmts():
            rv = s.rv
            if rv is None:
                continue
            targets = []
            if rv.kind == "agg" and rv.j.get("ak") == "adt":
                owner = rv.j.get("adt", "")
                var = rv.j.get("variant")
                names = rv.j.get("fields") or []
                on = short_owner(owner)
                cand = [on + "::" + var if var and not on.endswith(var) else on, on]
                for nm, o in zip(names, rv.ops):
                    for c_ in cand:
                        fn_ = "%s.%s" % (c_, nm)
                        if fn_ in SPACE_FIELDS:
                            targets.append((fn_, SPACE_FIELDS[fn_], o))
                            break
                        if fn_ in HDR_OUT and not b.name.startswith(("raw::", "<raw::")):
                            targets.append((fn_ + "(outgoing)", HDR_OUT[fn_], o))
                            break
            elif rv.kind == "use" and s.place.proj:
                f, _, _ = place_fields(b, s.place)
                if f and f[-1] in SPACE_FIELDS:
                    targets.append((f[-1], SPACE_FIELDS[f[-1]], rv.ops[0]))
                elif f and f[-1] in HDR_OUT and len(f) == 1 and sp._dir_op(b, Place({"l": s.place.local, "p": []}), 0) == "out":
                    targets.append((f[-1] + "(outgoing)", HDR_OUT[f[-1]], rv.ops[0]))
            for fn_, want, o in targets:
                if o.kind == "const":
                    continue
                got = sp.of_op(b, o)
                d = affine(b, o)[0]
                if got is None:
                    skipped += 1
                    R.note("unclassified value stored into %s at %s: %s" % (fn_, s.where(), d))
                    continue
                stores += 1
                if got == want:
                    R.ok("same-space-store", b.name, "%s <- %s (%s)" % (fn_, d, got))
                else:
                    R.fail([b.name, "mixed-spaces-store", fn_, "%s:%s" % (got, d)],
                           "%s holds a %s sequence number but is filled from %s, which is a %s one: every later comparison against it mixes the two independent numberings" % (fn_, want, d, got),
                           where=s.where(), instance="same-space-store")
    R.note("judged %d binary sites, %d stores; %d sites had an unclassifiable side" % (judged, stores, skipped))
    R.floor("SeqNr x SeqNr sites with both sides classified", judged, 26)
    R.floor("stores into tabled sequence fields with the value classified", stores, 36)
