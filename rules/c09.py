"""C09 wrap safety: sequence numbers only through the modular type; tolerance vs configured windows."""
from .common import *

SEQ_BODIES = ("seq_nr::", "<seq_nr::SeqNr as ")
ORDER_OPS = {"Lt", "Le", "Gt", "Ge", "Cmp"}
ARITH_OPS = {"Add", "AddWithOverflow", "AddUnchecked", "Sub", "SubWithOverflow", "SubUnchecked", "Mul", "MulWithOverflow", "Div", "Rem"}
OK_SINKS = ("to_be_bytes", "to_le_bytes", "to_ne_bytes", "fmt", "hash", "Hash::hash", "wrapping_add", "wrapping_sub", "PartialEq::eq", "PartialEq::ne", "Argument::new_display", "Argument::new_debug", "Value::from", "from_be_bytes")


def raw_reads(body):
    """items that read the raw u16 out of a SeqNr: `x.0` as an operand, or <SeqNr as Deref>::deref"""
    out = []
    for it in body.items():
        if isinstance(it, Stmt):
            for o in it.rv.ops:
                if o.place is not None:
                    f, _, _ = place_fields(body, o.place)
                    if f and f[-1] == "SeqNr.0":
                        out.append((it, it.place.local if it.place.is_local else None))
            if it.rv.kind == "ref" and it.rv.place is not None:
                f, _, _ = place_fields(body, it.rv.place)
                if f and f[-1] == "SeqNr.0":
                    out.append((it, it.place.local if it.place.is_local else None))
        elif it.kind == "call":
            if (it.resolved or "").startswith("<seq_nr::SeqNr as std::ops::Deref>"):
                out.append((it, it.dest.local if it.dest.is_local else None))
            for o in it.args:
                if o.place is not None:
                    f, _, _ = place_fields(body, o.place)
                    if f and f[-1] == "SeqNr.0":
                        out.append((it, None))
    return out


def forward_uses(body, start_locals):
    """(item, how) for every use of a value derived (copy/ref/deref/cast) from the tainted locals"""
    tainted = set(start_locals)
    uses = []
    changed = True
    seen_items = set()
    while changed:
        changed = False
        for it in body.items():
            key = (it.bb, it.idx)
            if isinstance(it, Stmt):
                rv = it.rv
                srcs = [o for o in rv.ops if o.place is not None and o.place.local in tainted]
                refsrc = rv.place is not None and rv.place.local in tainted and rv.kind in ("ref", "use")
                if not srcs and not refsrc:
                    continue
                if rv.kind in ("use", "ref", "cast", "un") or (rv.kind == "agg" and rv.j["ak"] == "tuple"):
                    if it.place.is_local and it.place.local not in tainted:
                        tainted.add(it.place.local)
                        changed = True
                elif rv.kind == "bin":
                    if key not in seen_items:
                        seen_items.add(key)
                        uses.append((it, "bin:" + rv.op))
                else:
                    if key not in seen_items:
                        seen_items.add(key)
                        uses.append((it, "rv:" + rv.kind))
            elif it.kind == "call":
                if any(o.place is not None and o.place.local in tainted for o in it.args):
                    if key not in seen_items:
                        seen_items.add(key)
                        uses.append((it, "call:" + (it.resolved or "?")))
                    if call_matches(it, ("Deref::deref", "Clone::clone", "Into::into", "From::from")) and it.dest.is_local and it.dest.local not in tainted:
                        tainted.add(it.dest.local)
                        changed = True
            elif it.kind == "switch":
                pass
    return uses


@rule("C09.1", ["C09"], ["E1", "E4"], "sequence numbers are ordered and subtracted only through the modular type",
      "Outside seq_nr.rs, the raw u16 of a SeqNr (`.0`, Deref) flows only into to_be_bytes, formatting, hashing and (in)equality - never into <, <=, >, >=, Ord::cmp, min/max or non-wrapping +/-; "
      "<SeqNr as Sub<SeqNr>>::sub is seq_nr_offset(self.0, rhs.0, WRAP_TOLERANCE) in that order and Ord::cmp compares that offset with 0. Expected number of offending sites: 0.")
def c09_1(R):
    F = R.facts
    nreads = 0
    for b in F.bodies(lambda n: not n.startswith(SEQ_BODIES)):
        rr = raw_reads(b)
        if not rr:
            continue
        starts = [l for it, l in rr if l is not None]
        for it, l in rr:
            nreads += 1
            if l is None:
                # used in place (as a call argument)
                if isinstance(it, Term) and any(call_matches(it, (s,)) for s in OK_SINKS):
                    R.ok("raw-seqnr-use", owner_fn(b), "raw value -> " + short_callee(it.resolved))
                else:
                    R.fail([owner_fn(b), "raw-seqnr-into", short_callee(it.resolved) if isinstance(it, Term) else repr(it.rv)[:40]], "the raw u16 of a sequence number is used directly outside the modular type", where=it.where(), instance="raw-seqnr-use")
        for it, how in forward_uses(b, starts):
            bad = False
            if how.startswith("bin:"):
                op = how[4:]
                bad = op in ORDER_OPS or op in ARITH_OPS
            elif how.startswith("call:"):
                c = how[5:]
                if any(c == s or c.endswith("::" + s) for s in OK_SINKS) or call_matches(it, ("Deref::deref",)):
                    bad = False
                elif any(c.endswith("::" + s) for s in ("cmp", "partial_cmp", "lt", "le", "gt", "ge", "min", "max", "clamp", "checked_sub", "checked_add", "saturating_sub", "saturating_add", "abs_diff")):
                    bad = True
                else:
                    bad = False
                    R.note("raw SeqNr value passed to %s in %s (not an ordering/arithmetic sink)" % (short_callee(c), owner_fn(b)))
            if bad:
                R.fail([owner_fn(b), "raw-seqnr", how.split("::")[-1]], "a raw 16-bit sequence value is compared/ordered or added without wrap handling (%s): wrong across the 65535 -> 0 wrap" % how, where=it.where(), instance="raw-seqnr-use")
            else:
                R.ok("raw-seqnr-use", owner_fn(b), how.split("::")[-1])
    R.floor("raw SeqNr reads outside seq_nr.rs (serialize + dup-ack log)", nreads, 3)
    # the modular operators themselves
    sub = R.body("<seq_nr::SeqNr as std::ops::Sub>::sub")
    calls = [t for t in sub.calls() if call_matches(t, ("utils::seq_nr_offset",))]
    R.require(len(calls) == 1, "seq_nr_offset call in <SeqNr as Sub<SeqNr>>::sub")
    t = calls[0]
    a0, a1, a2 = trace(sub, t.args[0]), trace(sub, t.args[1]), t.args[2]
    if a0.kind == "param" and a0.root[1] == 1 and a1.kind == "param" and a1.root[1] == 2 and a2.kind == "const" and a2.const_item == "constants::WRAP_TOLERANCE":
        R.ok("modular-sub", sub.name, "seq_nr_offset(self.0, rhs.0, WRAP_TOLERANCE)")
    else:
        R.fail([sub.name, "seq_nr_offset-args", "%s,%s,%r" % (a0.describe(), a1.describe(), a2)], "SeqNr - SeqNr no longer calls seq_nr_offset(self, rhs, WRAP_TOLERANCE) in that order", where=t.where(), instance="modular-sub")
    cmp_ = R.body("<seq_nr::SeqNr as std::cmp::Ord>::cmp")
    okc = False
    for t in cmp_.calls():
        if call_matches(t, ("Ord::cmp",)) and t.dest.local == 0:
            l = trace(cmp_, t.args[0])
            r = trace(cmp_, t.args[1])
            if l.kind == "call" and (l.root[1].resolved or "").startswith("<seq_nr::SeqNr as std::ops::Sub>") and r.kind == "const" and r.root[1].scalar == 0:
                s0 = trace(cmp_, l.root[1].args[0])
                s1 = trace(cmp_, l.root[1].args[1])
                if s0.kind == "param" and s0.root[1] == 1 and s1.kind == "param" and s1.root[1] == 2:
                    okc = True
    if okc:
        R.ok("modular-ord", cmp_.name, "(*self - *other).cmp(&0)")
    else:
        R.fail([cmp_.name, "ord-shape"], "Ord for SeqNr is no longer (self - other).cmp(0)", where=cmp_.where(), instance="modular-ord")
    pc = R.body("<seq_nr::SeqNr as std::cmp::PartialOrd>::partial_cmp")
    if any(call_matches(t, ("Ord::cmp",)) and (t.resolved or "").startswith("<seq_nr::SeqNr") for t in pc.calls()):
        R.ok("modular-partial-ord", pc.name, "Some(self.cmp(other))")
    else:
        R.fail([pc.name, "partial_cmp-shape"], "PartialOrd for SeqNr no longer delegates to the modular Ord", where=pc.where(), instance="modular-partial-ord")
    # SeqNr must not derive PartialOrd/Ord (a derived impl would compare raw values)
    for im in F.impls:
        if im.get("self_adt") == "seq_nr::SeqNr" and im.get("derived") and im.get("trait") in ("std::cmp::PartialOrd", "std::cmp::Ord"):
            R.fail(["seq_nr::SeqNr", "derived", im["trait"]], "SeqNr derives %s: raw u16 ordering" % im["trait"], instance="modular-ord")


@rule("C09.2", ["C09"], ["E1"], "no absolute sequence constants in connection logic",
      "A SeqNr is built from an integer literal only in the two don't-care header fields of socket.rs (ack_nr of our SYN, seq_nr of an RST) - plus Default; the connection code contains no literal sequence numbers.")
def c09_2(R):
    F = R.facts
    # don't-care header fields: ack_nr of a SYN (nothing received yet), seq_nr of a RESET
    dont_care = {"ST_SYN": "ack_nr", "ST_RESET": "seq_nr"}
    n = 0
    for b in F.bodies(lambda n_: not n_.startswith(SEQ_BODIES)):
        for t in b.calls():
            if call_matches(t, ("Into::into", "From::from")) and t.args and t.args[0].kind == "const" and "seq_nr::SeqNr" in (t.callee_full or "") + (t.resolved or ""):
                n += 1
                uses = []
                for s in b.stmts():
                    if s.rv.kind == "agg" and s.rv.j.get("adt") == "raw::UtpHeader":
                        names = s.rv.j["fields"]
                        ht = classify(b, s.rv.ops[names.index("htype")])
                        for i_, o_ in enumerate(s.rv.ops):
                            if t.dest is not None and copy_root(b, o_) == t.dest.local:
                                uses.append((ht.split("::")[-1], names[i_]))
                if uses and all(dont_care.get(h) == f for h, f in uses):
                    R.ok("literal-seqnr-sites", owner_fn(b), "literal %s only in %s" % (t.args[0].scalar, ", ".join("%s.%s" % u for u in uses)))
                else:
                    R.fail([owner_fn(b), "literal-SeqNr", str(t.args[0].scalar)], "a literal sequence number appears in connection logic", where=t.where(), instance="literal-seqnr-sites")
        for s in b.stmts():
            if s.rv.kind == "agg" and s.rv.j.get("adt") == "seq_nr::SeqNr" and s.rv.ops and s.rv.ops[0].kind == "const":
                n += 1
                R.fail([owner_fn(b), "literal-SeqNr-aggregate", str(s.rv.ops[0].scalar)], "SeqNr(literal) outside seq_nr.rs", where=s.where(), instance="literal-seqnr-sites")
    R.floor("literal SeqNr sites", n, 2)


@rule("C09.3", ["C09"], ["E7"], "wrap tolerance vs. the largest distance the default configuration permits",
      "WRAP_TOLERANCE must be >= the number of packets the default windows allow in flight / in reassembly: RX_BUF_SIZE_PER_VSOCK_DEFAULT (and TX_BUF_SIZE_PER_VSOCK_MAX_DEFAULT) divided by the minimum "
      "payload (576 - IPV4_HEADER - UDP_HEADER - UTP_HEADER); otherwise SeqNr ordering/distance is wrong for distances the configuration allows.")
def c09_3(R):
    F = R.facts
    tol = F.const_scalar("constants::WRAP_TOLERANCE")
    rx = F.const_scalar("constants::RX_BUF_SIZE_PER_VSOCK_DEFAULT")
    tx = F.const_scalar("constants::TX_BUF_SIZE_PER_VSOCK_MAX_DEFAULT")
    hdrs = [F.const_scalar("constants::" + n) for n in ("IPV4_HEADER", "UDP_HEADER", "UTP_HEADER")]
    R.require(None not in (tol, rx, tx) and None not in hdrs, "constants WRAP_TOLERANCE / buffer sizes / header sizes")
    # the minimum MTU literal of SegmentSizes::new (IPv4)
    sn = R.body("mtu::SegmentSizes::new")
    lits = sorted({s.rv.ops[0].scalar for s in sn.stmts() if s.rv.kind == "use" and s.rv.ops[0].kind == "const" and isinstance(s.rv.ops[0].scalar, int) and s.rv.ops[0].scalar >= 500})
    R.require(lits, "default minimum MTU literal in SegmentSizes::new")
    min_payload = lits[0] - sum(hdrs)
    need = max(rx, tx) // min_payload
    if tol >= need:
        R.ok("tolerance>=window-in-packets", "constants", "WRAP_TOLERANCE=%d >= %d" % (tol, need))
    else:
        R.fail(["WRAP_TOLERANCE=%d" % tol, "default-window-packets=%d" % need],
               "WRAP_TOLERANCE (%d) is smaller than the %d packets the default buffers (%d bytes / %d-byte minimum payload) allow in flight: e.g. seq_nr_offset(964, 65000) = -64036 although the modular distance is +1500" % (tol, need, max(rx, tx), min_payload),
               where="src/constants.rs", instance="tolerance>=window-in-packets")


@rule("C09.4", ["C09", "C17", "C06"], ["E1", "E4"], "the modular type's own arithmetic wraps",
      "Inside seq_nr.rs every arithmetic on the raw u16 of a SeqNr is wrapping: Add<u16> / AddAssign<u16> reach u16::wrapping_add(self.0, rhs), Sub<u16> / SubAssign<u16> reach "
      "u16::wrapping_sub(self.0, rhs) (directly or through the sibling operator), and no saturating_*, checked_*, overflowing_* or built-in +/- touches the raw value: a saturating "
      "`-= 1` at sequence number 0 (the FIN retransmission rewind) pins the cursor and the FIN is never retransmitted; a plain `+` panics or wraps depending on the build profile.")
def c09_4(R):
    F = R.facts
    want = {
        "<seq_nr::SeqNr as std::ops::Add<u16>>::add": "wrapping_add",
        "<seq_nr::SeqNr as std::ops::AddAssign<u16>>::add_assign": "wrapping_add",
        "<seq_nr::SeqNr as std::ops::Sub<u16>>::sub": "wrapping_sub",
        "<seq_nr::SeqNr as std::ops::SubAssign<u16>>::sub_assign": "wrapping_sub",
    }
    sib = {"wrapping_add": "<seq_nr::SeqNr as std::ops::Add<u16>>::add", "wrapping_sub": "<seq_nr::SeqNr as std::ops::Sub<u16>>::sub"}
    for name, op in want.items():
        b = R.body(name)
        calls = [t for t in b.calls()]
        direct = [t for t in calls if (t.resolved or "").endswith("::" + op) and "u16" in (t.resolved or "") + (t.callee_full or "")]
        via = [t for t in calls if t.resolved == sib[op] and name != sib[op]]
        bad = [t for t in calls if any((t.resolved or "").endswith("::" + x) or ("::" + x) in (t.resolved or "") for x in ("saturating_add", "saturating_sub", "checked_add", "checked_sub", "overflowing_add", "overflowing_sub", "wrapping_add" if op == "wrapping_sub" else "wrapping_sub"))]
        raw_arith = [s for s in b.stmts() if s.rv.kind == "bin" and s.rv.op in ADD_OPS | SUB_OPS]
        args_ok = True
        for t in direct:
            a0, a1 = trace(b, t.args[0]), trace(b, t.args[1])
            if not (a0.kind == "param" and a0.root[1] == 1 and a0.last_field == "SeqNr.0" and a1.kind == "param" and a1.root[1] == 2):
                args_ok = False
        for t in via:
            a0, a1 = trace(b, t.args[0]), trace(b, t.args[1])
            if not (a0.kind == "param" and a0.root[1] == 1 and a1.kind == "param" and a1.root[1] == 2):
                args_ok = False
        if (direct or via) and not bad and not raw_arith and args_ok:
            R.ok("seqnr-arith-wraps", name.split(" as ")[1], "u16::%s(self.0, rhs)%s" % (op, "" if direct else " via the sibling operator"))
        else:
            what = short_callee(bad[0].resolved) if bad else ("built-in " + raw_arith[0].rv.op if raw_arith else ("wrong-operands" if not args_ok else "no-" + op))
            R.fail([name, "not-wrapping", what], "%s is no longer u16::%s(self.0, rhs) (%s): sequence arithmetic breaks at the 16-bit wrap" % (name.split(" as ")[1].rstrip(">"), op, what), where=(bad[0].where() if bad else b.where()), instance="seqnr-arith-wraps")
    # nothing else in seq_nr.rs does arithmetic on the raw value
    for b in F.bodies(lambda n: n.startswith(SEQ_BODIES) and n not in want):
        for s in b.stmts():
            if s.rv.kind == "bin" and s.rv.op in ADD_OPS | SUB_OPS | MUL_OPS:
                R.fail([b.name, "raw-arithmetic", s.rv.op], "built-in arithmetic on a sequence number inside seq_nr.rs", where=s.where(), instance="seqnr-arith-wraps")
