#!/usr/bin/env python3
"""Generates selftest/mutants/*.patch from the table below: one small edit per rule instance, expressed as an exact
string replacement on the CURRENT /repo tree (so the corpus follows harmless drift; an entry whose `old` text is gone
is reported and skipped).  Each mutant compiles; bin/selftest applies it to a scratch copy and requires the rule to
report a key containing `expect`.  Fix-revert mutants (kf*.patch) are kept as plain git diffs next to these."""
import difflib, os, sys

REPO = "/repo"
OUT = os.path.join(os.path.dirname(os.path.abspath(__file__)), "mutants")

# (name, property, rule, expected key substring, file, old, new, note)
M = [
 # ---------------------------------------------------------------- C01
 ("c01-enqueue-forgets-len_bytes", "C01", "C01.1", "enqueue|Segments.segments|events=Segments.offset+=,ins|missing=Segments.len_bytes+=", "src/stream_tx_segments.rs",
  "        self.offset += payload_len as u64;\n        self.len_bytes += payload_len;\n", "        self.offset += payload_len as u64;\n", "drop one coupled counter update"),
 ("c01-cleanup-loop-forgets-snd_una", "C01", "C01.1", "remove_up_to_ack|Segments.segments", "src/stream_tx_segments.rs",
  "            self.len_bytes -= segment.payload_size;\n            self.snd_una += 1;\n            self.segments.pop_front().unwrap();", "            self.len_bytes -= segment.payload_size;\n            self.segments.pop_front().unwrap();", "front-cleanup loop no longer advances snd_una"),
 ("c01-truncate-by-sacked-bytes", "C01", "C01.3", "truncate_front|sources=", "src/stream_dispatch.rs",
  "                    .truncate_front(result.on_ack_result.acked_bytes)?;", "                    .truncate_front(result.on_ack_result.acked_bytes + result.on_ack_result.newly_sacked_byte_count)?;", "ring consumed by SACKed bytes too"),
 ("c01-ooq-pop-forgets-len", "C01", "C01.4", "send_front_if_fits|OutOfOrderQueue.data", "src/stream_rx.rs",
  "        self.filled_front -= 1;\n        self.len -= 1;\n", "        self.filled_front -= 1;\n", "reassembly slot count diverges"),
 ("c01-slot-overwrite", "C01", "C01.5", "slot-write-not-guarded-by|slot-is-default", "src/stream_rx.rs",
  "        if !ooq_slot_is_default(slot) {\n            return Ok(AssemblerAddRemoveResult::AlreadyPresent);\n        }\n", "", "duplicates overwrite an occupied slot and are counted twice"),
 ("c01-duplicate-path-drops-ack-result", "C01", "C01.7", "Ok-exit-after(remove_up_to_ack)-drops-OnAckResult", "src/stream_dispatch.rs",
  "                    METRICS.incoming_already_acked_data_packets.increment(1);\n                    return Ok(result);", "                    METRICS.incoming_already_acked_data_packets.increment(1);\n                    return Ok(Default::default());", "same as seeded C01-b"),
 ("c01-reader-offset-not-advanced", "C01", "C01.8", "copy-without|current.offset += len", "src/stream_rx.rs",
  "                written += len;\n                current.offset += len;\n", "                written += len;\n                if written < 1 {\n                    current.offset += len;\n                }\n", "second buffer of a vectored read re-reads the same bytes"),
 ("c01-reader-clears-current-early", "C01", "C01.8", "current=None|not-under(offset==payload.len())", "src/stream_rx.rs",
  "                if current.offset == current.payload.len() {\n                    self.current = None;", "                if current.offset >= len {\n                    self.current = None;", "tail of a partially read message is dropped"),
 ("c01-reader-eof-before-count", "C01", "C01.8", "Ok(0)|not-under(written==0)", "src/stream_rx.rs",
  "        if written > 0 {\n            let mut g = self.shared.locked.lock();", "        if self.is_eof {\n            return Poll::Ready(Ok(0));\n        }\n\n        if written > 0 {\n            let mut g = self.shared.locked.lock();", "bytes copied just before EOF are reported as 0"),
 ("c01-reader-pop-while-pending", "C01", "C01.8", "copy-shape", "src/stream_rx.rs",
  "                let len = current_buf.len().min(payload.len());\n                current_buf[..len].copy_from_slice(&payload[..len]);", "                let len = current_buf.len().min(payload.len());\n                current_buf[..len].copy_from_slice(&current.payload[..len]);", "every chunk re-reads the message from its start"),
 # ---------------------------------------------------------------- C02
 ("c02-writer-drop-no-wake", "C02", "C02.1", "mark_writer_dropped|write(UserTxLocked.writer_dropped=true)|", "src/stream_tx.rs",
  "            self.writer_dropped = true;\n            if let Some(w) = self.dispatcher_waker.take() {\n                w.wake();\n            }\n", "            self.writer_dropped = true;\n", "dropping the writer no longer wakes the dispatcher"),
 ("c02-truncate-no-writer-wake", "C02", "C02.1", "process_all_incoming_messages|call(UserTx::truncate_front)|", "src/stream_dispatch.rs",
  "                if let Some(w) = waker {\n                    w.wake();\n                }\n            }\n\n            trace!(?result.on_ack_result, \"removed ACKed tx messages\");", "                drop(waker);\n            }\n\n            trace!(?result.on_ack_result, \"removed ACKed tx messages\");", "ACK frees ring space, blocked writer not woken"),
 ("c02-poll-flush-pending-unregistered", "C02", "C02.2", "poll_flush|Pending-without-registered-waker", "src/stream_tx.rs",
  "            return Poll::Ready(Err(std::io::Error::other(\"socket died\")));\n        }\n\n        update_optional_waker(&mut g.writer_waker, cx);\n\n        Poll::Pending", "            return Poll::Ready(Err(std::io::Error::other(\"socket died\")));\n        }\n\n        Poll::Pending", "flush parks without a waker"),
 ("c02-timer-not-in-deadline", "C02", "C02.3", "timer-not-in-deadline|Timers.syn_ack_resend", "src/stream_dispatch.rs",
  "            self.timers.recovery_pipe_expiry.take().poll_at(), // take() disarms it on every call\n            self.timers.syn_ack_resend.poll_at(),\n", "            self.timers.recovery_pipe_expiry.take().poll_at(), // take() disarms it on every call\n", "SYN-ACK resend timer cannot wake the task"),
 ("c02-fin-sent-rto-not-armed", "C02", "C02.4", "maybe_send_fin|exit-without|arm(Timers.retransmit)", "src/stream_dispatch.rs",
  "        if self.send_control_packet(cx, &fin)? {\n            self.timers.retransmit.arm(\n                self.this_poll.now,\n                self.rtte.retransmission_timeout(),\n                false,\n                \"rfc6298 5.1\",\n            );\n", "        if self.send_control_packet(cx, &fin)? {\n", "a lost FIN is never retransmitted"),
 ("c02-early-pending", "C02", "C02.6", "stage-skippable|maybe_send_ack", "src/stream_dispatch.rs",
  "            // Send an ACK if nothing sent yet and sending an ACK is necessary.\n            pending_if_cannot_send!(self.maybe_send_ack(cx).map(|_| ()));", "            // Send an ACK if nothing sent yet and sending an ACK is necessary.\n            if !self.state.is_local_fin_or_later() {\n                pending_if_cannot_send!(self.maybe_send_ack(cx).map(|_| ()));\n            }", "ACK stage skipped after local FIN"),
 ("c02-idle-return-unregistered", "C02", "C02.9", "idle-return-without-registering", "src/stream_dispatch.rs",
  "            if tx_len == 0 {\n                update_optional_waker(&mut g.dispatcher_waker, cx);\n                return Ok(());\n            }", "            if tx_len == 0 {\n                return Ok(());\n            }", "a write on an idle connection wakes nobody"),
 ("c02-lock-order-cycle", "C02", "C02.7", "lock-order-cycle", "src/stream_tx.rs",
  "        let skipped = self.consumer.lock().skip(count);", "        let skipped = {\n            let mut c = self.consumer.lock();\n            let closed = self.locked.read().vsock_closed;\n            if closed { 0 } else { c.skip(count) }\n        };", "consumer -> locked while the dispatcher holds locked -> consumer (and re-acquires locked through the call)"),
 # ---------------------------------------------------------------- C03
 ("c03-shutdown-ok-with-unacked", "C03", "C03.1", "poll_shutdown|Ready(Ok)|not-guarded-by(UserTx.producer.is_empty)", "src/stream_tx.rs",
  "            if g.vsock_closed {\n                return Poll::Ready(Err(std::io::Error::other(\"socket died\")));\n            }\n\n            update_optional_waker(&mut g.writer_waker, cx);\n            return Poll::Pending;", "            if g.vsock_closed {\n                return Poll::Ready(Ok(()));\n            }\n\n            update_optional_waker(&mut g.writer_waker, cx);\n            return Poll::Pending;", "shutdown reports success with unacknowledged bytes when the socket died"),
 ("c03-error-exit-skips-death-path", "C03", "C03.3", "Ready-exit-without(just_before_death)", "src/stream_dispatch.rs",
  "                let err = Error::RemoteInactiveForTooLong;\n                trace!(state=?self.state, \"remote was inactive for too long\");\n                self.just_before_death(cx, Some(&err));\n", "                let err = Error::RemoteInactiveForTooLong;\n                trace!(state=?self.state, \"remote was inactive for too long\");\n", "inactivity exit does not tell the halves"),
 ("c03-death-path-closes-before-error", "C03", "C03.3", "enqueue_error-after-mark_vsock_closed", "src/stream_dispatch.rs",
  "        if let Some(e) = error {\n            self.user_rx.enqueue_error(format!(\"{e:#}\"));\n        }\n\n        // This will close the reader.\n        self.user_rx.mark_vsock_closed();\n", "        // This will close the reader.\n        self.user_rx.mark_vsock_closed();\n\n        if let Some(e) = error {\n            self.user_rx.enqueue_error(format!(\"{e:#}\"));\n        }\n", "reordered pair"),
 # ---------------------------------------------------------------- C04
 ("c04-ack-nr-from-last-sent", "C04", "C04.1", "write(UtpHeader.ack_nr)", "src/stream_dispatch.rs",
  "        header.ack_nr = self.last_consumed_remote_seq_nr;\n        header.wnd_size = self.rx_window();", "        header.ack_nr = self.last_sent_ack_nr;\n        header.wnd_size = self.rx_window();", "wrong field of the right type"),
 ("c04-window-ignores-reassembly", "C04", "C04.4", "remaining_rx_window|missing-subtraction", "src/stream_rx.rs",
  "            self.last_remaining_rx_window\n                .saturating_sub(self.ooq.stored_bytes())", "            self.last_remaining_rx_window", "window overstates while packets are parked"),
 ("c04-push-capacity-off-by-one", "C04", "C04.5", "try_push_back|push_back-not-guarded-by", "src/stream_rx.rs",
  "            if self.capacity - self.len_bytes < len {\n                return Err(msg);\n            }", "            if self.capacity < len {\n                return Err(msg);\n            }", "capacity guard ignores what is already queued"),
 ("c04-sack-start-shifted", "C04", "C04.6", "sack-range-start|filled_front+0", "src/stream_rx.rs",
  "        let start = self.filled_front + 1;\n        if start >= self.data.len() {", "        let start = self.filled_front;\n        if start >= self.data.len() {", "every SACK bit names the previous packet (the hole itself is reported as received)"),
 ("c04-sack-consumer-start-plus-1", "C04", "C04.6", "sack_start|ack_nr+1", "src/stream_tx_segments.rs",
  "                let sack_start = ack_header.ack_nr + 2;", "                let sack_start = ack_header.ack_nr + 1;", "sender shifts every bit by one: the lost segment is marked delivered"),
 ("c04-sack-negative-offset-not-skipped", "C04", "C04.6", "sack-zip-alignment", "src/stream_tx_segments.rs",
  "                        .zip(sack.iter().skip((-sack_start_offset) as usize))", "                        .zip(sack.iter())", "bits misaligned when the queue head is already past ack_nr + 2"),
 ("c04-sack-marks-unsacked", "C04", "C04.6", "is_delivered=true|not-under(bit=true)", "src/stream_tx_segments.rs",
  "                    if !segment.is_delivered && is_sacked {", "                    if !segment.is_delivered {", "every segment in SACK range is marked delivered"),
 # ---------------------------------------------------------------- C05
 ("c05-budget-guard-dropped", "C05", "C05.1", "new-data-send|not-guarded-by(remaining_cwnd>=payload_size)", "src/stream_dispatch.rs",
  "            if remaining_cwnd < item.payload_size() {\n                METRICS.send_window_exhausted.increment(1);\n                trace_every_ms!(100, \"remote recv window exhausted\");\n                break;\n            }\n", "            if remaining_cwnd == 0 {\n                METRICS.send_window_exhausted.increment(1);\n                trace_every_ms!(100, \"remote recv window exhausted\");\n                break;\n            }\n", "sends a full segment into a 1-byte budget"),
 ("c05-flight-size-not-subtracted", "C05", "C05.1", "missing-subtraction|calc_flight_size", "src/stream_dispatch.rs",
  "                    .min(self.last_remote_window as usize)\n                    .saturating_sub(\n                        self.user_tx_segments\n                            .calc_flight_size(self.last_sent_seq_nr),\n                    )\n", "                    .min(self.last_remote_window as usize)\n", "window used without subtracting bytes in flight"),
 ("c05-rto-gate-after-recovery", "C05", "C05.3", "recovery-send|not-guarded-by(rto_retransmissions==0)", "src/stream_dispatch.rs",
  "        // We are in RTO retransmission mode, don't send anything.\n        if self.rto_retransmissions > 0 {", "        // We are in RTO retransmission mode, don't send anything.\n        if self.rto_retransmissions > 0 && !self.recovery.is_recovering() {", "gate weakened"),
 ("c05-initial-cwnd-10", "C05", "C05.5", "cwnd-init", "src/congestion/cubic.rs", "            cwnd: 2.,\n            ssthresh: f64::INFINITY,", "            cwnd: 10.,\n            ssthresh: f64::INFINITY,", "IW10"),
 # ---------------------------------------------------------------- C06
 ("c06-recovery-iterator-no-delivered-filter", "C06", "C06.2", "recovery-iterator", "src/stream_dispatch.rs",
  "                .take_while(|seg| seg.seq_nr() <= recovery_point)\n                .filter(|s| !s.is_delivered());", "                .take_while(|seg| seg.seq_nr() <= recovery_point);", "recovery may resend SACKed segments (only the inner filter left)"),
 ("c06-karn-violated", "C06", "C06.3", "rtt-sample-not-under(SentTime)", "src/stream_tx_segments.rs",
  "            SentStatus::NotSent | SentStatus::Retransmitted { .. } => {}\n            SentStatus::SentTime(sent_ts) => {\n                *rtt = rtt_min(*rtt, Some(now - sent_ts));\n            }", "            SentStatus::NotSent => {}\n            SentStatus::SentTime(sent_ts)\n            | SentStatus::Retransmitted {\n                last_send_ts: sent_ts,\n                ..\n            } => {\n                *rtt = rtt_min(*rtt, Some(now - sent_ts));\n            }", "RTT sampled from retransmitted segments"),
 ("c06-rto-no-backoff", "C06", "C06.5", "rto-path|missing=rtte.on_rto_timeout", "src/stream_dispatch.rs",
  "                        self.congestion_controller\n                            .on_retransmission_timeout(self.this_poll.now);\n                        self.rtte.on_rto_timeout();\n                        self.recovery.on_rto_timeout(self.last_sent_seq_nr);\n                    }\n\n                    // Restart the timer.", "                        self.congestion_controller\n                            .on_retransmission_timeout(self.this_poll.now);\n                        self.recovery.on_rto_timeout(self.last_sent_seq_nr);\n                    }\n\n                    // Restart the timer.", "RTO never doubles for data segments"),
 ("c06-dupack-threshold-4", "C06", "C06.6", "SACK_DUP_THRESH", "src/constants.rs", "pub const SACK_DUP_THRESH: u8 = 3;", "pub const SACK_DUP_THRESH: u8 = 4;", "constant"),
 # ---------------------------------------------------------------- C07
 ("c07-ack-delay-400ms", "C07", "C07.1", "constants::ACK_DELAY", "src/constants.rs", "pub const ACK_DELAY: Duration = Duration::from_millis(40);", "pub const ACK_DELAY: Duration = Duration::from_millis(400);", "constant"),
 ("c07-immediate-ack-strictly-greater", "C07", "C07.2", "threshold-shape", "src/stream_dispatch.rs",
  "        self.consumed_but_unacked_bytes\n            >= IMMEDIATE_ACK_EVERY_RMSS * self.segment_sizes.mss() as usize", "        self.consumed_but_unacked_bytes\n            > IMMEDIATE_ACK_EVERY_RMSS * self.segment_sizes.mss() as usize", ">= to >"),
 ("c07-duplicate-no-forced-ack", "C07", "C07.3", "trigger|duplicate|exit-without(force_immediate_ack)", "src/stream_dispatch.rs",
  "                    self.force_immediate_ack(\"duplicate ST_DATA\");\n", "", "duplicate data no longer re-ACKed at once"),
 ("c07-counter-reset-when-not-sent", "C07", "C07.5", "write(VirtualSocket.consumed_but_unacked_bytes=0)", "src/stream_dispatch.rs",
  "        } else {\n            METRICS.unsent_control_packets.increment(1);\n        }", "        } else {\n            METRICS.unsent_control_packets.increment(1);\n            self.consumed_but_unacked_bytes = 0;\n        }", "pending ACK forgotten when the transport was busy"),
 # ---------------------------------------------------------------- C08
 ("c08-guard-key-uses-send-id", "C08", "C08.1", "drop_guard", "src/stream_dispatch.rs",
  "                ControlRequest::Shutdown((remote, conn_id_recv)),", "                ControlRequest::Shutdown((remote, conn_id_send)),", "wrong field of the right type: the slot leaks"),
 ("c08-spawn-without-cancel", "C08", "C08.4", "run_forever-not-into(spawn_with_cancel)", "src/stream_dispatch.rs",
  "        spawn_with_cancel(span, cancellation_token, vsock.run_forever());", "        drop(cancellation_token);\n        crate::spawn_utils::spawn(span, vsock.run_forever());", "connection task not cancellable"),
 ("c08-final-chance-restarting", "C08", "C08.5", "final-chance-arm|restart=true", "src/stream_dispatch.rs",
  "                    SHUTDOWN_FINAL_CHANCE_DELAY,\n                    false,", "                    SHUTDOWN_FINAL_CHANCE_DELAY,\n                    true,", "deadline postponed by every poll"),
 # ---------------------------------------------------------------- C09
 ("c09-raw-compare", "C09", "C09.1", "raw-seqnr|bin:Gt", "src/stream_dispatch.rs",
  "                if self.last_sent_seq_nr > rewind_to {", "                if *self.last_sent_seq_nr > *rewind_to {", "raw u16 ordering (keeps the zero-count rule honest)"),
 ("c09-literal-seqnr-in-logic", "C09", "C09.2", "literal-SeqNr", "src/stream_dispatch.rs",
  "            user_tx_segments: Segments::new(seq_nr),", "            user_tx_segments: Segments::new(if false { 1u16.into() } else { seq_nr }),", "absolute constant"),
 # ---------------------------------------------------------------- C10 / C11
 ("c10-new-unwrap-on-peer-path", "C10", "C10.1", "unaudited-panic-capable-op|unwrap", "src/recovery.rs",
  "        self.receiver_supports_sack |= header.extensions.selective_ack.is_some();", "        self.receiver_supports_sack |= header.extensions.selective_ack.is_some();\n        let _first = tx_segs.first_seq_nr().unwrap();", "unwrap on an empty queue"),
 ("c10-drain-unclamped", "C10", "C10.1", "remove_up_to_ack|unaudited-panic-capable-op|range", "src/stream_tx_segments.rs",
  "            let drain_count = (offset as usize + 1).min(self.segments.len());", "            let drain_count = offset as usize + 1;", "sibling of KF11"),
 ("c11-deserialize-guard-19", "C11", "C11.1", "unaudited-panic-capable-op", "src/raw.rs",
  "        let mut buffer = orig_buffer;\n        if buffer.len() < UTP_HEADER as usize {", "        let mut buffer = orig_buffer;\n        if buffer.len() < UTP_HEADER as usize - 1 {", "19-byte datagram panics"),
 ("c11-layout-swapped-fields", "C11", "C11.2", "layout-mismatch", "src/raw.rs",
  "        buffer[16..18].copy_from_slice(&self.seq_nr.to_be_bytes());\n        buffer[18..20].copy_from_slice(&self.ack_nr.to_be_bytes());", "        buffer[16..18].copy_from_slice(&self.ack_nr.to_be_bytes());\n        buffer[18..20].copy_from_slice(&self.seq_nr.to_be_bytes());", "encoder swaps seq/ack"),
 ("c11-payload-rule-weakened", "C11", "C11.3", "missing-rejection|nondata-payload", "src/message.rs",
  "            other => {\n                if payload_size > 0 {\n                    trace!(\"{other:?} packet with payload, ignoring\");\n                    return None;\n                }\n            }", "            other => {\n                if payload_size > 0 {\n                    trace!(\"{other:?} packet with payload\");\n                }\n            }", "accepts control packets with payload"),
 # ---------------------------------------------------------------- C12 / C13
 ("c12-route-by-ack-nr", "C12", "C12.1", "send(UtpMessage)", "src/socket.rs",
  "        let key = (addr, message.header.connection_id);\n\n        if let Some(tx) = self.streams.get(&key) {", "        let key = (addr, message.header.connection_id);\n\n        if let Some(tx) = self.streams.get(&(addr, message.header.connection_id + 0u16)).or_else(|| self.streams.values().next()) {", "fallback delivers to another stream"),
 ("c12-limit-off-by-one", "C12", "C12.2", "streams_full", "src/socket.rs",
  "        self.streams.len() >= self.socket.opts.max_active_streams.get()", "        self.streams.len() > self.socket.opts.max_active_streams.get()", ">= to >"),
 ("c13-syn-cache-unbounded", "C13", "C13.1", "push_back-not-guarded-by(len<ACCEPT_QUEUE_MAX_SYNS)", "src/socket.rs",
  "        if self.syns.len() < ACCEPT_QUEUE_MAX_SYNS {\n            self.syns.push_back(syn);\n            return None;\n        }\n        Some(syn)", "        self.syns.push_back(syn);\n        None", "backlog unbounded"),
 ("c13-cached-syns-lifo", "C13", "C13.2", "AcceptQueue.syns|call|VecDeque::pop_back", "src/socket.rs",
  "        while let Some(syn) = self.accept_queue.syns.pop_front() {", "        while let Some(syn) = self.accept_queue.syns.pop_back() {", "newest first"),
 ("c13-rst-not-awaited", "C13", "C13.3", "try_send_rst", "src/socket.rs",
  "                self.try_send_rst(syn).await;\n                Ok(())", "                drop(self.try_send_rst(syn));\n                Ok(())", "future dropped: no RESET"),
 ("c13-connect-guard-disarmed-early", "C13", "C13.5", "disarm-before-reply", "src/socket.rs",
  "        let stream_or_err = rx.await.ok().ok_or(Error::DispatcherDead)?;\n        send_drop_guard.disarm();", "        send_drop_guard.disarm();\n        let stream_or_err = rx.await.ok().ok_or(Error::DispatcherDead)?;", "reordered pair: a cancelled connect leaks its slot"),
 ("c13-synack-matched-by-seq_nr", "C13", "C13.5", "pop-key", "src/socket.rs",
  "        let conn = if let Some(conn) = occ.get_mut().pop(msg.header.ack_nr) {", "        let conn = if let Some(conn) = occ.get_mut().pop(msg.header.seq_nr) {", "wrong field of the right type"),
 # ---------------------------------------------------------------- C14..C19
 ("c14-probe-not-last", "C14", "C14.2", "probe-enqueued-loop-continues", "src/stream_dispatch.rs",
  "            if is_mtu_probe {\n                trace!(payload_size, \"MTU probing, not segmenting more data\");\n                break;\n            }", "            if is_mtu_probe {\n                trace!(payload_size, \"MTU probing\");\n            }", "segments enqueued behind a probe"),
 ("c14-expiry-does-not-lower-ceiling", "C14", "C14.3", "expired-path-without(on_probe_failed(payload_size))", "src/stream_dispatch.rs",
  "                    self.last_sent_seq_nr = rewind_to;\n                }\n                self.segment_sizes.on_probe_failed(payload_size);", "                    self.last_sent_seq_nr = rewind_to;\n                }", "same size probed forever"),
 ("c15-window-no-floor", "C15", "C15.1", "window-shape", "src/congestion/cubic.rs",
  "        (self.cwnd.max(2.).min(self.rwnd) * self.mss as f64) as usize", "        (self.cwnd.min(self.rwnd) * self.mss as f64) as usize", "after an RTO the sender gets 1 segment forever"),
 ("c15-set-mss-resets", "C15", "C15.3", "set_mss", "src/congestion/cubic.rs",
  "            self.cwnd *= rescale;\n            self.ssthresh *= rescale;", "            self.cwnd = 2.;\n            self.ssthresh *= rescale;", "reset instead of rescale"),
 ("c16-rto-unclamped-on-timeout", "C16", "C16.1", "write(rto)", "src/rtte.rs",
  "            RttState::Subsequent { rto, .. } => {\n                *rto = clamp(*rto * 2);\n            }", "            RttState::Subsequent { rto, .. } => {\n                *rto = *rto * 2;\n            }", "back-off escapes the 60 s cap"),
 ("c16-min-rto-1s", "C16", "C16.2", "rtte::RTTE_MIN_RTO", "src/rtte.rs", "const RTTE_MIN_RTO: Duration = Duration::from_millis(200);", "const RTTE_MIN_RTO: Duration = Duration::from_millis(1000);", "constant"),
 ("c17-fin-in-established-closes", "C17", "C17.1", "transition", "src/stream_dispatch.rs",
  "                self.state = LastAck {\n                    our_fin,\n                    remote_fin: hdr.seq_nr,\n                }\n            }\n\n            (FinWait1 { our_fin }, ST_FIN) if hdr.ack_nr == our_fin => {", "                let _ = our_fin;\n                self.state = Closed;\n            }\n\n            (FinWait1 { our_fin }, ST_FIN) if hdr.ack_nr == our_fin => {", "Established --FIN--> Closed: our FIN is never sent"),
 ("c17-synack-uncapped", "C17", "C17.2", "send_ack-not-guarded-by(sent_count<cap)", "src/stream_dispatch.rs",
  "        if sent_count == self.socket_opts.max_segment_retransmissions.get() {\n            return Err(Error::MaxSynAckRetransmissionsReached);\n        }\n        if self.send_ack(cx)? {", "        if self.send_ack(cx)? {", "SYN-ACK repeated forever"),
 ("c17-fin-before-data", "C17", "C17.4", "missing-guards", "src/stream_dispatch.rs",
  "                || self.user_tx.is_writer_shutdown())\n                && !self.unsent_data_exists()\n", "                || self.user_tx.is_writer_shutdown())\n", "FIN scheduled while data is unsent"),
 ("c18-nagle-ignores-flight", "C18", "C18.1", "nagle-table", "src/stream_dispatch.rs",
  "                if self.socket_opts.nagle && !can_send_full_payload && data_in_flight {", "                if self.socket_opts.nagle && !can_send_full_payload {", "small write on an idle connection is held back"),
 ("c18-nagle-inverted", "C18", "C18.2", "nagle-source", "src/socket.rs", "            nagle: !self.disable_nagle,", "            nagle: self.disable_nagle,", "option inverted"),
 ("c19-write-returns-buf-len", "C19", "C19.1", "Ok(n)-source", "src/stream_tx.rs",
  "        Poll::Ready(Ok(count))\n    }", "        Poll::Ready(Ok(buf.len()))\n    }", "claims more than the ring accepted"),
 ("c19-grow-copies-second-first", "C19", "C19.2", "copy-order", "src/stream_tx.rs",
  "        new_rb.push_slice(first);\n        new_rb.push_slice(second);", "        new_rb.push_slice(second);\n        new_rb.push_slice(first);", "wrapped content reordered on growth"),
 ("c19-grow-unbounded", "C19", "C19.2", "new-capacity-shape", "src/stream_tx.rs",
  "        let new_cap = (cap * 2).min(max_size.get());", "        let new_cap = cap * 2;", "exceeds the configured maximum"),
]


def main():
    os.makedirs(OUT, exist_ok=True)
    made = skipped = 0
    for name, prop, rule, expect, path, old, new, note in M:
        src = open(os.path.join(REPO, path)).read()
        if src.count(old) != 1:
            print("SKIP %s: `old` text occurs %d times in %s" % (name, src.count(old), path))
            skipped += 1
            continue
        dst = src.replace(old, new)
        diff = "".join(difflib.unified_diff(src.splitlines(True), dst.splitlines(True), "a/" + path, "b/" + path, n=3))
        with open(os.path.join(OUT, name + ".patch"), "w") as f:
            f.write("# prop: %s\n# rule: %s\n# expect: %s\n# note: %s\n" % (prop, rule, expect, note))
            f.write(diff)
        made += 1
    print("generated %d mutants, skipped %d" % (made, skipped))


if __name__ == "__main__":
    main()
